import TWV.Model.NpPrims

/-!
# TWV.Model.IntervalVocab — vocabulary of translator T13 (`IntervalArray`, `interval.py`)

`harness/t13_interval.py` regenerates the methods of `IntervalArray` as `Except Err …` programs over
the instance state `self.a : Vec K`, `self.n : Nat`, composed of `TWV.Np` (`TWV/Model/NpPrims.lean`)
and of the primitives below.  What is new compared to T8:

* **checked** element access: `a[k]` / `a[k] = v` on a 1-D array raise `IndexError` outside
  `-len ≤ k < len` (`getE`, `setE`; NumPy's rule, stated independently of the hand model's
  `Interval.pyIndex`);
* NaN-padded data: an element of a padded array is an `Option K`, `none` = NaN
  (`padNaN` = `np.pad(a.astype(float), (before, after), mode='constant', constant_values=np.nan)`,
  a negative pad width is NumPy's `ValueError`);
* shape-checked 2-D operations: `reshapeE` (`v.reshape(r, c)`, `ValueError` unless `len v = r * c`;
  `reshapeRowsE` / `reshapeColsE` for an inferred `-1` dimension), `hcatE` / `vcatE`
  (`np.concatenate([..], axis=1 / 0)`, `ValueError` when the other dimension differs),
  `sliceCols` (`m[:, lo:hi]`), `mat11` (`[[x]]`).

No Mathlib import.  Everything is total and computable.
-/

namespace TWV
namespace Iv

/-! ### checked indices -/

/-- the position `a[k]` reads in an array of length `len`, or NumPy's `IndexError` -/
def checkedIdx (len : Nat) (k : Int) : Except Err Nat :=
  if -(len : Int) ≤ k ∧ k < (len : Int) then .ok (Np.normIdx len k) else .error .indexError

variable {α : Type}

/-- `a[k]` (read) -/
def getE (a : Vec α) (k : Int) : Except Err α :=
  match checkedIdx a.len k with
  | .ok p => .ok (a.get p)
  | .error e => .error e

/-- `a[k] = v` (the array after the write) -/
def setE (a : Vec α) (k : Int) (v : α) : Except Err (Vec α) :=
  match checkedIdx a.len k with
  | .ok p => .ok ⟨a.len, fun q => if q = p then v else a.get q⟩
  | .error e => .error e

/-! ### NaN padding -/

/-- `np.pad(a.astype(float), (before, after), mode='constant', constant_values=np.nan)` -/
def padNaN (a : Vec α) (before after : Int) : Except Err (Vec (Option α)) :=
  if 0 ≤ before ∧ 0 ≤ after then
    .ok ⟨before.toNat + a.len + after.toNat, fun i =>
      if before.toNat ≤ i ∧ i < before.toNat + a.len then some (a.get (i - before.toNat)) else none⟩
  else .error .valueError

/-- `a.astype(float)` seen as possibly-NaN data (no padding) -/
def someVec (a : Vec α) : Vec (Option α) := ⟨a.len, fun i => some (a.get i)⟩

/-- `np.full(k, np.nan)` -/
def fullNaN (k : Nat) : Vec (Option α) := ⟨k, fun _ => none⟩

/-- `np.concatenate([u, v])` / `np.append(u, v)` on possibly-NaN data -/
def concatO (u v : Vec (Option α)) : Vec (Option α) :=
  ⟨u.len + v.len, fun i => if i < u.len then u.get i else v.get (i - u.len)⟩

/-- `-(-a // b)` / `math.ceil(a / b)` on counts -/
def ceilDiv (a b : Nat) : Nat := (a + b - 1) / b

/-! ### shape-checked 2-D operations -/

/-- `v.reshape(r, c)` (row-major) -/
def reshapeE (v : Vec α) (r c : Nat) : Except Err (Mat α) :=
  if v.len = r * c then .ok ⟨r, c, fun i j => v.get (i * c + j)⟩ else .error .valueError

/-- `v.reshape(-1, c)` -/
def reshapeRowsE (v : Vec α) (c : Nat) : Except Err (Mat α) :=
  if 0 < c ∧ v.len % c = 0 then .ok ⟨v.len / c, c, fun i j => v.get (i * c + j)⟩
  else .error .valueError

/-- `v.reshape(r, -1)` -/
def reshapeColsE (v : Vec α) (r : Nat) : Except Err (Mat α) :=
  if 0 < r ∧ v.len % r = 0 then .ok ⟨r, v.len / r, fun i j => v.get (i * (v.len / r) + j)⟩
  else .error .valueError

/-- `m[:, lo:hi]` -/
def sliceCols (m : Mat α) (lo hi : Option Int) : Mat α :=
  ⟨m.rows, Np.hiB m.cols hi - Np.loB m.cols lo, fun i j => m.get i (Np.loB m.cols lo + j)⟩

/-- `[[x]]` -/
def mat11 (x : α) : Mat α := ⟨1, 1, fun _ _ => x⟩

/-- `np.concatenate([p, q], axis=0)` / `np.vstack` -/
def vcatE (p q : Mat α) : Except Err (Mat α) :=
  if p.cols = q.cols then
    .ok ⟨p.rows + q.rows, p.cols, fun i j => if i < p.rows then p.get i j else q.get (i - p.rows) j⟩
  else .error .valueError

/-- `np.concatenate([p, q], axis=1)` / `np.hstack` of 2-D arrays -/
def hcatE (p q : Mat α) : Except Err (Mat α) :=
  if p.rows = q.rows then
    .ok ⟨p.rows, p.cols + q.cols, fun i j => if j < p.cols then p.get i j else q.get i (j - p.cols)⟩
  else .error .valueError

/-- `m[i, j]` as a list of rows (for `decide` examples) -/
def matToList (m : Mat α) : List (List α) :=
  (List.range m.rows).map fun i => (List.range m.cols).map fun j => m.get i j

end Iv
end TWV
