import TWV.Model.Arrays
import TWV.Model.Process
import TWV.Model.Match
import TWV.Model.Rfa

/-!
# Model of `weaver.py`: the `Weaver` façade as a state machine

The state holds the six series of the object (working, reference, original) as lists, plus the
arrays the caller handed to the constructor.  Every public method is one `step`; a step either
succeeds with a new state or reports an error **together with the state it leaves behind**
(`StepResult`), written in the code's assignment order, so that "a rejected operation leaves the
object untouched" has content.

Results of external routines (SciPy splines, NumPy's generator, a trend callable outside the
polynomial family) are carried by the operation as data.
-/

namespace TWV
namespace Weaver

variable {K : Type} [Add K] [Sub K] [Mul K] [Div K] [Neg K] [Zero K] [One K] [NatCast K]
  [LT K] [LE K] [DecidableLT K] [DecidableLE K] [DecidableEq K]

/-- tabulate a function as a list -/
def ofFn (n : Nat) (f : Nat → K) : List K := (List.range n).map f

/-- read a list as a total function -/
def fnOf (l : List K) : Nat → K := fun i => l.getD i 0

structure State (K : Type) where
  x : List K
  y : List K
  rx : List K
  ry : List K
  ox : List K
  oy : List K
  callerX : List K      -- the arrays handed in by the caller (never written by any step)
  callerY : List K
  deriving Repr

/-- an action of the *environment*, not of the library: the caller edits, in place, the working arrays that
`get()` handed out (`gx, gy = wv.get(); gx += d`).  The Weaver holds the very same objects, so its working
series changes and nothing else does. -/
def State.poke {K : Type} [Add K] (s : State K) (dx dy : K) : State K :=
  { s with x := s.x.map (· + dx), y := s.y.map (· + dy) }

/-- outcome of a step: the state afterwards and the error raised, if any -/
structure StepResult (K : Type) where
  state : State K
  err : Option Err

def ok (s : State K) : StepResult K := ⟨s, none⟩
def fail (s : State K) (e : Err) : StepResult K := ⟨s, some e⟩

/-- `Weaver(x, y)` (lines 64-79); `x = none` is `x=None` -/
def init (x : Option (List K)) (y : List K) : Except Err (State K) :=
  match x with
  | some x =>
    if x.length ≠ y.length then .error .valueError
    else .ok { x := x, y := y, rx := x, ry := y, ox := x, oy := y, callerX := x, callerY := y }
  | none =>
    let x := ofFn y.length (fun i => ((i : Nat) : K))
    .ok { x := x, y := y, rx := x, ry := y, ox := x, oy := y, callerX := [], callerY := y }

/-- `Weaver.from_2d_array(xy)` for a list of rows -/
def from2d (rows : List (List K)) : Except Err (State K) :=
  if rows.all (fun r => r.length = 2) then
    init (some (rows.map (fun r => r.getD 0 0))) (rows.map (fun r => r.getD 1 0))
  else .error .valueError

/-! ### series-level operations (the pure transformation each method applies) -/

def appendOne (x y : List K) (periodic : Bool) : Except Err (List K × List K) :=
  if x.length < 2 ∨ y.isEmpty then .error .indexError
  else .ok (ofFn (x.length + 1) (appendOneX (fnOf x) x.length),
            ofFn (y.length + 1) (appendOneY (fnOf y) y.length periodic))

def repeatS (x y : List K) (r : Nat) : List K × List K :=
  (ofFn (Process.repeatLen x.length r) (Process.repeatX (fnOf x) x.length),
   ofFn (Process.repeatLen y.length r) (Process.repeatY (fnOf y) y.length))

def truncateS (x y : List K) (l r : K) (lr rr : Bool) : Except Err (List K × List K) := do
  let (a, b) ← Process.truncateBounds x l r lr rr
  pure ((x.drop a).take (b - a), (y.drop a).take (b - a))

def normalizeS (a : List K) (lo hi : K) : List K :=
  ofFn a.length (Process.normalize (fnOf a) a.length lo hi)

/-- `a[start:stop]` for `0 ≤ start` (a negative `stop` counts from the end, as in Python) -/
def pySlice (a : List K) (start stop : Int) : List K :=
  let len : Int := a.length
  let b : Int := if stop < 0 then (if len + stop < 0 then 0 else len + stop) else (if stop > len then len else stop)
  (a.drop start.toNat).take (b.toNat - start.toNat)

/-- `a[start:stop:step]` for `0 ≤ start`, `step ≥ 1` -/
def sliceStep (a : List K) (start stop step : Nat) : List K :=
  ((List.range ((stop - start + step - 1) / step)).map (fun k => start + k * step)).filterMap
    (fun i => if i < stop then a[i]? else none)

/-! ### operations -/

inductive Op (K : Type)
  | appendOne (periodic : Bool)
  | shiftX (s : K) | shiftY (s : K) | scaleX (c : K) | scaleY (c : K)
  | normX (lo hi : K) | normY (lo hi : K)
  | repeat (r : Nat)
  | truncV (l r : K) (lr rr : Bool)
  | truncI (start : Int) (stop : Option Int)
  /-- recreate with windows given (`strategy` as in `Rfa.Strategy.ofString?`) -/
  | recreate (strategy : String) (pw : K → K) (n : Int) (aL aR bL bR : List Nat)
  /-- recreate with an external sampling function (cubic spline / user function): values given -/
  | recreateExt (n : Int) (ys : List K)
  | integralMatch (pw : K → K) (fpx : Option (List K)) (fpi : Option (List Nat))
      (strategy target refRule : String)
  /-- `interpolate(n=…)` / `interpolate(new_x=…)`; `ext` = what SciPy returns for cubic/spline -/
  | interpN (n : Nat) (method : String) (ext : List K)
  | interpX (newX : List K) (method : String) (ext : List K)
  | smooth (ext : List K)
  | trendPoly (coeffs : List K) (normalized : Bool)
  | noise (draw : List K)
  | restore

def polyEval (cs : List K) (t : K) : K := cs.foldr (fun c acc => c + t * acc) 0

/-- one public method call, in the code's assignment order -/
def step (s : State K) : Op K → StepResult K
  | .appendOne p =>
    -- self.x, self.y = …; self.reference_x, self.reference_y = …   (lines 273-275)
    match appendOne s.x s.y p with
    | .error e => fail s e
    | .ok (x, y) =>
      let s1 := { s with x := x, y := y }
      match appendOne s.rx s.ry p with
      | .error e => fail s1 e
      | .ok (rx, ry) => ok { s1 with rx := rx, ry := ry }
  | .shiftX d => ok { s with x := s.x.map (· + d), rx := s.rx.map (· + d) }
  | .shiftY d => ok { s with y := s.y.map (· + d), ry := s.ry.map (· + d) }
  | .scaleX c => ok { s with x := s.x.map (· * c), rx := s.rx.map (· * c) }
  | .scaleY c => ok { s with y := s.y.map (· * c), ry := s.ry.map (· * c) }
  | .normX lo hi =>
    ok { s with x := normalizeS s.x lo hi, ox := normalizeS s.ox lo hi, rx := normalizeS s.rx lo hi }
  | .normY lo hi =>
    ok { s with y := normalizeS s.y lo hi, oy := normalizeS s.oy lo hi, ry := normalizeS s.ry lo hi }
  | .repeat r =>
    let (x, y) := repeatS s.x s.y r
    let (rx, ry) := repeatS s.rx s.ry r
    ok { s with x := x, y := y, rx := rx, ry := ry }
  | .truncV l r lr rr =>
    -- both truncations are computed before anything is assigned (lines 943-949)
    match truncateS s.x s.y l r lr rr with
    | .error e => fail s e
    | .ok (x, y) =>
      match truncateS s.rx s.ry l r lr rr with
      | .error e => fail s e
      | .ok (rx, ry) => ok { s with x := x, y := y, rx := rx, ry := ry }
  | .truncI start stop =>
    let stop := stop.getD s.x.length
    if start < 0 then fail s .valueError
    else if stop > s.x.length then fail s .valueError
    else
      ok { s with x := pySlice s.x start stop, y := pySlice s.y start stop,
                  rx := pySlice s.rx start stop, ry := pySlice s.ry start stop }
  | .recreate strategy pw n aL aR bL bR =>
    if n < 2 then fail s .valueError else
    match Rfa.Strategy.ofString? strategy with
    | none => fail s .typeError
    | some st =>
      let m := s.x.length
      let w : Rfa.Windows := { aL := fun k => aL.getD k 0, aR := fun k => aR.getD k 0,
                               bL := fun k => bL.getD k 0, bR := fun k => bR.getD k 0 }
      match Rfa.run st pw (fnOf s.x) (fnOf s.y) m n.toNat w with
      | .error e => fail s e
      | .ok (fx, fy) =>
        ok { s with x := ofFn (Rfa.outLen m n.toNat) fx, y := ofFn (Rfa.outLen m n.toNat) fy }
  | .recreateExt n ys =>
    if n < 2 then fail s .valueError else
    let m := s.x.length
    ok { s with x := ofFn (Rfa.outLen m n.toNat) (Rfa.outX (fnOf s.x) m n.toNat), y := ys }
  | .integralMatch pw fpx fpi strategy target refRule =>
    match matchRef pw s.x s.y s.rx s.ry fpx fpi strategy target refRule with
    | .error e => fail s e
    | .ok none => fail s .zeroDivision       -- undefined in the model (zero denominator)
    | .ok (some y) => ok { s with y := y }
  | .interpN n method ext =>
    let a := s.x.headD 0
    let b := s.x.getLastD 0
    let newX := ofFn n (Process.linspaceAt a b n)
    match Process.interpolate s.x s.y newX method ext with
    | .error e => fail s e
    | .ok y => ok { s with y := y, x := newX }
  | .interpX newX method ext =>
    if newX.headD 0 ≠ s.x.headD 0 ∨ newX.getLastD 0 ≠ s.x.getLastD 0 then fail s .valueError
    else
      match Process.interpolate s.x s.y newX method ext with
      | .error e => fail s e
      | .ok y => ok { s with y := y, x := newX }
  | .smooth ext => ok { s with y := ext }
  | .trendPoly cs nz =>
    ok { s with y := ofFn s.y.length (Process.trendY (polyEval cs) nz (fnOf s.x) (fnOf s.y) s.x.length) }
  | .noise draw => ok { s with y := ofFn s.y.length (Process.noiseAdd (fnOf s.y) (fnOf draw)) }
  | .restore => ok { s with x := s.ox, y := s.oy, rx := s.ox, ry := s.oy }

/-- run a program; stops at the first error (returning the state the failing step left) -/
def runOps (s : State K) : List (Op K) → StepResult K
  | [] => ok s
  | op :: ops =>
    let r := step s op
    match r.err with
    | some _ => r
    | none => runOps r.state ops

/-! ### read-only queries -/

/-- `slice_by_index(start, stop, step)` (lines 309-315), `step ≥ 1` -/
def sliceByIndex (s : State K) (start : Int) (stop : Option Int) (step : Nat) :
    Except Err (List K × List K) :=
  let stop := stop.getD s.x.length
  if start < 0 then .error .valueError
  else if stop > s.x.length then .error .valueError
  else if step = 0 then .error .valueError
  else
    let len : Int := s.x.length
    let b : Int := if stop < 0 then (if len + stop < 0 then 0 else len + stop) else stop
    .ok (sliceStep s.x start.toNat b.toNat step, sliceStep s.y start.toNat b.toNat step)

/-- `slice_by_value(start, stop, step)` (lines 348-362) -/
def sliceByValue (s : State K) (start stop : Option K) (step : Nat) :
    Except Err (List K × List K) := do
  let a ← match start with
    | none => pure 0
    | some v => match s.x.findIdx? (· = v) with
      | some i => pure i
      | none => throw Err.valueError
  let b ← match stop with
    | none => pure s.x.length
    | some v => match s.x.findIdx? (· = v) with
      | some i => pure (i + 1)
      | none => throw Err.valueError
  sliceByIndex s (a : Nat) (some ((b : Nat) : Int)) step

end Weaver
end TWV
