import TWV.Model.NpPrims
import TWV.Model.Match

/-!
# TWV.Model.MatchVocab — extra vocabulary of translator T11 (`harness/t11_match.py`)

T11 regenerates the *control structure* of `match.py` (`_interval_integral_matching_stretch`,
`integral_matching_reference_stretch`) and `sum_over_indices` of `sorted_array_utils.py`.  What the
Python text *calls* is vocabulary:

* `MV.lslice`  — `l[lo:hi]` on a Python list / an index array, with Python's slice-bound rules
  (`Np.loB` / `Np.hiB` of `TWV/Model/NpPrims.lean`);
* `MV.zip3`    — `zip(a, b, c)`;
* `MV.integral`— `integral(x, y, method)` with the method still a *string* (`ValueError` when unknown);
  the two rules themselves are translated by T3 (`Gen.integral_trapezoid / _rectangle`);
* `MV.kernel`  — `_integral_matching_stretch(xw, yw, integral_value=I, integral_method=m, alpha=α)` for
  `x` given and `s is None`: the hand model `stretch` on the window (the arithmetic inside is
  translated by T3, `Gen.stretch_trapezoid / _rectangle`), `ValueError` for an unknown method;
* `MV.sliceSet`— `a[lo:hi] = v` (NumPy: the shapes must agree, a one-element `v` is broadcast,
  anything else is `ValueError`).

`np.unique`, `np.where(np.isin(..))[0]`, `a.take(..)`, `find_closest_element_indices_to_values` are
`uniqueK` / `uniqueN`, `whereIsin`, `takeK` (`TWV/Model/Match.lean`) and `Search.find`
(`TWV/Model/Search.lean`, itself tied by T5).

No Mathlib import; polymorphic over the core operation classes.
-/

namespace TWV
namespace MV

/-- `l[lo:hi]` for a Python list / 1-D index array (`none` = bound omitted) -/
def lslice {α : Type} (l : List α) (lo hi : Option Int) : List α :=
  (l.take (Np.hiB l.length hi)).drop (Np.loB l.length lo)

/-- `zip(a, b, c)` -/
def zip3 {α β γ : Type} (a : List α) (b : List β) (c : List γ) : List (α × β × γ) :=
  List.zip a (List.zip b c)

variable {K : Type} [Add K] [Sub K] [Mul K] [Div K] [Neg K] [Zero K] [One K] [NatCast K]
  [LT K] [LE K] [DecidableLT K] [DecidableLE K] [DecidableEq K]

/-- `integral(x, y, method)` (`sorted_array_utils.py`): `len x - 1` interval integrals -/
def integral (method : String) (x y : Vec K) : Except Err (Vec K) :=
  match Rule.ofString? method with
  | some r => .ok (Vec.ofFn (x.len - 1) (integralAt r x.get y.get))
  | none => .error .valueError

/-- `_integral_matching_stretch(xw, yw, integral_value=I, integral_method=method, alpha=α)` with the
abscissae given and `s is None`; `pw = (· ** α)` -/
def kernel (method : String) (pw : K → K) (xw yw : Vec K) (I : K) : Except Err (Vec K) :=
  match Rule.ofString? method with
  | some r => .ok (Vec.ofFn yw.len (stretch r pw (xw.len - 1) xw.get yw.get I))
  | none => .error .valueError

/-- `a[lo:hi] = v` -/
def sliceSet (a : Vec K) (lo hi : Option Int) (v : Vec K) : Except Err (Vec K) :=
  if v.len = Np.hiB a.len hi - Np.loB a.len lo then
    .ok ⟨a.len, fun i =>
      if Np.loB a.len lo ≤ i ∧ i < Np.hiB a.len hi then v.get (i - Np.loB a.len lo) else a.get i⟩
  else if v.len = 1 then
    .ok ⟨a.len, fun i =>
      if Np.loB a.len lo ≤ i ∧ i < Np.hiB a.len hi then v.get 0 else a.get i⟩
  else .error .valueError

/-- the hand model of the interval loop with the method still a string (what `Gen.interval_stretch` is
an alias of when T11 cannot translate the loop): the kernel, which is what rejects an unknown method, is
only reached when there is a window -/
def loopRef (pw : K → K) (x y : Vec K) (Is : List K) (F : List Nat) (method : String) : Except Err (Vec K) :=
  match Rule.ofString? method with
  | some r => .ok ⟨y.len, loop r pw x.get (windows Is F) y.get⟩
  | none => if (windows Is F).isEmpty then .ok y else .error .valueError

end MV
end TWV
