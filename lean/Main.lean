import TWV.Driver.Dispatch

partial def loop (hin : IO.FS.Stream) (hout : IO.FS.Stream) : IO Unit := do
  let line ← hin.getLine
  if line.isEmpty then return ()
  hout.putStrLn (TWV.Driver.dispatch line)
  loop hin hout

def main : IO Unit := do
  let hin ← IO.getStdin
  let hout ← IO.getStdout
  loop hin hout
  hout.flush
