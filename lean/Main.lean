import TWV.Driver.Session

partial def loop (hin : IO.FS.Stream) (hout : IO.FS.Stream) (st : TWV.Driver.DState) : IO Unit := do
  let line ← hin.getLine
  if line.isEmpty then return ()
  let (st', out) := TWV.Driver.dispatchS st line
  hout.putStrLn out
  loop hin hout st'

def main : IO Unit := do
  let hin ← IO.getStdin
  let hout ← IO.getStdout
  loop hin hout {}
  hout.flush
