#!/usr/bin/env python3
"""Regenerate /verif/MANIFEST.json from the table below (keeps it valid and current)."""
import json
from pathlib import Path

VERIF = Path(__file__).resolve().parent.parent

# property id -> (design section, what the theorems give, what is assumed)
CLAIMS = {
    "C02": ("8/C02",
            "Lean 4 theorems: search_on_grid (on the oversampled grid each of the three searches maps original abscissa k to "
            "knot k*n), fixedPoints_on_grid, recreate_match_means (for ANY recreated value vector of the right length - hence "
            "for all six strategies and any parameters - every PowLike exponent, both target rules and all three strategies: "
            "the target-rule integral of the matched series over original interval k equals y_k*(x_{k+1}-x_k), i.e. its mean "
            "is the original average), the trapezoid-reference variant, block_average_rect (rectangle target: block averages "
            "return the original abscissae exactly and every interval's average), with_appended_sample, weaver_pipeline "
            "(the same through the Weaver state machine). Built on C01, C04, C10, C17. Tie: session correspondence of the "
            "public pipeline + process.average, thorough tier on every bundled dataset.",
            "the final sample's block is not an interval (m samples, m-1 intervals): covered after append_one_sample; optional "
            "final smoothing not modelled; cubic-spline values external (the theorem does not depend on them)."),
    "C08": ("8/C08",
            "Lean 4 theorems about the Weaver state machine written in the code's assignment order: domain_history (induction "
            "over ALL histories of the ten domain operations: working = reference = the original with exactly those "
            "transformations applied, as a monadic fold of the pure series transformations; converse too), reshape_frame "
            "(recreate, match, interpolate, smooth, trend, noise never alter reference or original), original_frame, "
            "caller_untouched. The pipeline clause is C02's theorem applied to the reference delivered by domain_history. "
            "Tie: session correspondence - after EVERY step of random histories (and of every sequence of <= 3 operations over "
            "a 20-letter alphabet in the thorough tier) working, reference and original series are compared with the model.",
            "values of external routines are data; bounds that must coincide with computed samples are sent symbolically "
            "(@i). TWV.Properties.C08Commute proves the last clause: stretch / loop / matchRef commute with y -> a*y+b and "
            "x -> c*x+d (c > 0), and weaver_pipeline_commutes_y / _x: scaling and shifting before recreate + integral_match "
            "ends in the same state as doing it afterwards."),
    "C09": ("8/C09",
            "Lean 4 theorems: wf_step / wf_program (the invariant 'equal lengths, strictly increasing x, >= 2 samples' for "
            "working, reference and original series is preserved by all 19 operation kinds under their documented "
            "preconditions, hence along every valid program), caller_untouched / caller_irrelevant (no step writes or reads the "
            "caller's arrays), original_frame, restore_fresh (after restore_original every continuation behaves exactly as on "
            "a newly constructed object, incl. the queries), normX_defined (no zero denominator). Tie: session correspondence "
            "over the whole API with container types, ndim, caller snapshots; the continuation after restore is also run on a "
            "fresh object.",
            "'finite values' = definedness of the quotients in this repository's own code; values from SciPy / the scripted "
            "noise draw are data; NumPy container facts (ndarray, ndim) are observed on the real objects."),
    "C11": ("8/C11",
            "Lean 4 theorems: truncateBounds_spec (kept run = [last sample <= left or first, first sample >= right or last], "
            "via the C10 specifications), truncate_minimal (smallest contiguous covering run), truncate_covers, same cut for x "
            "and y, the reference cut with the same arguments, inverted range = ValueError; pySlice / sliceStep / truncI / "
            "sliceByIndex = Python slice semantics (negative and clamped stops); sliceByValue_spec (exactly the samples with "
            "start <= x <= stop, omitted bounds = ends, absent value = ValueError). Tie: correspondence on process.truncate "
            "and Weaver sessions with boundary-heavy bounds and all slices.",
            "step >= 1; ratio bounds are converted with each series' own span (as the code does)."),
    "C13": ("8/C13",
            "Lean 4 theorems: interpConstant_spec (value of the last sample at or before the point; first value / left to the "
            "left of the data), constant_knots, interpLinearAt_knot / _between / _clamp, linear_affine, linspace grid (n "
            "points, equal spacing, end points), interpN_grid, interpX_grid_mismatch, interpolate_unknown_method. Tie: "
            "correspondence for all four methods (for cubic / spline the harness evaluates SciPy with the forwarded arguments "
            "and hands the values to the model).",
            "partial: the knot / affine clauses of 'cubic' and 'spline' are SciPy's (assumed; checked on the real code only); "
            "np.interp is modelled as clamped piecewise-linear interpolation."),
    "C15": ("8/C15",
            "Lean 4 theorems: noise_additive, noise_step_frame (x, length, reference, original untouched), noise_scale_sq "
            "(std_i^2 * SNR_i = mean(y^2), per sample), over the reals noise_scale_real_db / _lin (std = sqrt(mean(y^2) / "
            "10^(snr/10))), noise_deterministic. Tie: numpy.random.normal replaced by a recorder returning a scripted draw: "
            "loc, size, scale^2 and the exact sum are compared with the model.",
            "partial: that numpy.random.normal is zero-mean Gaussian with the requested scale, seed reproducibility and the "
            "empirical SNR are NumPy's - statistical oracle only, not proof."),
    "C16": ("8/C16",
            "Lean 4 theorems: defaultS_eq (len*var = sum of squared deviations from the mean), smooth_frame (x and every other "
            "series kept), and - under the recorded FITPACK contract as an explicit hypothesis - smooth_dev_le, "
            "smooth_zero_identity, smooth_default_uses_variance. Tie: behavioural - SciPy called by the harness with the triple "
            "(x, y, s_eff) the model says is forwarded must equal Weaver.smooth / to_function / spline_smooth.",
            "partial: everything numerical about the spline is FITPACK's (assumed contract; observed on the real code; runs "
            "with non-convergence warnings discarded)."),
    "C20": ("8/C20",
            "Lean 4 theorems: reject_untouched (for EVERY state and operation: ValueError => state unchanged; needs the "
            "imperative-order model - it failed for the original truncate_by_value), reject_untouched_any, appendOne_partial, "
            "and one reject_kinds theorem per class (length mismatch, (N,2) shape, n < 2, unknown reference / target rule, "
            "unknown strategy, unknown method, fixed points too many / not samples, inverted range, index bounds, absent slice "
            "value, grid end points). Tie: malformed stream issued after random valid histories.",
            "unknown target rule is only looked at when at least one window exists (as in the code); dataset names via C18's "
            "resolution model; other exception kinds on out-of-contract input are outside the statement."),
    "C19": ("8/C19",
            "Lean 4 theorems about a protocol model of load_csv_dataset_from_remote / _fetch_remote with any number of loader "
            "processes, arbitrary interleavings, arbitrary network answers and a kill at any step boundary: cache_inv_reachable "
            "/ entry_absent_or_complete (every cache entry is absent or the parsed verified payload of the dataset owning the "
            "slot, after EVERY finite event sequence), unverified_never_used (a payload with a different SHA-256 leads to "
            "OSError and is never returned or cached), retry_bound (<= n_retries failures absorbed, the (n_retries+1)-th is "
            "propagated with its own kind, other exceptions at once), hit_without_network, flags_table, later_load_succeeds "
            "(from every reachable world, whatever garbage crashes left), order_independent for datasets with distinct slots "
            "and shared_slot_crosses (why that hypothesis is needed). Distinct slots of the real tables: C18's kernel-decided "
            "cache_slots_nodup. Tie: trace validation of the real loader (fault scripts, forked kills at every boundary, "
            "concurrent processes) against the model.",
            "POSIX atomic rename, unique temporary directory names, process kill (no power loss / fsync reasoning), CPython "
            "closing the pickle file before os.rename, SHA-256 as the identity of payloads; real concurrency is sampled - "
            "the protocol is proved for all schedules; validate_checksum=False and negative n_retries are not modelled."),
    "C18": ("8/C18",
            "Lean 4: the dataset tables are regenerated from the loader modules of the working tree by translator T2 and the "
            "finite statements are re-decided by the kernel on every run (decide +kernel, no axioms): every documented name in "
            "each '-'/'_' spelling resolves to an exported loader, every documented remote name has its own record, remote "
            "URLs / checksums / file names / cache slots are pairwise distinct, every bundled CSV has two fields per row and a "
            "strictly increasing first column; general theorems: unknown names give ValueError, unpack returns the two "
            "columns, the data home follows TRAFFIC_WEAVER_DATA. Tie: T2 + exhaustive correspondence of load_dataset with the "
            "resolution model over all names x spellings x unpack, urlretrieve replaced by a recorder.",
            "T2 (observation of the loaders through a recording stub, string -> code-point encoding, cache-path normalisation); "
            "the pinned SHA-256 is not recomputed (fake payloads; the checksum routine is replaced by a table lookup); real "
            "downloads are never attempted; expanduser / makedirs are the OS's."),
    "C05": ("8/C05",
            "Lean 4 theorems for arbitrary strictly increasing grids, arbitrary averages and every valid window assignment "
            "(fixed: windowsFixed_valid; adaptive: windowsAdaptive_valid for every positive smoothing function): border value "
            "between the two adjacent averages (z0_between); left samples between previous and own average, right samples "
            "between own and next average, plateau samples equal to the average exactly (lin_/exp_ left_bounded, right_bounded, "
            "plateau, no_overshoot); at most a-1 samples off the plateau (count theorems); monotone movement border->plateau "
            "for the linear strategies unconditionally and for the exp strategies under pw t <= t (exponent >= 1) - the "
            "full clause is FALSE of the code for small exponents (blend_not_monotone_witness in Lean, known finding D12 on "
            "the real code); piecewise-constant exact; constant series stay constant. Shape functions tied to funfit.py by T1. "
            "Tie: three-step correspondence (parameters, windows, values).",
            "partial: monotonic clause for Exp*RFA with exponent < 1 (proved for >= 1, false < ~0.133, open in between); "
            "cubic-spline clauses are SciPy's contract, checked on the real code only; transition factor <= 1 (a <= n)."),
    "C06": ("8/C06",
            "Lean 4 theorems: closed forms and both end points of the five shape functions for EVERY exponent function, for "
            "the hand model and for the definitions regenerated from funfit.py (gen_*_closed via the T1 tie); border value of "
            "the fixed strategies = linear interpolation at the border between the plateau ends (border_fixed, lin_/"
            "exp_border_fixed); straight-line and linear+blend shapes of the transitions (left_linear, right_linear, "
            "exp_left_shape, exp_right_shape); adaptive split: un-floored shares sum to a and are in the ratio right jump : "
            "left jump, the side with the larger jump never gets the larger window, the three tie branches. Tie: T1 + "
            "correspondence on funfit.* and the window strategies.",
            "adaptive smoothing fixed at 1 (gpow = id) for the split clauses, as the property says."),
    "C04": ("8/C04",
            "Lean 4 theorems for every strategy and any windows: Rfa.run rejects exactly n < 2 with ValueError; the returned "
            "grid is the cut [n:-n] of the extended grid and equals oversample_linspace (rfa_grid_eq_oversample); both outputs "
            "have length (m-1)*n+1; every n-th abscissa IS the input abscissa (rfa_knots: an identity, no arithmetic residue); "
            "abscissae inside an interval are x_k + j*(x_{k+1}-x_k)/n, equally spaced and strictly increasing; values of the "
            "piecewise-constant strategy and the last sample. Tie: three-step correspondence (parameters, adaptive windows, "
            "values) with all six strategy classes and a user-supplied sampling function; container type / ndim / length / "
            "bit-exact knots checked on the real objects.",
            "'finite values' is definedness of every quotient in the model (no zero denominator, from C05/C07 lemmas) plus the "
            "observed finiteness; CubicSpline values are external (SciPy); int(alpha*n) is compared on dyadic alpha only."),
    "C07": ("8/C07",
            "Lean 4 theorems: rfa_affine_y (all strategies, given windows) and adaptiveAt_affine_y / rfa_affine_y_adaptive "
            "(windows recomputed, a != 0); rfa_affine_x (+ grid maps affinely, windows never read x), for c != 0; rfa_local / "
            "rfa_local_adaptive / rfa_local_single (footprint 1 resp. 2 neighbours); fixed_linear_weights (weights independent "
            "of the values, summing to one) and fixed_weights_nonneg (PowLike exponent). The shape functions used are tied to "
            "funfit.py by translator T1 (TWV.Tie.Funfit, re-proved on every run). Tie: metamorphic correspondence - both runs "
            "of every pair are compared with the model and the relations are checked on the real outputs.",
            "the cubic spline's equivariance is SciPy's (checked on the real code only); adaptive strategies are exercised "
            "with exactly representable maps, as the property's quantifier says."),
    "C12": ("8/C12",
            "Lean 4 theorems about the model of process.repeat written as the code computes it (offset read from the already "
            "shifted previous copy): closed form X(c*n+t) = x_t + c*P with P = span + last step, values tiled, length n*r, first "
            "copy identical to the input, original spacing inside every copy and the last step across junctions, strict "
            "monotonicity, repeat 1 = identity, repeat a then b = repeat a*b. Tie: correspondence with process.repeat and "
            "Weaver.repeat (working and reference).",
            "series of >= 2 points (for one point the code wraps a negative index; not modelled); exact arithmetic."),
    "C14": ("8/C14",
            "Lean 4 theorems for an arbitrary callable f: trend adds f(x_i) resp. f(x_i/(x_last-x_first)) pointwise, zero trend "
            "is the identity, trends add up, linear trend; shift/scale keep strict monotonicity; normalise is an increasing "
            "affine map sending min to min_val and max to max_val (non-constant data), preserves order and ratios of "
            "differences, keeps a strictly increasing array strictly increasing. Tie: correspondence with process.trend / "
            "linear_trend / normalize and the Weaver methods, the callable instrumented to record its arguments.",
            "the callable is a parameter (polynomial family computed by the model, sinusoids by the oracle only); "
            "normalisation of constant data divides by zero (excluded by hypothesis, reported as nan by the model)."),
    "C17": ("8/C17",
            "Lean 4 theorems, one per contract clause: oversample_linspace / piecewise_constant (knots are input elements, "
            "linear / left-value fill, lengths, n < 2 unchanged, strict monotonicity), extend_linspace / extend_constant in "
            "three directions with default mirror points or explicit end values, append_one_sample, IntervalArray get/set "
            "(flat index i*n+j incl. the negative second index), to_2d_array with padding, closed intervals, "
            "nr_of_full_intervals, block averaging = mean of the present entries + first abscissa, and the average-of-"
            "oversampling round trip; integral rules and sum_over_indices. Tie: correspondence on every helper.",
            "sizes for which Python raises IndexError (extension longer than the array with default end points) are compared "
            "as error kinds only; NaN padding is a tag."),
    "C01": ("8/C01",
            "Lean 4 theorems over any ordered field and any PowLike exponent function (instantiated for every real alpha > 0): "
            "the stretching kernel hits its target integral for both rules (stretch_integral), the interval loop leaves every "
            "window with its target although windows share end samples (loop_integrals), the array-level loop the driver runs "
            "computes that loop (loopA_eq_loop), and matchRef_intervals / matchRef_total: for all three ways of designating "
            "fixed points, the target-rule integral of the result between consecutive fixed samples equals the reference-rule "
            "integral over the corresponding reference interval. Tie: differential correspondence of the native model with "
            "integral_matching_reference_stretch (values, error kinds) on structured random cases.",
            "exact field arithmetic instead of IEEE doubles (values compared with 1e-9 relative tolerance on dyadic-lattice "
            "inputs); np.unique/isin/take/where modelled concretely; negative (wrapping) fixed-point indices and the optional "
            "final spline smoothing are not modelled."),
    "C03": ("8/C03",
            "Lean 4 theorems: displacement = yhat * weight with weight = 1 - pw(2|x-c|/width) (stretch_profile), weights vanish "
            "at the window ends, are positive inside, symmetric, antitone in the distance from the centre and 1 at the centre; "
            "all displacements of a window have one sign and are proportional to the weights; samples outside the fixed span "
            "and the fixed points themselves are returned unchanged (matchRef_outside_fixed); matching is idempotent "
            "(matchRef_idempotent); the kernel is linear, hence affine, in (y, target). Tie: correspondence on the matching "
            "function (incl. a second pass) and on the kernel alone (displacement vectors, affine law).",
            "as C01; 'unchanged' is exact in the model and compared with 1e-9 tolerance on the implementation (end weights are "
            "computed in floating point)."),
    "C10": ("8/C10",
            "Lean 4 theorems: each of the three two-pointer scans, modelled as the loops the code runs, returns for every "
            "strictly increasing array and every non-decreasing query list exactly the specified neighbour index "
            "(largest <=, smallest >=, nearest with ties to the lower index; first/last index or -1/len outside the range). "
            "Tie: exact differential correspondence of the native model driver with the real functions on an exhaustive "
            "lattice plus float arrays with +-1ulp queries.",
            "Lean kernel + Mathlib, axioms propext/Classical.choice/Quot.sound; float comparisons are exact so no rounding "
            "assumption is needed for lower/higher; for closest the rounded subtraction of the code is modelled exactly "
            "(mid-point queries at 1ulp distance are not generated)."),
}

TECHNIQUE = ("Lean 4 machine-checked proof over a model of the code; tie = translators (funfit.py, dataset tables, vector "
             "arithmetic, the loops of the window strategies, the two-pointer scans, the effect order of the Weaver methods, the protocol of the dataset loader, the array helpers, the content of the Weaver methods, the process functions, the control flow of the matching, the parameter handling of the recreate strategies, the interval view, the accessors / factories / value slicing of the Weaver, the smoothing glue and the sampling-function plumbing regenerated into Lean and proved equal to the model) + "
             "differential correspondence of the native model driver with /repo on generated inputs, memory layouts, "
             "object histories, thread schedules and interpreter settings")

NOT_YET = {
}

ALL = [f"C{n:02d}" for n in range(1, 21)]

# properties whose theorems, tie and check are complete enough to be claimed
BUILT = ["C01", "C02", "C03", "C04", "C05", "C06", "C07", "C08", "C09", "C11", "C13", "C15", "C16", "C20", "C10", "C12", "C14", "C17", "C18", "C19"]



def main():
    checks = []
    for pid in ALL:
        if pid not in CLAIMS or pid not in BUILT:
            continue
        ref, text, note = CLAIMS[pid]
        if pid in ("C04", "C07", "C12", "C17"):
            text += (" The array helpers (oversample_linspace / _piecewise_constant, extend_linspace / _constant, "
                     "append_one_sample, process.repeat) are regenerated from their NumPy text by translator T8 into a "
                     "vocabulary of NumPy primitives and proved equal to the model for all inputs on every run "
                     "(TWV.Tie.ArrayHelpers).")
        if pid in ("C18", "C19"):
            text += (" The loader's protocol (cache test, staging directory inside the cache folder, bounded retry, checksum "
                     "before parsing, writes only under the staging directory, one final rename into the slot) is regenerated "
                     "from _base.py's AST as a table of events by translator T7 and the facts are decided on it on every run "
                     "(TWV.Tie.LoaderProtocol).")
        if pid in ("C08", "C09", "C20"):
            text += (" The order of effects inside every Weaver method (assignments, calls, raises, warnings, asserts) is "
                     "regenerated from weaver.py's AST by translator T6 and compared with the expected table by `decide` on "
                     "every run (TWV.Tie.WeaverEffects: validation precedes assignment, nothing interrupts between the "
                     "assignments, no state update inside an assert).")
        if pid in ("C01", "C10", "C11"):
            text += (" The three two-pointer scans and their dispatcher are regenerated from sorted_array_utils.py's AST as "
                     "small-step state machines by translator T5 and proved equal to the model for all lists on every run "
                     "(TWV.Tie.Search).")
        if pid in ("C04", "C05", "C06", "C07"):
            text += (" The loops of the four window strategies are also modelled as loops (TWV.Model.RfaImp: the array z "
                     "overwritten in program order), proved equal to the closed form the theorems are about "
                     "(TWV.Properties.RfaImp), regenerated from rfa.py's AST by translator T4 and proved equal to that model on "
                     "every run (TWV.Tie.RfaLoops); the driver answers every case with both models.")
        if pid in ("C01", "C02", "C03", "C08", "C09", "C11", "C12", "C13", "C14", "C15", "C16", "C20"):
            text += (" What every state-changing Weaver method computes and stores (which library function on which "
                     "attributes, in which order, with which arguments; the state left behind by a failing call) is "
                     "regenerated from weaver.py's AST by translator T9 and proved equal to the state machine Weaver.step of "
                     "the model for all states and arguments on every run (TWV.Tie.WeaverStep).")
        if pid in ("C11", "C13", "C14", "C15", "C17", "C20"):
            text += (" process.truncate, trend / linear_trend, _piecewise_constant_interpolate, the interpolate dispatcher, "
                     "the noise formula of noise_gauss and average are regenerated from process.py's AST by translator T10 "
                     "and proved equal to the model for all inputs on every run (TWV.Tie.ProcessFns).")
        if pid in ("C01", "C02", "C03", "C20"):
            text += (" sum_over_indices, the interval loop of match.py (closed windows sharing their end samples, kernel "
                     "call bound against its signature) and the four ways of designating fixed points, with the errors "
                     "raised, are regenerated by translator T11 and proved equal to loop / fixedPoints / matchRef for all "
                     "inputs on every run (TWV.Tie.MatchFlow).")
        if pid in ("C04", "C05", "C06", "C07", "C20"):
            text += (" The constructors of the window strategies (a from alpha or given, int(), the clamp, a_l, a_r, b), "
                     "get_adaptive_transition_points and the frames of PiecewiseConstantRFA / FunctionRFA are regenerated "
                     "from rfa.py's AST by translator T12 and proved equal to deriveA / deriveB / windowsFixed / adaptiveAt "
                     "/ windowsAdaptive for all parameters on every run (TWV.Tie.RfaParams).")
        if pid in ("C17",):
            text += (" class IntervalArray (item access with Python's negative-index rules, the NaN-padded and the closed "
                     "row layouts, nr_of_full_intervals, the delegations to the array helpers) is regenerated from "
                     "interval.py's AST by translator T13 and proved equal to the model for all arrays on every run "
                     "(TWV.Tie.IntervalArray).")
        if pid in ("C09", "C11", "C16", "C20"):
            text += (" The remaining Weaver methods - slice_by_value (np.where(self.x == v)[0], the two refusals, the "
                     "delegation to slice_by_index), from_2d_array (the shape test, the two columns), from_csv (delimiter and "
                     "dtype handed to loadtxt), to_2d_array, get / get_original / get_reference, __len__ and to_function - are "
                     "regenerated from weaver.py's AST by translator T14 and proved equal to Weaver.sliceByValue / from2dArr / "
                     "to2dArray / get / toFunction for all states and arguments on every run (TWV.Tie.WeaverIO).")
        if pid in ("C16", "C01", "C04"):
            text += (" process.spline_smooth (the default smoothing condition len(y) * std(y)**2, the condition handed to "
                     "splrep unchanged), the optional final smoothing at the end of the three matching functions (none when s "
                     "is None; otherwise fitted on and evaluated at the working abscissae) and the sampling-function plumbing "
                     "of FunctionRFA / CubicSplineRFA (constructors, _get_sampling_function, the default supplier) are "
                     "regenerated from process.py / match.py / rfa.py by translator T15 and proved equal to the model for all "
                     "inputs on every run (TWV.Tie.SmoothGlue).")
        checks.append({
            "property_id": pid,
            "quick_cmd": f"./check {pid} --tier quick",
            "thorough_cmd": f"./check {pid} --tier thorough",
            "evidence_file": f"evidence/{pid}.json",
            "replay_cmd_template": f"./check {pid} --replay {{path}}",
            "engine": "twv-lean",
            "level_claimed": {"category": "proof", "text": text, "design_ref": ref},
            "level_note": note,
            "technique": TECHNIQUE,
        })
    na = [{"property_id": pid,
           "reason": NOT_YET.get(pid, "machinery for this property is not built yet (see DESIGN.md section 8 for the plan); "
                                      "not a limit of the technique")}
          for pid in ALL if pid not in CLAIMS or pid not in BUILT]
    m = {
        "version": 1,
        "setup_cmd": "./setup.sh",
        "hooks": {
            "guard": "TRAFFIC_WEAVER_VERIF",
            "enable": "no source hooks are needed: the harness observes the real code in-process and replaces module "
                      "attributes (urlretrieve, numpy.random.normal, ...) from the outside",
            "baseline_off_cmd": "cd /repo && /venv/bin/python -m pytest -ra -q -p no:cacheprovider --timeout=900 "
                                "--continue-on-collection-errors",
            "source_commits": [],
            "add_only": True,
        },
        "engines": [{
            "name": "twv-lean",
            "path": "lean/",
            "serves_properties": [c["property_id"] for c in checks],
            "kind_free_text": "Lean 4 model (lean/TWV/Model, Mathlib-free, compiled to the native driver "
                              "lean/.lake/build/bin/twvdriver), theorems (lean/TWV/Properties), Python correspondence "
                              "harness (harness/) driving the model and /repo on the same inputs",
        }],
        "checks": checks,
        "not_applicable": na,
        "notes": "See DESIGN.md. known_findings.json lists recorded findings and fixed defects.",
    }
    (VERIF / "MANIFEST.json").write_text(json.dumps(m, indent=1) + "\n")
    print(f"MANIFEST.json: {len(checks)} checks, {len(na)} not claimed")


if __name__ == "__main__":
    main()
