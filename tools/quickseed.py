#!/usr/bin/env python3
"""Developer helper: apply a stored seeded change, run tools/trymod.py for some checks (no build / audit), revert.
usage: tools/quickseed.py <seed-name> <ID>[,<ID>...] [tier]"""
import subprocess
import sys
name, ids = sys.argv[1], sys.argv[2].split(",")
tier = sys.argv[3] if len(sys.argv) > 3 else "quick"
assert subprocess.run("git -C /repo status --porcelain", shell=True, capture_output=True, text=True).stdout.strip() == ""
assert subprocess.run(f"git -C /repo apply /verif/seeded/{name}/patch.diff", shell=True).returncode == 0
try:
    for i in ids:
        p = subprocess.run(f"/venv/bin/python /verif/tools/trymod.py {i} {tier} -v 2>&1 | grep 'cases;\\|^DIS\\|^FAIL' | cut -c1-300 | head -4",
                           shell=True, capture_output=True, text=True)
        print(f"--- {name} / {i}\n{p.stdout}")
finally:
    subprocess.run("git -C /repo checkout -- .", shell=True)
