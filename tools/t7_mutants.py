#!/usr/bin/env python3
"""Experiments for T7 (harness/t7_loader.py): edited copies of the HEAD text of datasets/_base.py are translated
and the tie is rebuilt.  Never touches /repo's working tree (the stored seeded patches are applied with
`patch -o` to a copy under /tmp).

  python3 tools/t7_mutants.py                 all experiments, then HEAD again (table on stdout)
  python3 tools/t7_mutants.py S03 H02 P1      only these
  python3 tools/t7_mutants.py --list
  -v   print the build output of failing runs        --diff   print the changed table entries (short form)
"""
import re
import subprocess
import sys
import tempfile
import time
from pathlib import Path

VERIF = Path(__file__).resolve().parent.parent
sys.path.insert(0, str(VERIF))
from harness import t7_loader as t7  # noqa: E402

LEAN = VERIF / "lean"
TIE = LEAN / "TWV" / "Tie" / "LoaderProtocol.lean"
SEEDED = VERIF / "seeded"


def head_text():
    return subprocess.run(["git", "-C", "/repo", "show", "HEAD:src/traffic_weaver/datasets/_base.py"],
                          capture_output=True, text=True, check=True).stdout


def edit(*pairs):
    """replace old by new (each old must occur exactly once)"""
    def f(text):
        for old, new in pairs:
            assert text.count(old) == 1, (text.count(old), old)
            text = text.replace(old, new)
        return text
    return f


def patched(seed):
    def f(text):
        with tempfile.TemporaryDirectory() as d:
            src = Path(d) / "_base.py"
            out = Path(d) / "out.py"
            src.write_text(text)
            p = subprocess.run(["patch", "-s", "-o", str(out), str(src), str(SEEDED / seed / "patch.diff")],
                               capture_output=True, text=True)
            assert p.returncode == 0, p.stdout + p.stderr
            return out.read_text()
    return f


DUMP = '            pickle.dump(dataset, open(dataset_tmp_file_path, "wb"))\n'
RENAME = '            os.rename(dataset_tmp_file_path, dataset_file_path)\n'
TMPJOIN = '            dataset_tmp_file_path = path.join(tmp_dir, dataset_filename)\n'
WITHTMP = '        with TemporaryDirectory(dir=dataset_dir) as tmp_dir:\n'
FETCH = ('            archive_path = _fetch_remote(remote, dirname=tmp_dir, n_retries=n_retries, delay=delay,\n'
         '                                         validate_checksum=validate_checksum)\n')
PARSE = ("            if gzip:\n"
         "                dataset = np.loadtxt(GzipFile(filename=archive_path), delimiter=',', dtype=np.float64)\n"
         "            else:\n"
         "                dataset = np.loadtxt(archive_path, delimiter=',', dtype=np.float64)\n")
EXCEPT = '        except (URLError, TimeoutError):\n'
AVAILABLE = '    available = path.exists(dataset_file_path)\n'
MAKEDIRS = '        os.makedirs(dataset_dir, exist_ok=True)\n'
DIRS = ('    dataset_dir = path.join(data_home, dataset_folder)\n'
        '    dataset_file_path = path.join(dataset_dir, dataset_filename)\n')
LOADCACHE = '        dataset = pickle.load(open(dataset_file_path, "rb"))\n'

# the download branch with the hit test after the download (S07)
LATE_HIT_OLD_HEAD = AVAILABLE + '\n    dataset = None\n'
LATE_HIT = '''    dataset = None
    os.makedirs(dataset_dir, exist_ok=True)
    with TemporaryDirectory(dir=dataset_dir) as tmp_dir:
        archive_path = _fetch_remote(remote, dirname=tmp_dir, n_retries=n_retries, delay=delay,
                                     validate_checksum=validate_checksum)
        available = path.exists(dataset_file_path)
        if (download_if_missing and not available) or (download_if_missing and download_even_if_available and available):
            if gzip:
                dataset = np.loadtxt(GzipFile(filename=archive_path), delimiter=',', dtype=np.float64)
            else:
                dataset = np.loadtxt(archive_path, delimiter=',', dtype=np.float64)
            dataset_tmp_file_path = path.join(tmp_dir, dataset_filename)
            pickle.dump(dataset, open(dataset_tmp_file_path, "wb"))
            os.rename(dataset_tmp_file_path, dataset_file_path)
    if not available and not download_if_missing:
        raise OSError("Data not found and `download_if_missing` is False")
'''


def late_hit(text):
    a = text.index(AVAILABLE)
    b = text.index("    if dataset is None:\n")
    return text[:a] + LATE_HIT + text[b:]


FIXED_STAGE = '''        tmp_dir = path.join(dataset_dir, dataset_filename + ".part")
        os.makedirs(tmp_dir, exist_ok=True)
        try:
'''


def fixed_stage(text):
    """stage in <cache folder>/<entry>.part instead of a fresh temporary directory"""
    a = text.index(WITHTMP)
    b = text.index("    elif not available and not download_if_missing:\n")
    body = text[a + len(WITHTMP):b]
    body = "".join("    " + ln + "\n" if ln else "\n" for ln in body.split("\n")[:-1])
    return text[:a] + FIXED_STAGE + body + "        finally:\n            shutil.rmtree(tmp_dir, ignore_errors=True)\n" + text[b:]


def indent(block, n):
    return "".join((" " * n + ln + "\n") if ln else "\n" for ln in block.split("\n")[:-1])


def bare_except(text):
    a = text.index(EXCEPT)
    b = text.index("            time.sleep(delay)\n")
    return text[:a] + "        except:  # noqa\n" + text[b:]


EXPERIMENTS = [
    # ---- semantic edits: each must fail the tie or be UNSUPPORTED -------------------------------------------
    ("S01", "sem", "pickle written directly into the cache slot (no temporary file, no rename)",
     edit((TMPJOIN + DUMP + RENAME, '            pickle.dump(dataset, open(dataset_file_path, "wb"))\n'))),
    ("S02", "sem", "`os.rename` inside the `with open(tmp, 'wb')` block (before the pickle is closed)",
     edit((DUMP + RENAME, '            with open(dataset_tmp_file_path, "wb") as f:\n'
                          '                pickle.dump(dataset, f)\n'
                          '                os.rename(dataset_tmp_file_path, dataset_file_path)\n'))),
    ("S03", "sem", "staging in the fixed directory `<cache folder>/<entry>.part` (makedirs + try/finally rmtree)",
     fixed_stage),
    ("S04", "sem", "staging in the system temp directory: `TemporaryDirectory()` without `dir=`",
     edit((WITHTMP, '        with TemporaryDirectory() as tmp_dir:\n'))),
    ("S05", "sem", "checksum verified AFTER the parse (`_fetch_remote(.., validate_checksum=False)`, `_sha256` after `loadtxt`)",
     edit((FETCH + PARSE,
           '            archive_path = _fetch_remote(remote, dirname=tmp_dir, n_retries=n_retries, delay=delay,\n'
           '                                         validate_checksum=False)\n' + PARSE +
           '            if validate_checksum and _sha256(archive_path) != remote.checksum:\n'
           '                raise OSError("checksum mismatch")\n'))),
    ("S06", "sem", "checksum skipped after a retry (`validate_checksum = False` in the retry handler)",
     edit(('            n_retries -= 1\n', '            n_retries -= 1\n            validate_checksum = False\n'))),
    ("S07", "sem", "the cache-hit test `path.exists(entry)` moved after the download", late_hit),
    ("S08", "sem", "the parse under `warnings.catch_warnings()` + `simplefilter('error')`",
     edit((PARSE, '            with warnings.catch_warnings():\n'
                  '                warnings.simplefilter("error")\n'
                  + "".join("    " + ln + "\n" for ln in PARSE.split("\n")[:-1])))),
    ("S09", "sem", "the retry loop catches `Exception`", edit((EXCEPT, '        except Exception:\n'))),
    ("S10", "sem", "`os.makedirs(dataset_dir)` without `exist_ok=True`",
     edit((MAKEDIRS, '        os.makedirs(dataset_dir)\n'))),
    ("S11", "sem", "the retry counter is never decremented (`n_retries -= 1` dropped): unbounded retries",
     edit(('            n_retries -= 1\n', ''))),
    ("S12", "sem", "`shutil.move` instead of `os.rename`",
     edit((RENAME, '            shutil.move(dataset_tmp_file_path, dataset_file_path)\n'))),
    ("S13", "sem", "the archive downloaded straight into the cache folder (`dirname=dataset_dir`)",
     edit(('_fetch_remote(remote, dirname=tmp_dir,', '_fetch_remote(remote, dirname=dataset_dir,'))),
    ("S14", "sem", "the retry handler widened to `(URLError, TimeoutError, OSError)`",
     edit((EXCEPT, '        except (URLError, TimeoutError, OSError):\n'))),
    ("S15", "sem", "the temporary directory made in the data home (`dir=data_home`), not in the cache folder",
     edit((WITHTMP, '        with TemporaryDirectory(dir=data_home) as tmp_dir:\n'))),
    ("S16", "sem", "get_data_home: `makedirs(data_home)` without `exist_ok=True`",
     edit(('    makedirs(data_home, exist_ok=True)\n', '    makedirs(data_home)\n'))),
    ("S17", "sem", "a bare `except:` that sleeps and retries for ever (no re-raise, no counter)", bare_except),
    ("S18", "sem", "a failed load removes the cache folder (`except OSError: shutil.rmtree(dataset_dir); raise`)",
     edit((FETCH, '            try:\n' + indent(FETCH, 4) +
           '            except OSError:\n                shutil.rmtree(dataset_dir)\n                raise\n'))),
    ("S19", "sem", "module level: `os.rename = shutil.move` after the imports",
     edit(("logger = logging.getLogger(__name__)\n", "logger = logging.getLogger(__name__)\nos.rename = shutil.move\n"))),
    ("S20", "sem", "the dump + rename moved into a nested helper `def store(...)` inside the loader",
     edit((TMPJOIN + DUMP + RENAME,
           '            def store(obj):\n'
           '                tmp = path.join(tmp_dir, dataset_filename)\n'
           '                pickle.dump(obj, open(tmp, "wb"))\n'
           '                os.rename(tmp, dataset_file_path)\n'
           '            store(dataset)\n'))),
    ("S21", "sem", "the rename moved out of the temporary directory's block (after the directory is removed)",
     edit((RENAME, RENAME[4:]))),
    ("S22", "sem", "the forced re-download removes the old entry first (`os.remove(entry)` before the download)",
     edit((MAKEDIRS, MAKEDIRS + '        if available:\n            os.remove(dataset_file_path)\n'))),
    ("S23", "sem", "an IMPROVEMENT: `with open(tmp, 'wb') as f: pickle.dump(dataset, f)`, rename after the block",
     edit((DUMP, '            with open(dataset_tmp_file_path, "wb") as f:\n                pickle.dump(dataset, f)\n'))),
    ("S24", "sem", "load_dataset: the data home is created before the name check (`get_data_home()` first)",
     edit(('    import traffic_weaver.datasets._datasets\n',
           '    import traffic_weaver.datasets._datasets\n    get_data_home()\n'))),
    ("S25", "sem", "_sha256 hashes only the first chunk (`break` after the first `update`)",
     edit(("            sha256hash.update(buffer)\n", "            sha256hash.update(buffer)\n            break\n"))),
    # ---- the stored seeded patches --------------------------------------------------------------------------
    ("P1", "seed", "seeded/C18b-pickle-into-final-slot", patched("C18b-pickle-into-final-slot")),
    ("P2", "seed", "seeded/C19-rename-before-close", patched("C19-rename-before-close")),
    ("P3", "seed", "seeded/C19b-shared-staging-dir", patched("C19b-shared-staging-dir")),
    ("P4", "seed", "seeded/C19c-stage-in-system-tmp", patched("C19c-stage-in-system-tmp")),
    ("P5", "seed", "seeded/C18c-tmp-cross-device-rename", patched("C18c-tmp-cross-device-rename")),
    ("P6", "seed", "seeded/C19d-catch-warnings-error-filter-threads", patched("C19d-catch-warnings-error-filter-threads")),
    ("P7", "seed", "seeded/C19e-zlib-first-member-only", patched("C19e-zlib-first-member-only")),
    ("P8", "seed", "seeded/C18e-commonpath-vs-raw-data-home", patched("C18e-commonpath-vs-raw-data-home")),
    ("P9", "seed", "seeded/C20e-data-home-touched-before-name-check", patched("C20e-data-home-touched-before-name-check")),
    # ---- blind spots: real regressions that keep the sequence of steps and the roles --------------------------
    ("B01", "blind", "only the first row is pickled (`pickle.dump(dataset[:1], ...)`)",
     edit(("pickle.dump(dataset, open(dataset_tmp_file_path", "pickle.dump(dataset[:1], open(dataset_tmp_file_path"))),
    ("B02", "blind", "the parse uses `delimiter=';'` for the plain archive",
     edit(("dataset = np.loadtxt(archive_path, delimiter=','", "dataset = np.loadtxt(archive_path, delimiter=';'"))),
    ("B03", "blind", "the download goes to another URL (`urlretrieve(remote.url + '.bak', file_path)`)",
     edit(("urlretrieve(remote.url, file_path)", "urlretrieve(remote.url + '.bak', file_path)"))),
    ("B04", "blind", "the temporary directory gets a fixed prefix (`TemporaryDirectory(dir=dataset_dir, prefix=dataset_filename)`)",
     edit((WITHTMP, '        with TemporaryDirectory(dir=dataset_dir, prefix=dataset_filename) as tmp_dir:\n'))),
    # ---- translator robustness ------------------------------------------------------------------------------
    ("E01", "robust", "a syntax error in the text", lambda t: t.replace("def _sha256(path):", "def _sha256(path:")),
    ("E02", "robust", "`_fetch_remote` removed (the loader calls an imported name)",
     lambda t: t[:t.index("def _fetch_remote(")] + "from ._net import _fetch_remote\n\n\n" + t[t.index("def load_csv_dataset_from_remote("):]),
    ("E03", "robust", "`from os.path import *`", edit(("from os import environ, path, makedirs\n",
                                                       "from os import environ, path, makedirs\nfrom os.path import *\n"))),
    ("E04", "robust", "the loader as `async def`", edit(("def load_csv_dataset_from_remote(", "async def load_csv_dataset_from_remote("))),
    ("E05", "robust", "`rename` through a local alias (`mv = os.rename; mv(tmp, entry)`)",
     edit((RENAME, '            mv = os.rename\n            mv(dataset_tmp_file_path, dataset_file_path)\n'))),
    ("E06", "robust", "the dump through `pathlib` (`Path(tmp).write_bytes(pickle.dumps(dataset))`, `Path(tmp).rename(entry)`)",
     edit((DUMP + RENAME, '            from pathlib import Path\n'
                          '            Path(dataset_tmp_file_path).write_bytes(pickle.dumps(dataset))\n'
                          '            Path(dataset_tmp_file_path).rename(dataset_file_path)\n'))),
    # ---- harmless rewrites ----------------------------------------------------------------------------------
    ("H01", "harmless", "locals renamed (`dataset_dir`, `dataset_file_path`, `available`, `tmp_dir`, `archive_path`, `dataset`, `file_path`, `checksum`)",
     lambda t: re.sub(r"\bchecksum = ", "digest = ", re.sub(r"!= checksum:", "!= digest:", re.sub(
         r"format\(file_path, checksum,", "format(file_path, digest,",
         re.sub(r"\bdataset_dir\b", "cache_dir", re.sub(r"\bdataset_file_path\b", "entry", re.sub(
             r"\bavailable\b", "is_cached", re.sub(r"\btmp_dir\b", "staging", re.sub(
                 r"\barchive_path\b", "archive", re.sub(r"\bfile_path\b", "target", re.sub(
                     r"(?<![\w'\"`.])dataset(?= = |\[| is None|, open|$)", "data", t, flags=re.M))))))))))),
    ("H02", "harmless", "`os.path.join` / `os.path.exists` instead of the `path` alias in the loader",
     lambda t: t.replace("    dataset_dir = path.join(", "    dataset_dir = os.path.join(").replace(
         "    dataset_file_path = path.join(", "    dataset_file_path = os.path.join(").replace(
         "    available = path.exists(", "    available = os.path.exists(").replace(
         "dataset_tmp_file_path = path.join(", "dataset_tmp_file_path = os.path.join(")),
    ("H03", "harmless", "an added log line and a comment between the dump and the rename",
     edit((RENAME, '            # move the finished pickle into place\n'
                   '            logger.debug("caching %s as %s", remote.url, dataset_file_path)\n' + RENAME))),
    ("H04", "harmless", "two independent path computations exchanged (the temporary pickle's path computed before the download)",
     edit((FETCH, TMPJOIN + FETCH), (PARSE + TMPJOIN, PARSE))),
    ("H05", "harmless", "`import os.path as osp` + `from os import makedirs as mkdirs`, used in the loader / get_data_home",
     lambda t: t.replace("from os import environ, path, makedirs\n", "from os import environ, path\nfrom os import makedirs as mkdirs\nimport os.path as osp\n").replace(
         "    makedirs(data_home, exist_ok=True)", "    mkdirs(data_home, exist_ok=True)").replace(
         "    dataset_dir = path.join(", "    dataset_dir = osp.join(")),
    ("H06", "harmless", "the entry's path computed in one join: `path.join(data_home, dataset_folder, dataset_filename)`",
     edit(('    dataset_file_path = path.join(dataset_dir, dataset_filename)\n',
           '    dataset_file_path = path.join(data_home, dataset_folder, dataset_filename)\n'))),
    ("H07", "harmless", "docstring of the loader edited, blank lines added",
     edit(("    Load a dataset from a remote location in csv.gz format.\n",
           "    Load a dataset from a remote location (csv or csv.gz).\n\n"), (AVAILABLE, "\n" + AVAILABLE + "\n"))),
    ("H08", "harmless", "_fetch_remote: the target path computed by an `if` statement instead of the conditional expression",
     edit(("    file_path = remote.filename if dirname is None else path.join(dirname, remote.filename)\n",
           "    if dirname is None:\n        file_path = remote.filename\n    else:\n"
           "        file_path = path.join(dirname, remote.filename)\n"))),
    ("H09", "harmless", "`elif` written as `else: if`",
     edit(('    elif not available and not download_if_missing:\n        raise OSError("Data not found and `download_if_missing` is False")\n',
           '    else:\n        if not available and not download_if_missing:\n            raise OSError("Data not found and `download_if_missing` is False")\n'))),
    ("H10", "harmless", "the cached entry read inside `with open(entry, 'rb') as f` (as the seeded patches do)",
     edit((LOADCACHE, '        with open(dataset_file_path, "rb") as f:\n            dataset = pickle.load(f)\n'))),
    ("H11", "harmless", "the branches of `if gzip` exchanged (`if not gzip: plain else: gzip`)",
     edit((PARSE, "            if not gzip:\n"
                  "                dataset = np.loadtxt(archive_path, delimiter=',', dtype=np.float64)\n"
                  "            else:\n"
                  "                dataset = np.loadtxt(GzipFile(filename=archive_path), delimiter=',', dtype=np.float64)\n"))),
    ("H12", "harmless", "the retry delay computed first (`pause = delay` before the loop, `time.sleep(pause)`)",
     edit(("    while True:\n        try:\n            urlretrieve", "    pause = delay\n    while True:\n        try:\n            urlretrieve"),
          ("            time.sleep(delay)\n", "            time.sleep(pause)\n"))),
]


def build():
    t0 = time.time()
    for _ in range(3):
        p = subprocess.run(["lake", "build", "TWV.Tie.LoaderProtocol"], cwd=LEAN, capture_output=True, text=True)
        out = p.stdout + p.stderr
        if p.returncode == 0 or "Tie/LoaderProtocol.lean" in out or "Generated/LoaderProtocol.lean" in out:
            break
        time.sleep(5)          # a concurrent build got in the way: retry
    return p.returncode == 0, out, time.time() - t0


def failing_theorems(out):
    src = TIE.read_text().split("\n")
    names = []
    for m in re.finditer(r"error: \S*Tie/LoaderProtocol\.lean:(\d+):\d+:", out):
        ln = int(m.group(1))
        for i in range(min(ln, len(src)) - 1, -1, -1):
            mm = re.match(r"\s*(?:theorem|example)\s*(\S*)", src[i])
            if mm:
                n = mm.group(1) if mm.group(1) not in (":", "") else "example"
                if n not in names:
                    names.append(n)
                break
    if not names and "Generated/LoaderProtocol.lean" in out:
        names.append("(the generated file does not compile)")
    return names


def table_diff(head, mutated):
    """changed entries, the common beginning and end of the two event lists left out"""
    def entries(text):
        return dict(ln.split(": ", 1) if ": " in ln else (ln.rstrip(":"), "") for ln in t7.short_table(text).split("\n"))
    a, b = entries(head), entries(mutated)
    out = []
    for k in list(a) + [k for k in b if k not in a]:
        if a.get(k) == b.get(k):
            continue
        if k not in a or k not in b:
            out.append(f"    {k}: {'(absent)' if k not in a else '(removed)'}" + (f" -> {b[k]}" if k in b else ""))
            continue
        x, y = a[k].split(" · "), b[k].split(" · ")
        i = 0
        while i < min(len(x), len(y)) and x[i] == y[i]:
            i += 1
        j = 0
        while j < min(len(x), len(y)) - i and x[-1 - j] == y[-1 - j]:
            j += 1
        i = max(i - 1, 0)
        j = max(j - 1, 0)
        xs, ys = x[i:len(x) - j], y[i:len(y) - j]
        out.append(f"    {k}: … {' · '.join(xs)} …\n    {' ' * len(k)}  -> … {' · '.join(ys)} …")
    return "\n".join(out)


def run(exp, text):
    eid, kind, desc, fn = exp
    mutated = fn(text)
    assert mutated != text, f"{eid}: the edit did not change the text"
    if kind != "robust":
        compile(mutated, "_base.py", "exec")
    note = t7.regenerate(mutated)
    ok, out, secs = build()
    if note.startswith("UNSUPPORTED"):
        trans = "UNSUPPORTED (" + note[len("UNSUPPORTED "):].split(";")[0] + ")"
    else:
        trans = "translated" + (", table = HEAD" if t7.generate(mutated)[0] == t7.generate(text)[0] else "")
    if ok:
        res = "builds"
    else:
        names = failing_theorems(out)
        res = "FAILS " + ", ".join(f"`{n}`" for n in names)
    return eid, kind, desc, trans, res, secs, out, mutated


def main(argv):
    ids, verbose, diff = [], False, False
    for a in argv:
        if a == "--list":
            for e in EXPERIMENTS:
                print(e[0], e[1], e[2])
            return 0
        elif a == "-v":
            verbose = True
        elif a == "--diff":
            diff = True
        else:
            ids.append(a)
    text = head_text()
    try:
        for exp in EXPERIMENTS:
            if ids and exp[0] not in ids:
                continue
            r = run(exp, text)
            print(f"| {r[0]} | {r[2]} | {r[3]} | {r[4]} | {r[5]:.1f} s |", flush=True)
            if diff:
                print(table_diff(text, r[7]))
            if verbose and not r[4].startswith("builds"):
                print(r[6][:4000])
    finally:
        note = t7.regenerate(text)
        ok, out, secs = build()
        print(f"HEAD: {note}; build {'ok' if ok else 'FAILS'} ({secs:.1f} s)")
        if not ok:
            print(out[:4000])
    return 0 if ok else 1


if __name__ == "__main__":
    sys.exit(main(sys.argv[1:]))
