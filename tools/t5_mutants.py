#!/usr/bin/env python3
"""Experiments for T5 (harness/t5_search.py): edited copies of the HEAD text of sorted_array_utils.py
are translated and the tie is rebuilt.  Never touches /repo's working tree.

  python3 tools/t5_mutants.py                 all experiments, then HEAD again (table on stdout)
  python3 tools/t5_mutants.py M03 H02         only these
  python3 tools/t5_mutants.py --list
Options: --scratch DIR   write the generated file to DIR/Gen.lean and check DIR/Tie.lean with `lean`
                         (development; DIR relative to lean/) instead of `lake build TWV.Tie.Search`.
"""
import re
import subprocess
import sys
import time
from pathlib import Path

VERIF = Path(__file__).resolve().parent.parent
sys.path.insert(0, str(VERIF))
from harness import t5_search as t5  # noqa: E402

LEAN = VERIF / "lean"
L = "find_closest_lower_equal_element_indices_to_values"
H = "find_closest_higher_equal_element_indices_to_values"
C = "find_closest_lower_or_higher_element_indices_to_values"
D = "find_closest_element_indices_to_values"


def head_text():
    return subprocess.run(["git", "-C", "/repo", "show", "HEAD:src/traffic_weaver/sorted_array_utils.py"],
                          capture_output=True, text=True, check=True).stdout


def region(text, fn):
    a = text.index(f"def {fn}(")
    m = re.search(r"^def ", text[a + 4:], re.M)
    b = a + 4 + m.start() if m else len(text)
    return a, b


def edit(text, fn, *pairs, count=1):
    """replace old by new inside the function `fn` (the n-th occurrence if old is `(old, n)`)"""
    a, b = region(text, fn)
    body = text[a:b]
    for old, new in pairs:
        nth = 1
        if isinstance(old, tuple):
            old, nth = old
        pos = -1
        for _ in range(nth):
            pos = body.index(old, pos + 1)
        body = body[:pos] + new + body[pos + len(old):]
    return text[:a] + body + text[b:]


def rename(text, fn, mapping):
    a, b = region(text, fn)
    body = text[a:b]
    doc = body.index('"""', body.index('"""') + 3) + 3   # keep signature + docstring
    head, code = body[:doc], body[doc:]
    for old, new in mapping.items():
        code = re.sub(rf"\b{old}\b", new, code)
    return text[:a] + head + code + text[b:]


I8 = " " * 8
I12 = " " * 12

# (id, kind, description, function(text) -> text)      kind: S semantic, H harmless
EXPERIMENTS = [
    ("M01", "S", "lower 360: first loop `lookup_val < x_val` -> `<=`",
     lambda t: edit(t, L, ("lookup_val < x_val", "lookup_val <= x_val"))),
    ("M02", "S", "lower 369: inner loop `x_next_val <= lookup_val` -> `<`",
     lambda t: edit(t, L, ("x_next_val <= lookup_val", "x_next_val < lookup_val"))),
    ("M03", "S", "lower 361: fill value `-1` -> `-2`",
     lambda t: edit(t, L, ("fill_not_valid else -1", "fill_not_valid else -2"))),
    ("M04", "S", "lower 352: initial `x_idx = 0` -> `x_idx = 1`",
     lambda t: edit(t, L, ("x_idx = 0", "x_idx = 1"))),
    ("M05", "S", "lower 375: `indices[lookup_idx] = x_idx` -> `x_idx + 1`",
     lambda t: edit(t, L, ("indices[lookup_idx] = x_idx\n", "indices[lookup_idx] = x_idx + 1\n"))),
    ("M06", "S", "higher 423: first loop `lookup_val <= x_val` -> `<`",
     lambda t: edit(t, H, ("lookup_val <= x_val", "lookup_val < x_val"))),
    ("M07", "S", "higher 432: inner loop `x_next_val < lookup_val` -> `<=`",
     lambda t: edit(t, H, ("x_next_val < lookup_val", "x_next_val <= lookup_val"))),
    ("M08", "S", "higher 441: `x_idx + 1` -> `x_idx` (else branch)",
     lambda t: edit(t, H, ("indices[lookup_idx] = x_idx + 1", "indices[lookup_idx] = x_idx"))),
    ("M09", "S", "higher 439: fill value `len(x)` -> `len(x) - 1`",
     lambda t: edit(t, H, ("else len(x)", "else len(x) - 1"))),
    ("M10", "S", "higher 438: `if x_next_val is None:` -> `is not None` (branches keep their places)",
     lambda t: edit(t, H, (("if x_next_val is None:", 2), "if x_next_val is not None:"))),
    ("M11", "S", "closest 505: `lookup_val - x_val <= x_next_val - lookup_val` -> `<`",
     lambda t: edit(t, C, ("lookup_val - x_val <= x_next_val", "lookup_val - x_val < x_next_val"))),
    ("M12", "S", "closest 494: `x_val = x_next_val` dropped",
     lambda t: edit(t, C, (I12 + "x_val = x_next_val\n", ""))),
    ("M13", "S", "closest 506/508: `x_idx` and `x_idx + 1` exchanged",
     lambda t: edit(t, C, (I12 * 1 + "    indices[lookup_idx] = x_idx\n" + I12 + "else:\n" + I12
                            + "    indices[lookup_idx] = x_idx + 1\n",
                            I12 + "    indices[lookup_idx] = x_idx + 1\n" + I12 + "else:\n" + I12
                            + "    indices[lookup_idx] = x_idx\n"))),
    ("M14", "S", "closest 497: truthiness `if not x_next_val: break` for `if x_next_val is None: break`",
     lambda t: edit(t, C, ("if x_next_val is None:\n" + I12 + "    break", "if not x_next_val:\n" + I12 + "    break"))),
    ("M15", "S", "higher 432: truthiness `while x_next_val and x_next_val < lookup_val`",
     lambda t: edit(t, H, ("while x_next_val is not None and x_next_val < lookup_val",
                           "while x_next_val and x_next_val < lookup_val"))),
    ("M16", "S", "lower 363: `lookup_idx += 1` of the first loop dropped",
     lambda t: edit(t, L, (I8 + "lookup_idx += 1\n", ""))),
    ("M17", "S", "lower 376: `next(lookup_it, None)` -> `next(lookup_it)` in the second loop",
     lambda t: edit(t, L, (("lookup_val = next(lookup_it, None)", 2), "lookup_val = next(lookup_it)"))),
    ("M18", "S", "lower 369: `x_next_val is not None and` dropped from the inner loop test",
     lambda t: edit(t, L, ("while x_next_val is not None and x_next_val <= lookup_val",
                           "while x_next_val <= lookup_val"))),
    ("M19", "S", "dispatcher 545-548: the calls of `lower` and `higher` exchanged",
     lambda t: edit(t, D, ("return find_closest_lower_equal_element_indices_to_values(",
                           "return find_closest_XX_equal_element_indices_to_values("),
                    ("return find_closest_higher_equal_element_indices_to_values(",
                     "return find_closest_lower_equal_element_indices_to_values("),
                    ("return find_closest_XX_equal_element_indices_to_values(",
                     "return find_closest_higher_equal_element_indices_to_values("))),
    ("M20", "S", "dispatcher 549: `raise ValueError` -> `raise TypeError`",
     lambda t: edit(t, D, ('raise ValueError("Unknown strategy")', 'raise TypeError("Unknown strategy")'))),
    ("M21", "S", "dispatcher 546: `fill_not_valid` not passed on to `lower`",
     lambda t: edit(t, D, ("values(x, lookup, fill_not_valid)", "values(x, lookup)"))),
    ("M22", "S", "lower 318: default `fill_not_valid: bool = True` -> `False`",
     lambda t: edit(t, L, ("fill_not_valid: bool = True", "fill_not_valid: bool = False"))),
    ("M23", "S", "closest 496: `x_idx += 1` -> `x_idx += 2`",
     lambda t: edit(t, C, ("x_idx += 1", "x_idx += 2"))),
    ("M24", "S", "lower 356: initial `lookup_idx = 0` -> `lookup_idx = 1`",
     lambda t: edit(t, L, ("lookup_idx = 0", "lookup_idx = 1"))),
    ("M25", "S", "lower 350/351: `x_val` and `x_next_val` bound in the other order",
     lambda t: edit(t, L, ("    x_val = next(x_it)\n    x_next_val = next(x_it, None)\n",
                           "    x_next_val = next(x_it, None)\n    x_val = next(x_it)\n"))),
    ("M26", "S", "higher 424: first loop stores `lookup_idx` instead of `x_idx`",
     lambda t: edit(t, H, ("indices[lookup_idx] = x_idx\n", "indices[lookup_idx] = lookup_idx\n"))),
    ("M27", "S", "closest 490: second loop also stops when `x_next_val is None`",
     lambda t: edit(t, C, ("while lookup_val is not None:", "while lookup_val is not None and x_next_val is not None:"))),
    ("M28", "S", "lower 346: `np.zeros(len(lookup)` -> `np.zeros(len(x)`",
     lambda t: edit(t, L, ("np.zeros(len(lookup)", "np.zeros(len(x)"))),
    ("M29", "S", "higher 433: `x_next_val = next(x_it, None)` dropped from the inner loop (never ends)",
     lambda t: edit(t, H, ((I12 + "x_next_val = next(x_it, None)\n", 1), ""))),
    ("M30", "S", "closest 352: `x_next_val = next(x_it, None)` dropped from the prologue (unbound local)",
     lambda t: edit(t, C, ("    x_next_val = next(x_it, None)\n", ""))),
    ("M31", "S", "lower 370: the inner loop reads `lookup_it` instead of `x_it`",
     lambda t: edit(t, L, (I12 + "x_next_val = next(x_it, None)", I12 + "x_next_val = next(lookup_it, None)"))),
    ("M32", "S", "dispatcher 543: `'closest'` -> `'nearest'`",
     lambda t: edit(t, D, ("if strategy == 'closest':", "if strategy == 'nearest':"))),
    ("M33", "S", "closest 494/495: `x_val = x_next_val` after `x_next_val = next(x_it, None)` (dependent order)",
     lambda t: edit(t, C, (I12 + "x_val = x_next_val\n" + I12 + "x_next_val = next(x_it, None)\n",
                           I12 + "x_next_val = next(x_it, None)\n" + I12 + "x_val = x_next_val\n"))),
    ("M34", "S", "closest 484: first loop compares with `x_next_val` instead of `x_val`",
     lambda t: edit(t, C, ("lookup_val <= x_val", "lookup_val <= x_next_val"))),
    ("M35", "S", "higher 409: `np.ones` for `np.zeros`",
     lambda t: edit(t, H, ("np.zeros(len(lookup)", "np.ones(len(lookup)"))),
    ("M36", "S", "lower 360: `and` -> `or` in the test of the first loop",
     lambda t: edit(t, L, ("lookup_val is not None and lookup_val < x_val", "lookup_val is not None or lookup_val < x_val"))),
    ("M37", "S", "higher 435: `x_idx += 1` moved out of the inner loop (after it)",
     lambda t: edit(t, H, (I12 + "x_idx += 1\n", ""),
                    (I8 + "# lookup value is higher than the current x and lower than the next x\n",
                     I8 + "x_idx += 1\n"))),
    ("M38", "S", "lower 377: `return indices` -> `return indices[:-1]`",
     lambda t: edit(t, L, ("    return indices\n", "    return indices[:-1]\n"))),
    # ---- harmless ----
    ("H01", "H", "lower: every local renamed (`res`, `xi`, `cur`, `nxt`, `i`, `li`, `lv`, `j`)",
     lambda t: rename(t, L, {"indices": "res", "x_it": "xi", "x_val": "cur", "x_next_val": "nxt", "x_idx": "i",
                             "lookup_it": "li", "lookup_val": "lv", "lookup_idx": "j"})),
    ("H02", "H", "higher: `not (v is None)` for every `v is not None`",
     lambda t: (lambda a_b: t[:a_b[0]] + re.sub(r"(\w+) is not None", r"not (\1 is None)", t[a_b[0]:a_b[1]])
                + t[a_b[1]:])(region(t, H))),
    ("H03", "H", "closest: independent assignments reordered (prologue: `x_idx = 0` first, `lookup_idx = 0` before "
                 "`lookup_it`; loops: `lookup_idx += 1` before `lookup_val = next(...)`, `x_idx += 1` first)",
     lambda t: edit(t, C,
                    ("    x_it = iter(x)\n    x_val = next(x_it)\n    x_next_val = next(x_it, None)\n    x_idx = 0\n",
                     "    x_idx = 0\n    x_it = iter(x)\n    x_val = next(x_it)\n    x_next_val = next(x_it, None)\n"),
                    ("    lookup_it = iter(lookup)\n    lookup_val = next(lookup_it)\n    lookup_idx = 0\n",
                     "    lookup_idx = 0\n    lookup_it = iter(lookup)\n    lookup_val = next(lookup_it)\n"),
                    (I8 + "lookup_val = next(lookup_it, None)\n" + I8 + "lookup_idx += 1\n",
                     I8 + "lookup_idx += 1\n" + I8 + "lookup_val = next(lookup_it, None)\n"),
                    ((I8 + "lookup_val = next(lookup_it, None)\n" + I8 + "lookup_idx += 1\n", 1),
                     I8 + "lookup_idx += 1\n" + I8 + "lookup_val = next(lookup_it, None)\n"),
                    (I12 + "x_val = x_next_val\n" + I12 + "x_next_val = next(x_it, None)\n" + I12 + "x_idx += 1\n",
                     I12 + "x_idx += 1\n" + I12 + "x_val = x_next_val\n" + I12 + "x_next_val = next(x_it, None)\n"))),
    ("H04", "H", "all scans: `v = v + 1` for `v += 1`",
     lambda t: re.sub(r"(\w+_idx) \+= 1", r"\1 = \1 + 1", t)),
    ("H05", "H", "all scans: the redundant `if x_next_val is None: break` dropped (the loop test re-checks it)",
     lambda t: t.replace(I12 + "if x_next_val is None:\n" + I12 + "    break\n", "")),
    ("H06", "H", "lower: `x_val > lookup_val` for `lookup_val < x_val`, `lookup_val >= x_next_val` for `<=`",
     lambda t: edit(t, L, ("lookup_val < x_val", "x_val > lookup_val"),
                    ("x_next_val <= lookup_val", "lookup_val >= x_next_val"))),
    ("H07", "H", "dispatcher: branches reordered (`lower`, `higher`, `closest`), final `else: raise`",
     lambda t: edit(t, D, ("""    if strategy == 'closest':
        return find_closest_lower_or_higher_element_indices_to_values(x, lookup)
    elif strategy == 'lower':
        return find_closest_lower_equal_element_indices_to_values(x, lookup, fill_not_valid)
    elif strategy == 'higher':
        return find_closest_higher_equal_element_indices_to_values(x, lookup, fill_not_valid)
    raise ValueError("Unknown strategy")""", """    if strategy == 'lower':
        return find_closest_lower_equal_element_indices_to_values(x, lookup, fill_not_valid=fill_not_valid)
    elif 'higher' == strategy:
        return find_closest_higher_equal_element_indices_to_values(lookup=lookup, x=x, fill_not_valid=fill_not_valid)
    elif strategy in ('closest',):
        return find_closest_lower_or_higher_element_indices_to_values(x, lookup)
    else:
        raise ValueError("Unknown strategy")"""))),
    ("H08", "H", "higher 438-441: negated test with exchanged branches",
     lambda t: edit(t, H, ("""        if x_next_val is None:
            indices[lookup_idx] = x_idx if fill_not_valid else len(x)
        else:
            indices[lookup_idx] = x_idx + 1
""", """        if x_next_val is not None:
            indices[lookup_idx] = x_idx + 1
        else:
            indices[lookup_idx] = x_idx if fill_not_valid else len(x)
"""))),
    ("H09", "H", "higher 441: `1 + x_idx` for `x_idx + 1`; 439: `len(x) if not fill_not_valid else x_idx`",
     lambda t: edit(t, H, ("indices[lookup_idx] = x_idx + 1", "indices[lookup_idx] = 1 + x_idx"),
                    ("x_idx if fill_not_valid else len(x)", "len(x) if not fill_not_valid else x_idx"))),
    ("H10", "H", "closest 505: `x_next_val - lookup_val >= lookup_val - x_val`",
     lambda t: edit(t, C, ("lookup_val - x_val <= x_next_val - lookup_val", "x_next_val - lookup_val >= lookup_val - x_val"))),
    ("H11", "H", "lower 366: `while True:` + `if lookup_val is None: break` for `while lookup_val is not None:`",
     lambda t: edit(t, L, ("    while lookup_val is not None:\n", "    while True:\n        if lookup_val is None:\n            break\n"))),
    ("H12", "H", "closest 502-508: `elif` for the nested `else: if`",
     lambda t: edit(t, C, ("""        else:
            # lookup value is higher than the current x and lower than the next x
            # check which one is closer
            if lookup_val - x_val <= x_next_val - lookup_val:
                indices[lookup_idx] = x_idx
            else:
                indices[lookup_idx] = x_idx + 1
""", """        elif lookup_val - x_val <= x_next_val - lookup_val:
            indices[lookup_idx] = x_idx
        else:
            indices[lookup_idx] = x_idx + 1
"""))),
]


def build(scratch):
    t0 = time.time()
    if scratch:
        env = "LEAN_PATH=$LEAN_PATH:" + str(LEAN)
        cmd = f"{env} lean -o {scratch}/Gen.olean {scratch}/Gen.lean && {env} lean {scratch}/Tie.lean"
        p = subprocess.run(["lake", "env", "bash", "-c", cmd], cwd=LEAN, capture_output=True, text=True)
    else:
        p = subprocess.run(["lake", "build", "TWV.Tie.Search"], cwd=LEAN, capture_output=True, text=True)
    out = p.stdout + p.stderr
    errs = re.findall(r"(?:Search|Tie|Gen)\.lean:(\d+):\d+:(?: error)?", out) if "error" in out else []
    return p.returncode == 0 and not errs, out, time.time() - t0


def failing_theorems(out, scratch):
    """names of the theorems whose proofs fail (from the error lines of the tie file)"""
    tie = (LEAN / scratch / "Tie.lean") if scratch else (LEAN / "TWV" / "Tie" / "Search.lean")
    src = tie.read_text().split("\n")
    names = []
    for m in re.finditer(r"(?:error: \S*Tie/Search\.lean:(\d+):\d+:|Tie\.lean:(\d+):\d+: error)", out):
        ln = int(m.group(1) or m.group(2))
        for i in range(min(ln, len(src)) - 1, -1, -1):
            mm = re.search(r"\b(?:theorem|def)\s+(\S+)", src[i])
            if mm:
                if mm.group(1) not in names:
                    names.append(mm.group(1))
                break
    return names


def run(exp, text, scratch):
    eid, kind, desc, fn = exp
    mutated = fn(text)
    assert mutated != text, f"{eid}: the edit did not change the text"
    compile(mutated, "sorted_array_utils.py", "exec")
    note = t5.regenerate(mutated, out=(LEAN / scratch / "Gen.lean") if scratch else None)
    ok, out, secs = build(scratch)
    if note.startswith("UNSUPPORTED"):
        trans = "UNSUPPORTED (" + note.split(": ", 1)[1].split(";")[0].split(" (re")[0].split(" (un")[0] + ")"
    else:
        trans = "translated" + (" (text unchanged)" if "(unchanged)" in note else "")
    if ok:
        res = "builds"
    else:
        res = "FAILS " + ", ".join(f"`{n}`" for n in failing_theorems(out, scratch)[:4])
    return eid, kind, desc, trans, res, secs, out


def main(argv):
    scratch = None
    ids = []
    it = iter(argv)
    verbose = False
    for a in it:
        if a == "--scratch":
            scratch = next(it)
        elif a == "--list":
            for e in EXPERIMENTS:
                print(e[0], e[1], e[2])
            return 0
        elif a == "-v":
            verbose = True
        else:
            ids.append(a)
    text = head_text()
    rows = []
    for exp in EXPERIMENTS:
        if ids and exp[0] not in ids:
            continue
        r = run(exp, text, scratch)
        rows.append(r)
        print(f"| {r[0]} | {r[2]} | {r[3]} | {r[4]} | {r[5]:.1f} s |", flush=True)
        if verbose and not r[4].startswith("builds"):
            print(r[6][:6000])
    note = t5.regenerate(text, out=(LEAN / scratch / "Gen.lean") if scratch else None)
    ok, out, secs = build(scratch)
    print(f"HEAD: {note}; build {'ok' if ok else 'FAILS'} ({secs:.1f} s)")
    if not ok:
        print(out[:4000])
    return 0 if ok else 1


if __name__ == "__main__":
    sys.exit(main(sys.argv[1:]))
