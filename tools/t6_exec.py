#!/usr/bin/env python3
"""Executes the experiments of tools/t6_mutants.py: every edited text of weaver.py replaces weaver.py in a copy
of the HEAD package (git archive of /repo's HEAD under /tmp, never /repo's working tree) and a fixed list of
scenarios is run with /venv/bin/python in three modes (plain, `-O`, `-W error`); the output (a digest of the six
series after each scenario, the exception raised) is compared with the HEAD text's.

  python3 tools/t6_exec.py            all experiments          python3 tools/t6_exec.py --head   HEAD's output
"""
import itertools
import os
import shutil
import subprocess
import sys
import tempfile
from pathlib import Path

VERIF = Path(__file__).resolve().parent.parent
sys.path.insert(0, str(VERIF))
sys.path.insert(0, str(VERIF / "tools"))
import t6_mutants as M  # noqa: E402

SCENARIOS = r'''
import sys, warnings, hashlib
import numpy as np
from traffic_weaver import Weaver

def dig(w):
    parts = []
    for a in ("x", "y", "reference_x", "reference_y", "original_x", "original_y"):
        v = np.asarray(getattr(w, a), dtype=float)
        parts.append(f"{a}:{len(v)}:{hashlib.md5(np.round(v, 9).tobytes()).hexdigest()[:6]}")
    parts.append("t=" + type(w.x).__name__ + "/" + type(w.y).__name__)
    parts.append(f"xs={getattr(w,'x_scale',None)} ys={getattr(w,'y_scale',None)}")
    return " ".join(parts)

def mk():
    x = np.arange(12.0); y = np.array([3., 1, 4, 1, 5, 9, 2, 6, 5, 3, 5, 8])
    return Weaver(x, y)

def scen(name, f):
    w = None
    try:
        w = mk()
        r = f(w)
        print(name, "ok", dig(w), "" if r is None or r is w else repr(r)[:60])
    except BaseException as e:
        print(name, type(e).__name__, dig(w) if w is not None else "-")

scen("trunc_ok", lambda w: w.truncate_by_value(2, 9))
scen("trunc_narrow_after_recreate", lambda w: w.recreate_from_average(8).truncate_by_value(2.2, 2.9))
scen("trunc_inverted", lambda w: w.truncate_by_value(9, 2))
def poked(w):
    gx, _ = w.get(); gx += 100.0
    return w.truncate_by_value(50, 0.9, x_right_as_ratio=True)
scen("trunc_poked", poked)
scen("interp_n", lambda w: w.interpolate(n=30))
scen("interp_badgrid", lambda w: w.interpolate(new_x=[0, 5, 10]))
scen("interp_grid", lambda w: w.interpolate(new_x=[0, 5, 11]))
scen("interp_badmethod", lambda w: w.interpolate(n=5, method="nope"))
scen("repeat", lambda w: w.repeat(3))
scen("scale", lambda w: w.scale_x(2.5).scale_y(0.5))
scen("shift", lambda w: w.shift_x(2.5).shift_y(0.5))
scen("norm", lambda w: w.normalize_x(0, 1).normalize_y(0, 1))
scen("append", lambda w: w.append_one_sample(make_periodic=False))
scen("append_p", lambda w: w.append_one_sample(make_periodic=True))
scen("trunc_idx", lambda w: w.truncate_by_index(2, 9))
scen("trunc_idx_bad", lambda w: w.truncate_by_index(2, 99))
scen("trunc_idx_neg", lambda w: w.truncate_by_index(-1, 5))
scen("restore", lambda w: (w.scale_x(2).restore_original(), w.shift_x(1.0), w.x.__iadd__(1.0), w)[-1])
def restore_poke(w):
    w.restore_original(); gx, gy = w.get(); gx += 1.0; gy += 1.0
scen("restore_poke", restore_poke)
scen("match", lambda w: w.recreate_from_average(4).integral_match())
scen("noise", lambda w: (np.random.seed(1), w.noise(20))[1])
scen("smooth", lambda w: w.smooth(0.5))
scen("tofn", lambda w: (w.to_function()(0.5), w.scale_y(2), float(w.to_function()(0.5)))[-1])
scen("slice", lambda w: w.slice_by_value(2, 5))
def bad_init():
    try:
        Weaver([1, 2, 3], [1, 2]); print("init_bad ok")
    except BaseException as e:
        print("init_bad", type(e).__name__)
bad_init()
scen("caller", lambda w: None)
x0 = np.arange(5.0); y0 = np.arange(5.0) * 2
w = Weaver(x0, y0); w.shift_x(1.0); w.integral_match(); print("caller_arrays", x0.tolist(), y0.tolist())
'''
MODES = {"plain": [], "-O": ["-O"], "-Werror": ["-W", "error"]}


def main(argv):
    work = Path(tempfile.mkdtemp(prefix="t6exec"))
    base = work / "base"
    base.mkdir()
    ar = subprocess.run(["git", "-C", "/repo", "archive", "HEAD", "src/traffic_weaver"], capture_output=True, check=True)
    subprocess.run(["tar", "-x", "-C", str(base)], input=ar.stdout, check=True)
    (work / "scen.py").write_text(SCENARIOS)

    def run(text, flags):
        d = work / "cur"
        shutil.rmtree(d, ignore_errors=True)
        shutil.copytree(base / "src", d)
        (d / "traffic_weaver" / "weaver.py").write_text(text)
        env = dict(os.environ, PYTHONPATH=str(d), PYTHONDONTWRITEBYTECODE="1")
        p = subprocess.run(["/venv/bin/python", *flags, str(work / "scen.py")], env=env, capture_output=True, text=True)
        return p.stdout + ("\nSTDERR " + p.stderr[-300:] if p.returncode else "")

    head = M.head_text()
    ref = {m: run(head, f) for m, f in MODES.items()}
    if argv and argv[0] == "--head":
        print(ref["plain"])
        return 0
    for eid, kind, desc, fn in M.EXPERIMENTS:
        if argv and eid not in argv:
            continue
        text = fn(head)
        res = []
        for m, f in MODES.items():
            out = run(text, f)
            if out != ref[m]:
                names = [(a.split() or b.split() or ["?"])[0]
                         for a, b in itertools.zip_longest(out.split("\n"), ref[m].split("\n"), fillvalue="") if a != b]
                res.append(f"{m}: differs ({', '.join(names[:4])})")
            else:
                res.append(f"{m}: same")
        print(eid, kind, "; ".join(res), flush=True)
    shutil.rmtree(work, ignore_errors=True)
    return 0


if __name__ == "__main__":
    sys.exit(main(sys.argv[1:]))
