#!/usr/bin/env python3
"""Confirm a seeded change and run the checks against it.

usage: tools/seedtest.py <seed-dir-with-patch.diff-demo.py-meta.json> <name> [--checks C01,C02,...|all]

 1. the patch applies to /repo's clean tree; the pinned suite still gives the baseline result;
 2. the demonstration fails with the change and passes without it;
 3. every requested check's quick tier is run against the changed tree; the VIOLATION lines are recorded;
 4. the change is undone (git checkout), generated files are regenerated;
 5. everything is stored under /verif/seeded/<name>/ (patch.diff, demo.py, meta.json with the results).
"""
import json
import os
import re
import shutil
import subprocess
import sys
import time
from pathlib import Path

VERIF = Path(__file__).resolve().parent.parent
REPO = Path(os.environ.get("TWV_REPO", "/repo"))   # a scratch worktree may stand in for /repo (isolated runs)
ALL = [f"C{n:02d}" for n in range(1, 21)]


def sh(cmd, **kw):
    return subprocess.run(cmd, shell=True, capture_output=True, text=True, **kw)


def suite():
    p = sh(f"cd {REPO} && /venv/bin/python -m pytest -q -p no:cacheprovider --timeout=900 --continue-on-collection-errors 2>&1 | tail -1")
    return p.stdout.strip()


def demo(path):
    p = sh(f"cd /tmp && PYTHONPATH={REPO}/src /venv/bin/python {path}", timeout=600)
    return p.returncode, (p.stdout + p.stderr)[-400:]


def main():
    src = Path(sys.argv[1])
    name = sys.argv[2]
    checks = ALL
    if "--checks" in sys.argv:
        v = sys.argv[sys.argv.index("--checks") + 1]
        checks = ALL if v == "all" else v.split(",")
    assert sh(f"git -C {REPO} status --porcelain --untracked-files=no").stdout.strip() == "", "/repo is not clean"
    out = VERIF / "seeded" / name
    out.mkdir(parents=True, exist_ok=True)
    for f in ("patch.diff", "demo.py"):
        shutil.copy(src / f, out / f)
    meta = json.loads((src / "meta.json").read_text()) if (src / "meta.json").exists() else {}
    res = {"confirmed": {}, "checks": {}}
    res["confirmed"]["demo_without_change"] = demo(out / "demo.py")[0]
    a = sh(f"git -C {REPO} apply {out / 'patch.diff'}")
    if a.returncode != 0:
        print("patch does not apply:", a.stderr)
        return 2
    try:
        res["confirmed"]["suite_with_change"] = suite()
        rc, tail = demo(out / "demo.py")
        res["confirmed"]["demo_with_change"] = rc
        res["confirmed"]["demo_output"] = tail
        for pid in checks:
            t0 = time.time()
            p = sh(f"cd {VERIF} && ./check {pid} --tier quick", timeout=3000)
            lines = [ln for ln in p.stdout.splitlines() if ln.startswith(("VIOLATION", "OK ", "KNOWN-FINDING", "INFRA"))]
            viol = [ln for ln in lines if ln.startswith("VIOLATION")]
            detail = ""
            m = re.search(r"replay=(\S+)", viol[0]) if viol else None
            if m and os.path.exists(m.group(1)):
                rp = json.loads(Path(m.group(1)).read_text())
                detail = str(rp.get("violation") or rp.get("broken"))[:300]
                os.remove(m.group(1))
            res["checks"][pid] = {"exit": p.returncode, "violation": bool(viol),
                                  "no_failing_input": any("no-failing-input-found" in v for v in viol),
                                  "detail": detail, "wall_s": round(time.time() - t0, 1)}
            print(pid, p.returncode, (viol[0] if viol else lines[-1] if lines else p.stdout[-200:])[:160], "|", detail[:120])
    finally:
        sh(f"git -C {REPO} checkout -- .")
        sh(f"cd {VERIF} && PYTHONPATH={VERIF} /venv/bin/python -m harness.regen")
    res["confirmed"]["suite_without_change"] = suite()
    meta["results"] = res
    meta["caught_by"] = [p for p, r in res["checks"].items() if r["violation"]]
    (out / "meta.json").write_text(json.dumps(meta, indent=1))
    print("caught by:", meta["caught_by"])
    return 0


if __name__ == "__main__":
    sys.exit(main())
