#!/usr/bin/env python3
"""Print the 'which check catches which seeded change' table from /verif/seeded/*/meta.json (markdown)."""
import json
from pathlib import Path

rows = []
for d in sorted((Path(__file__).resolve().parent.parent / "seeded").iterdir()):
    m = d / "meta.json"
    if not m.exists():
        continue
    j = json.loads(m.read_text())
    res = j.get("results", {})
    checks = res.get("checks", {})
    caught = []
    for pid, r in checks.items():
        if r["violation"]:
            caught.append(pid + ("°" if r["no_failing_input"] else ""))
    missed = [pid for pid, r in checks.items() if not r["violation"]]
    conf = res.get("confirmed", {})
    ok = conf.get("demo_with_change") == 1 and conf.get("demo_without_change") == 0 and "170 passed" in conf.get("suite_with_change", "")
    rows.append((d.name, j.get("property", "?"), (j.get("summary", "") or "")[:150].replace("|", "/"),
                 (j.get("needs", "") or "")[:110].replace("|", "/"), ", ".join(caught) or "—", ", ".join(missed) or "—",
                 "yes" if ok else "NO"))
print("| seeded change | breaks | what it does | needs | caught by (° = no failing input found) | ran, not alarmed | confirmed |")
print("|---|---|---|---|---|---|---|")
for r in rows:
    print("| " + " | ".join(r) + " |")
