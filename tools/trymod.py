#!/usr/bin/env python3
"""Developer helper: run one property's correspondence + oracle on the current /repo tree without build/audit.
usage: tools/trymod.py <ID> [tier] [-v]"""
import json
import os
import sys
sys.path.insert(0, '/verif')
from harness import core, run
from harness.core import Rng, Stats

pid = sys.argv[1]
tier = sys.argv[2] if len(sys.argv) > 2 and not sys.argv[2].startswith('-') else 'quick'
verbose = '-v' in sys.argv
prop = run.load_prop(pid)
core.repo_on_path()
st = Stats()
from harness import shapes
SEED = os.environ.get("VERIF_SEED", "0")
cases = list(prop.cases(Rng(f"{pid}-{SEED}-{tier}"), tier))
if getattr(prop, "SHAPES", True):
    srng = Rng(f"{pid}-{SEED}-{tier}-shapes")
    cases = [shapes.decorate(c, srng, allow_threads=getattr(prop, 'THREADS', False)) for c in cases]
run._SCHED.update({'threads_s': 10.0, 'preempt_cases': 40, 'per_kind_max': 6, 'per_kind': {}})
recs, dis, fails = run.evaluate(prop, cases, st)
print(len(recs), "cases;", len(dis), "disagreements;", len(fails), "oracle failures")
if '-t' in sys.argv:
    print({k: v for k, v in st.as_dict().items() if k.startswith(("hist", "layout"))})
if verbose:
    for d in dis[:6]:
        print("DIS", d['disagreement'][:300], json.dumps(run.clean(d['case']), default=str)[:500])
    for f in fails[:6]:
        print("FAIL", f['violation'][:300], json.dumps(run.clean(f['case']), default=str)[:500])
