#!/usr/bin/env python3
"""Experiments for T6 (harness/t6_effects.py): edited copies of the HEAD text of weaver.py are translated
and the tie is rebuilt.  Never touches /repo's working tree.

  python3 tools/t6_mutants.py                 all experiments, then HEAD again (table on stdout)
  python3 tools/t6_mutants.py M03 H02         only these
  python3 tools/t6_mutants.py --list
  -v   print the build output of failing runs        --diff   print the changed table entries (short form)
"""
import ast
import re
import subprocess
import sys
import time
from pathlib import Path

VERIF = Path(__file__).resolve().parent.parent
sys.path.insert(0, str(VERIF))
from harness import t6_effects as t6  # noqa: E402

LEAN = VERIF / "lean"
TIE = LEAN / "TWV" / "Tie" / "WeaverEffects.lean"


def head_text():
    return subprocess.run(["git", "-C", "/repo", "show", "HEAD:src/traffic_weaver/weaver.py"],
                          capture_output=True, text=True, check=True).stdout


def region(text, fn):
    a = text.index(f"    def {fn}(")
    m = re.search(r"^    (?:def |@)", text[a + 8:], re.M)
    b = a + 8 + m.start() if m else len(text)
    return a, b


def edit(text, fn, *pairs):
    """replace old by new inside the method `fn` (whole text if fn is None); old may be `(old, n)`: n-th occurrence"""
    a, b = region(text, fn) if fn else (0, len(text))
    body = text[a:b]
    for old, new in pairs:
        nth = 1
        if isinstance(old, tuple):
            old, nth = old
        pos = -1
        for _ in range(nth):
            pos = body.index(old, pos + 1)
        body = body[:pos] + new + body[pos + len(old):]
    return text[:a] + body + text[b:]


def code_of(text, fn):
    """(start, end) offsets of the code of a method of Weaver after its docstring"""
    tree = ast.parse(text)
    cls = next(n for n in tree.body if isinstance(n, ast.ClassDef) and n.name == "Weaver")
    f = next(n for n in cls.body if isinstance(n, ast.FunctionDef) and n.name == fn)
    first = f.body[0]
    is_doc = isinstance(first, ast.Expr) and isinstance(first.value, ast.Constant) and isinstance(first.value.value, str)
    start_line = first.end_lineno + 1 if is_doc else first.lineno      # 1-based, first line of the code
    lines = text.split("\n")
    a = sum(len(l) + 1 for l in lines[:start_line - 1])
    b = sum(len(l) + 1 for l in lines[:f.end_lineno])
    return a, b


I8 = " " * 8
I12 = " " * 12

TRUNC_EARLY = """        self.x, self.y = truncate(self.x, self.y, x_left=x_left, x_right=x_right, x_left_as_ratio=x_left_as_ratio,
                                  x_right_as_ratio=x_right_as_ratio)
        self.reference_x, self.reference_y = truncate(self.reference_x, self.reference_y, x_left=x_left,
                                                      x_right=x_right, x_left_as_ratio=x_left_as_ratio,
                                                      x_right_as_ratio=x_right_as_ratio)
        return self
"""


def trunc_early(t):
    a, b = code_of(t, "truncate_by_value")
    return t[:a] + "\n" + TRUNC_EARLY + "\n" + t[b:]


def body_replace(fn, new_code):
    def f(t):
        a, b = code_of(t, fn)
        return t[:a] + "\n" + new_code + "\n" + t[b:]
    return f


GRID_CHECK = """            if new_x[0] != self.x[0] or new_x[-1] != self.x[-1]:
                raise ValueError("new_x should have the same range as x")
"""

# (id, kind, description, function(text) -> text)   kind: S semantic, H harmless, B blind spot (by design)
EXPERIMENTS = [
    # ---- semantic -------------------------------------------------------------------------------------
    ("M01", "S", "truncate_by_value: `self.x, self.y = truncate(...)` BEFORE the reference series is cut",
     trunc_early),
    ("M02", "S", "interpolate: `warnings.warn(...)` between `self.y = ...` and `self.x = ...` (module `import warnings`)",
     lambda t: edit(edit(t, None, ("import numpy as np\n", "import warnings\n\nimport numpy as np\n")), "interpolate",
                    ("        self.x = new_x\n",
                     "        warnings.warn('interpolate changes the sampling grid')\n        self.x = new_x\n"))),
    ("M03", "S", "interpolate: `from warnings import warn` inside the method, `warn(...)` between the two stores",
     lambda t: edit(t, "interpolate",
                    ("        self.x = new_x\n",
                     "        from warnings import warn\n        warn('grid changed', RuntimeWarning)\n        self.x = new_x\n"))),
    ("M04", "S", "repeat: the reference update inside an `assert` via a new helper method `_set_reference`",
     lambda t: edit(t, "repeat",
                    ("        self.reference_x, self.reference_y = repeat(self.reference_x, self.reference_y, repeats=n)\n",
                     "        assert self._set_reference(*repeat(self.reference_x, self.reference_y, repeats=n))\n"),
                    ("        return self\n",
                     "        return self\n\n    def _set_reference(self, rx, ry):\n"
                     "        self.reference_x, self.reference_y = rx, ry\n        return True\n"))),
    ("M05", "S", "repeat: the reference update inside an `assert` via `self.__dict__.update(...)` (no new method)",
     lambda t: edit(t, "repeat",
                    ("        self.reference_x, self.reference_y = repeat(self.reference_x, self.reference_y, repeats=n)\n",
                     "        assert not self.__dict__.update(zip(('reference_x', 'reference_y'),\n"
                     "                                            repeat(self.reference_x, self.reference_y, repeats=n)))\n"))),
    ("M06", "S", "interpolate: the end-point validation of `new_x` moved AFTER `self.y = ...; self.x = ...`",
     lambda t: edit(t, "interpolate", (GRID_CHECK, ""),
                    ("        self.x = new_x\n",
                     "        old_x = self.x\n        self.x = new_x\n"
                     "        if new_x[0] != old_x[0] or new_x[-1] != old_x[-1]:\n"
                     "            raise ValueError(\"new_x should have the same range as x\")\n"))),
    ("M07", "S", "scale_x: `self.reference_x = self.reference_x * scale` dropped",
     lambda t: edit(t, "scale_x", ("        self.reference_x = self.reference_x * scale\n", ""))),
    ("M08", "S", "interpolate: the two stores exchanged (`self.x = new_x` before `self.y = interpolate(self.x, ...)`)",
     lambda t: edit(t, "interpolate",
                    ("        self.y = interpolate(self.x, self.y, new_x, method=method, **kwargs)\n        self.x = new_x\n",
                     "        self.x = new_x\n        self.y = interpolate(self.x, self.y, new_x, method=method, **kwargs)\n"))),
    ("M09", "S", "truncate_by_index: `self.y = ...` and `self.x = ...` exchanged (order only: the same object unless a slice raises in between)",
     lambda t: edit(t, "truncate_by_index",
                    ("        self.x = self.x[start:stop]\n        self.y = self.y[start:stop]\n",
                     "        self.y = self.y[start:stop]\n        self.x = self.x[start:stop]\n"))),
    ("M10", "S", "append_one_sample: early `return self` after the working series is extended (reference skipped when not periodic)",
     lambda t: edit(t, "append_one_sample",
                    ("        self.reference_x, self.reference_y = append_one_sample(",
                     "        if not make_periodic:\n            return self\n"
                     "        self.reference_x, self.reference_y = append_one_sample("))),
    ("M11", "S", "truncate_by_index: both validations moved after the four stores",
     body_replace("truncate_by_index", """        if stop is None:
            stop = len(self.x)
        n = len(self.x)
        self.x = self.x[start:stop]
        self.y = self.y[start:stop]
        self.reference_x = self.reference_x[start:stop]
        self.reference_y = self.reference_y[start:stop]
        if start < 0:
            raise ValueError("Start index should be non-negative")
        if stop > n:
            raise ValueError("Stop index should be less than length of x")
        return self
""")),
    ("M12", "S", "normalize_x: `self.original_x = normalize(self.original_x, ...)` dropped",
     lambda t: edit(t, "normalize_x", ("        self.original_x = normalize(self.original_x, min_val, max_val)\n", ""))),
    ("M13", "S", "restore_original: `self.x = self.original_x` without `.copy()` (the working series aliases the original)",
     lambda t: edit(t, "restore_original", ("        self.x = self.original_x.copy()\n", "        self.x = self.original_x\n"))),
    ("M14", "S", "__init__: the length check moved to the end of the constructor",
     lambda t: edit(t, "__init__",
                    ("        if x is not None and len(x) != len(y):\n            raise ValueError(\"x and y should be of the same length\")\n", ""),
                    ("        self.y_scale = 1\n",
                     "        self.y_scale = 1\n        if x is not None and len(x) != len(y):\n"
                     "            raise ValueError(\"x and y should be of the same length\")\n"))),
    ("M15", "S", "scale_x: the reference update inside `assert (self.__setattr__('reference_x', ...) or True)`",
     lambda t: edit(t, "scale_x",
                    ("        self.reference_x = self.reference_x * scale\n",
                     "        assert self.__setattr__('reference_x', self.reference_x * scale) or True\n"))),
    ("M16", "S", "a new mutating method `reset_scale` appended to the class",
     lambda t: t.rstrip("\n") + "\n\n    def reset_scale(self):\n        self.x = self.x / self.x_scale\n"
                                "        self.x_scale = 1\n        return self\n"),
    ("M17", "S", "truncate_by_value: the reference truncation wrapped in `try: ... except ValueError: pass` (refusal swallowed, working series cut)",
     body_replace("truncate_by_value", """        x, y = truncate(self.x, self.y, x_left=x_left, x_right=x_right, x_left_as_ratio=x_left_as_ratio,
                        x_right_as_ratio=x_right_as_ratio)
        self.x, self.y = x, y
        try:
            self.reference_x, self.reference_y = truncate(self.reference_x, self.reference_y, x_left=x_left,
                                                          x_right=x_right, x_left_as_ratio=x_left_as_ratio,
                                                          x_right_as_ratio=x_right_as_ratio)
        except ValueError:
            pass
        return self
""")),
    ("M18", "S", "to_function: memoised with `@functools.lru_cache(maxsize=None)` (a stale spline after the object changes)",
     lambda t: edit(t, None, ("import numpy as np\n", "import functools\n\nimport numpy as np\n"),
                    ("    def to_function(self, s=0):", "    @functools.lru_cache(maxsize=None)\n    def to_function(self, s=0):"))),
    ("M19", "S", "repeat: the stores moved into a nested helper `def apply(): ...; apply()`",
     body_replace("repeat", """        def apply(a, b, c, d):
            self.x, self.y, self.reference_x, self.reference_y = a, b, c, d
        apply(*repeat(self.x, self.y, repeats=n), *repeat(self.reference_x, self.reference_y, repeats=n))
        return self
""")),
    ("M20", "S", "module level: `Weaver.truncate_by_value = Weaver.truncate_by_index` after the class",
     lambda t: t.rstrip("\n") + "\n\n\nWeaver.truncate_by_value = Weaver.truncate_by_index\n"),
    ("M21", "S", "interpolate: `new_x = np.asarray(new_x)` dropped (a list grid is stored as `self.x`)",
     lambda t: edit(t, "interpolate", ("            new_x = np.asarray(new_x)\n", ""))),
    ("M22", "S", "imports: `repeat` taken from NumPy (`from numpy import repeat`) instead of `.process`",
     lambda t: edit(t, None,
                    ("from .process import repeat, trend,", "from numpy import repeat\nfrom .process import trend,"))),
    ("M23", "S", "integral_match: a `warnings.warn(DeprecationWarning)` before the computation (nothing half-updated, but a new way to fail under -W error)",
     lambda t: edit(t, "integral_match",
                    ("        self.y = integral_matching_reference_stretch(",
                     "        import warnings\n        warnings.warn('use match()', DeprecationWarning)\n"
                     "        self.y = integral_matching_reference_stretch("))),
    ("M24", "S", "append_one_sample: compute both pairs first, then store (an IMPROVEMENT of the order)",
     body_replace("append_one_sample", """        x, y = append_one_sample(self.x, self.y, make_periodic=make_periodic)
        rx, ry = append_one_sample(self.reference_x, self.reference_y, make_periodic=make_periodic)
        self.x, self.y = x, y
        self.reference_x, self.reference_y = rx, ry
        return self
""")),
    ("M25", "S", "noise: state update through `setattr(self, 'y', ...)`",
     lambda t: edit(t, "noise", ("        self.y = noise_gauss(self.y, snr=snr, **kwargs)\n",
                                 "        setattr(self, 'y', noise_gauss(self.y, snr=snr, **kwargs))\n"))),
    ("M26", "S", "shift_y: a plain `assert` with a call between the two stores (`assert np.all(np.isfinite(self.y))`)",
     lambda t: edit(t, "shift_y", ("        self.reference_y = self.reference_y + shift\n",
                                   "        assert np.all(np.isfinite(self.y))\n        self.reference_y = self.reference_y + shift\n"))),
    # ---- harmless -------------------------------------------------------------------------------------
    ("H01", "H", "truncate_by_value: locals renamed (`x, y, reference_x, reference_y` -> `tx, ty, rx, ry`)",
     body_replace("truncate_by_value", """        tx, ty = truncate(self.x, self.y, x_left=x_left, x_right=x_right, x_left_as_ratio=x_left_as_ratio,
                          x_right_as_ratio=x_right_as_ratio)
        rx, ry = truncate(self.reference_x, self.reference_y, x_left=x_left,
                          x_right=x_right, x_left_as_ratio=x_left_as_ratio,
                          x_right_as_ratio=x_right_as_ratio)
        self.x, self.y = tx, ty
        self.reference_x, self.reference_y = rx, ry
        return self
""")),
    ("H02", "H", "interpolate: a comment between the two stores",
     lambda t: edit(t, "interpolate", ("        self.x = new_x\n", "        # the grid is replaced last\n        self.x = new_x\n"))),
    ("H03", "H", "repeat: an extra blank line and an edited docstring",
     lambda t: edit(t, "repeat", ("        self.x, self.y = repeat(", "\n        self.x, self.y = repeat("),
                    ('"""', '"""(edited) '))),
    ("H04", "H", "truncate_by_value: the tuple stores split into single stores in the same order",
     lambda t: edit(t, "truncate_by_value",
                    ("        self.x, self.y = x, y\n", "        self.x = x\n        self.y = y\n"),
                    ("        self.reference_x, self.reference_y = reference_x, reference_y\n",
                     "        self.reference_x = reference_x\n        self.reference_y = reference_y\n"))),
    ("H05", "H", "`import numpy` added, `numpy.arange` / `numpy.asarray` for `np.…` in __init__ (another spelling of the same module)",
     lambda t:
     edit(t, None, ("import numpy as np\n", "import numpy\nimport numpy as np\n"),
          ("self.x = np.arange(stop=len(y))", "self.x = numpy.arange(stop=len(y))"),
          ("self.x = np.asarray(x)", "self.x = numpy.asarray(x)"),
          ("self.y = np.asarray(y)", "self.y = numpy.asarray(y)"))),
    ("H06", "H", "`from .process import truncate as cut` and `cut(...)` in truncate_by_value",
     lambda t: edit(edit(t, None, ("interpolate, truncate, normalize", "interpolate, truncate as cut, normalize")),
                    "truncate_by_value", ("x, y = truncate(", "x, y = cut("),
                    ("reference_x, reference_y = truncate(", "reference_x, reference_y = cut("))),
    ("H07", "H", "interpolate: the result goes through a local (`new_y = interpolate(...)`, `self.y = new_y`, `self.x = new_x`)",
     lambda t: edit(t, "interpolate",
                    ("        self.y = interpolate(self.x, self.y, new_x, method=method, **kwargs)\n",
                     "        new_y = interpolate(self.x, self.y, new_x, method=method, **kwargs)\n        self.y = new_y\n"))),
    ("H08", "H", "truncate_by_index: `len(self.x)` -> `self.x.shape[0]` (no event either way)",
     lambda t: edit(t, "truncate_by_index", ("stop = len(self.x)", "stop = self.x.shape[0]"))),
    ("H09", "H", "slice_by_value: the test `if start is None` written as `if start is None or False` (a test without calls)",
     lambda t: edit(t, "slice_by_value", ("if start is None:", "if start is None or False:"))),
    ("H10", "H", "__init__: the branches of `if x is None` exchanged (`if x is not None: asarray else: arange`)",
     lambda t: edit(t, "__init__",
                    ("        if x is None:\n            self.x = np.arange(stop=len(y))\n        else:\n            self.x = np.asarray(x)\n",
                     "        if x is not None:\n            self.x = np.asarray(x)\n        else:\n            self.x = np.arange(stop=len(y))\n"))),
    ("H11", "H", "truncate_by_index: `len(self.x)` -> `self.__len__()` (a new call of a method of the object)",
     lambda t: edit(t, "truncate_by_index", ("stop = len(self.x)", "stop = self.__len__()"))),
    ("H12", "H", "scale_y: `self.y_scale *= scale` for `self.y_scale = self.y_scale * scale`",
     lambda t: edit(t, "scale_y", ("self.y_scale = self.y_scale * scale", "self.y_scale *= scale"))),
    # ---- blind spots: the sequence of events does not change ----------------------------------------------
    ("B01", "B", "shift_x: `self.x += shift` (in place: the caller's array changes) for `self.x = self.x + shift`",
     lambda t: edit(t, "shift_x", ("self.x = self.x + shift", "self.x += shift"))),
    ("B02", "B", "integral_match: `self.y[:] = ...` (in-place store) for `self.y = ...`",
     lambda t: edit(t, "integral_match", ("        self.y = integral_matching_reference_stretch(",
                                          "        self.y[:] = integral_matching_reference_stretch("))),
    ("B03", "B", "truncate_by_value: the reference truncation called with `self.x, self.y` (wrong arguments, same events)",
     lambda t: edit(t, "truncate_by_value", ("truncate(self.reference_x, self.reference_y,", "truncate(self.x, self.y,"))),
    ("B04", "B", "scale_x: the stores `self.x = ...` and `self.reference_x = ...` get each other's right-hand side",
     lambda t: edit(t, "scale_x", ("self.x = self.x * scale", "self.x = self.reference_x * scale"),
                    ("self.reference_x = self.reference_x * scale", "self.reference_x = self.x * scale"))),
]


def build():
    t0 = time.time()
    p = subprocess.run(["lake", "build", "TWV.Tie.WeaverEffects"], cwd=LEAN, capture_output=True, text=True)
    out = p.stdout + p.stderr
    return p.returncode == 0, out, time.time() - t0


def failing_theorems(out):
    src = TIE.read_text().split("\n")
    names = []
    for m in re.finditer(r"error: \S*Tie/WeaverEffects\.lean:(\d+):\d+:", out):
        ln = int(m.group(1))
        for i in range(min(ln, len(src)) - 1, -1, -1):
            mm = re.match(r"\s*(?:theorem|example)\s*(\S*)", src[i])
            if mm:
                n = mm.group(1) if mm.group(1) not in (":", "") else "example"
                if n not in names:
                    names.append(n)
                break
    return names


def table_diff(head, mutated):
    a = dict(l.split(": ", 1) if ": " in l else (l.rstrip(":"), "") for l in t6.short_table(head).split("\n"))
    b = dict(l.split(": ", 1) if ": " in l else (l.rstrip(":"), "") for l in t6.short_table(mutated).split("\n"))
    out = []
    for k in list(a) + [k for k in b if k not in a]:
        if a.get(k) != b.get(k):
            out.append(f"    {k}: {a.get(k, '(absent)')}\n    {' ' * len(k)}  -> {b.get(k, '(absent)')}")
    return "\n".join(out)


def run(exp, text):
    eid, kind, desc, fn = exp
    mutated = fn(text)
    assert mutated != text, f"{eid}: the edit did not change the text"
    compile(mutated, "weaver.py", "exec")
    note = t6.regenerate(mutated)
    ok, out, secs = build()
    if note.startswith("UNSUPPORTED"):
        trans = "UNSUPPORTED (" + note[len("UNSUPPORTED "):].split(";")[0] + ")"
    else:
        trans = "translated" + (", table = HEAD" if t6.generate(mutated)[0] == t6.generate(text)[0] else "")
    if ok:
        res = "builds"
    else:
        names = failing_theorems(out)
        res = "FAILS " + ", ".join(f"`{n}`" for n in names[:5]) + (f" (+{len(names) - 5})" if len(names) > 5 else "")
    return eid, kind, desc, trans, res, secs, out, mutated


def main(argv):
    ids, verbose, diff = [], False, False
    for a in argv:
        if a == "--list":
            for e in EXPERIMENTS:
                print(e[0], e[1], e[2])
            return 0
        elif a == "-v":
            verbose = True
        elif a == "--diff":
            diff = True
        else:
            ids.append(a)
    text = head_text()
    for exp in EXPERIMENTS:
        if ids and exp[0] not in ids:
            continue
        r = run(exp, text)
        print(f"| {r[0]} | {r[2]} | {r[3]} | {r[4]} | {r[5]:.1f} s |", flush=True)
        if diff:
            print(table_diff(text, r[7]))
        if verbose and not r[4].startswith("builds"):
            print(r[6][:4000])
    note = t6.regenerate(text)
    ok, out, secs = build()
    print(f"HEAD: {note}; build {'ok' if ok else 'FAILS'} ({secs:.1f} s)")
    if not ok:
        print(out[:4000])
    return 0 if ok else 1


if __name__ == "__main__":
    sys.exit(main(sys.argv[1:]))
