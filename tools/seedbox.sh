#!/bin/sh
# tools/seedbox.sh <seed-dir> <name> <checks>   - confirm a seeded change and run checks against it in an isolated copy
# (/tmp/sv/verif = copy of /verif, /tmp/sv/repo = scratch worktree of /repo), so that /repo and /verif/lean stay untouched
# while other work goes on; the result (patch.diff, demo.py, meta.json) is copied back to /verif/seeded/<name>.
set -e
SV=${SVDIR:-/tmp/sv}
mkdir -p $SV
[ -d $SV/repo ] || git -C /repo worktree add --detach $SV/repo HEAD >/dev/null
[ -d $SV/verif ] || cp -a /verif $SV/verif
rsync -a --delete --exclude .lake --exclude evidence --exclude replays --exclude .git --exclude seeded --exclude check /verif/ $SV/verif/
git -C $SV/repo checkout -q -- . 
cd $SV/verif
(cd lean && lake build TWV twvdriver 2>&1 | grep -v '^✔' | tail -5)
TWV_REPO=$SV/repo PYTHONPATH=$SV/repo/src /venv/bin/python tools/seedtest.py "$1" "$2" --checks "$3"
mkdir -p /verif/seeded/"$2"
cp $SV/verif/seeded/"$2"/* /verif/seeded/"$2"/
