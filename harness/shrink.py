"""Shrinking of a failing case before it is written as the replay.

A failing input found by the oracle is usually larger than it needs to be: a ten-step program of which two steps
matter, a strided layout that plays no role, a forty-point series.  `shrink` greedily applies size-reducing edits
and keeps an edit whenever the property oracle still reports a violation on the real code (the same first word
of the message is not required - any violation of the same property is a valid replay).  Everything is
deterministic and bounded (at most `budget` evaluations of the implementation).
"""
from __future__ import annotations

import copy


def _still_fails(prop, run_one, case, accept=None):
    try:
        io = run_one(prop, case)
        msg = prop.oracle(case, io)
        if msg and accept is not None and not accept(case, io, msg):
            return None      # e.g. the smaller case is a listed known finding: not a witness of THIS violation
    except Exception:  # noqa: an edit that makes the case unrunnable is not a smaller witness
        return None
    return (io, msg) if msg else None


def _strip_private(o):
    if isinstance(o, dict):
        return {k: _strip_private(v) for k, v in o.items() if not str(k).startswith("_")}
    if isinstance(o, list):
        return [_strip_private(v) for v in o]
    return o


def candidates(case):
    """smaller variants of a case, most drastic first"""
    if not isinstance(case, dict):
        return
    # the dimensions that the values do not show
    if case.get("hist") not in (None, "none"):
        yield "hist=none", {**case, "hist": "none"}
    if case.get("layout") not in (None, "contig,contig,contig"):
        yield "layout=contig", {**case, "layout": "contig,contig,contig"}
    if case.get("objhist") not in (None, "same"):
        yield "objhist=same", {**case, "objhist": "same"}
    # programs: drop trailing halves, then single operations / queries
    for key in ("ops", "queries", "sets"):
        seq = case.get(key)
        if isinstance(seq, list) and seq:
            n = len(seq)
            if n >= 4:
                yield f"{key}: first half", {**case, key: seq[: n // 2]}
                yield f"{key}: second half", {**case, key: seq[n // 2:]}
            for i in range(n - 1, -1, -1):
                yield f"{key}: drop #{i}", {**case, key: seq[:i] + seq[i + 1:]}
    # paired series: drop the tail (keeps every index that still exists meaningful)
    for kx, ky in (("x", "y"),):
        xs, ys = case.get(kx), case.get(ky)
        if isinstance(xs, list) and isinstance(ys, list) and len(xs) == len(ys) and len(xs) > 3 \
                and not any(k in case for k in ("F", "fpi", "idx", "xref", "new", "long")):
            n = len(xs)
            yield f"{kx},{ky}: first half", {**case, kx: xs[: max(3, n // 2)], ky: ys[: max(3, n // 2)]}
            yield f"{kx},{ky}: drop last", {**case, kx: xs[:-1], ky: ys[:-1]}


def shrink(prop, run_one, case, budget=150, accept=None):
    """returns (smaller case, its observation, its violation message, log of the edits kept); the input case itself
    when nothing smaller still fails (or the failure does not reproduce)"""
    cur = _strip_private(copy.deepcopy(case))
    base = _still_fails(prop, run_one, copy.deepcopy(cur), accept)
    if base is None:
        return None
    io, msg = base
    log = []
    used = 1
    progress = True
    while progress and used < budget:
        progress = False
        for what, cand in candidates(cur):
            if used >= budget:
                break
            cand = _strip_private(copy.deepcopy(cand))
            used += 1
            r = _still_fails(prop, run_one, copy.deepcopy(cand), accept)
            if r is not None:
                cur, (io, msg) = cand, r
                log.append(what)
                progress = True
                break
    return cur, io, msg, log
