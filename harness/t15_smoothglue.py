"""Translator T15: the smoothing glue and the sampling-function plumbing (Python AST) -> lean/TWV/Generated/SmoothGlue.lean

What T10-T12 list as "not covered".  Source (working tree of /repo unless `--src-dir` is given): process.py, match.py, rfa.py.

  process.spline_smooth                                  -> Gen.spline_smooth
  match.integral_matching_reference_stretch  (last stmt) -> Gen.match_final_smooth
  match._integral_matching_stretch           (last stmt) -> Gen.stretch_final_smooth
  match._interval_integral_matching_stretch  (last stmt) -> Gen.interval_final_smooth
  rfa.FunctionRFA.__init__                               -> Gen.FunctionRFA_init
  rfa.FunctionRFA._get_sampling_function                 -> Gen.FunctionRFA_get_sampling_function
  rfa.CubicSplineRFA.__init__  (supplier left to its default / given)
                                                         -> Gen.CubicSplineRFA_init_default, Gen.CubicSplineRFA_init_given

Target vocabulary: `TWV.SmoothGlue` (types `Spline`, `Supplier`, `FnAttrs`), `TWV.Sv` (lean/TWV/Model/SmoothVocab.lean), `powN`.
The tie `TWV/Tie/SmoothGlue.lean` proves the generated definitions equal to the hand models of lean/TWV/Model/SmoothGlue.lean
(`splineSmooth`, `finalSmooth`, `functionInit`, `samplingFunction`, `cubicInit`) for all inputs and all oracles.

External / abstract (function parameters of the generated definitions, applied to exactly what the text passes):
  std          `np.std(e)`                         (tied through the hypothesis `std y ^ 2 = Sv.npVar y`)
  spline       `BSpline(*splrep(a, b, s=c))`       -> `spline a b (some c)`; without `s=`: `spline a b none`
  cubicSpline  `CubicSpline(a, b)`
  superInit    `super().__init__(x, y, n)` in `FunctionRFA` (T12 translates `AbstractRFA.__init__`; instantiated in the tie)
`np.var(e)` is hand-modelled NumPy (`Sv.npVar`, the population variance).

Kinds of sub-expressions
  S real (`K`)   N count (`Nat`)   L 1-D array as `List K`   O optional real (`Option K`)   FL fitted spline (`List K -> List K`)
  ARR series as `Nat -> K`   SUP supplier   OSUP optional supplier   KW keyword arguments (`List A`)   OKW optional kwargs
  F1 sampling function (`K -> K`)   NONE the constant `None`

Supported subset
  functions    no decorators; positional parameters only; the parameter names of the pinned text (binders are emitted in the
               order of the Python signature, so a reordered signature is a type error or a false equation in the tie);
               optional parameters default to `None`
  statements   docstring, `pass`, `name = e`, `if X is None: X = e`, `return e`, `raise ValueError/TypeError/IndexError(..)`,
               `if test: .. else: ..` (test on an optional value, see below), in `__init__`: `super().__init__(..)` first
               (arguments bound against the parent constructor's signature as written in rfa.py), then `self.attr = e`
  expressions  names, `None`, numeric literals, + - * /, `e ** k` (literal k >= 0), `len(a)`, `np.std(a)`, `np.var(a)`,
               `BSpline(*splrep(..))`, `spline_smooth(..)` (bound against its signature in process.py), `f(a)` on a fitted
               spline, `a if test else b`, `self.x / y / n / sampling_function_supplier / sampling_function_supplier_kwargs`,
               `{}`, `dict()`, `lambda a, b: CubicSpline(a, b)`, the name `CubicSpline` as a supplier,
               `supplier(a, b, **kwargs)`
  tests        `X is None`, `X is not None`, `not test`; plain truthiness `X` only for an optional supplier (a callable is
               truthy; `if s:` on an optional real would drop `s = 0` and is refused)
The last statement of the two `match.py` functions is translated over the values of the locals it reads (`x`, `res_y`, `s`,
..): it must be the only `return`, `res_y` must be assigned exactly once, by the statement right before it; in
`integral_matching_reference_stretch` the other names may only be re-bound by `np.asarray(name)` / `np.array(name)`
(so that `x` *is* the parameter `x`, not `x_ref`); in `_integral_matching_stretch` and `_interval_integral_matching_stretch`,
`x` and `y` are the working locals (in the latter `y` is the array the loop has just filled).
Anything else: the definition is emitted as an alias of its hand model with a note `UNSUPPORTED <fn>: <reason>`.
"""
from __future__ import annotations

import ast
import sys
from pathlib import Path

from .core import LEAN, REPO
from .t3_vector import Unsupported, int_const, lit
from .t3_vector import ident as _ident3

OUT = LEAN / "TWV" / "Generated" / "SmoothGlue.lean"
SRC_DIR = REPO / "src" / "traffic_weaver"
FILES = ("process.py", "match.py", "rfa.py")
REQUIRED = False

TY = {"S": "K", "N": "Nat", "L": "List K", "O": "Option K", "FL": "List K → List K", "ARR": "Nat → K",
      "SUP": "SmoothGlue.Supplier K A", "OSUP": "Option (SmoothGlue.Supplier K A)", "KW": "List A",
      "OKW": "Option (List A)", "F1": "K → K", "SELF": "SmoothGlue.FnAttrs K A"}
NARROW = {"O": "S", "OSUP": "SUP", "OKW": "KW"}
WIDEN = {v: k for k, v in NARROW.items()}
CLASH = {"Gen", "Sv", "SmoothGlue", "Except", "Err", "std", "spline", "cubicSpline", "superInit", "List", "some", "none",
         "Nat", "Option", "powN", "base", "self", "K", "A", "fun", "match", "with", "let"}
ERRS = {"ValueError": "valueError", "IndexError": "indexError", "TypeError": "typeError"}
ATTRS = {"x": ("ARR", "x"), "y": ("ARR", "y"), "n": ("N", "n"),
         "sampling_function_supplier": ("OSUP", "supplier"), "sampling_function_supplier_kwargs": ("KW", "kwargs")}
SETTABLE = {"sampling_function_supplier": ("OSUP", "supplier"), "sampling_function_supplier_kwargs": ("KW", "kwargs")}
SPLREP_SIG = ["x", "y", "w", "xb", "xe", "k", "task", "s", "t", "full_output", "per", "quiet"]
CUBIC_SIG = ["x", "y", "axis", "bc_type", "extrapolate"]
SMOOTH_PARAMS = {"x": "L", "y": "L", "s": "O"}
FN_INIT_PARAMS = {"x": "ARR", "y": "ARR", "n": "N", "sampling_function_supplier": "OSUP",
                  "sampling_function_supplier_kwargs": "OKW"}
CUBIC_INIT_PARAMS = {"x": "ARR", "y": "ARR", "n": "N", "sampling_function_supplier": "OSUP"}
ORACLES_SMOOTH = "(std : List K → K) (spline : SmoothGlue.Spline K)"
ORACLE_CUBIC = "(cubicSpline : (Nat → K) → (Nat → K) → K → K)"
ORACLE_SUPER = "(superInit : Sv.SuperInit K)"


def ident(name):
    if name in CLASH:
        raise Unsupported(f"variable name `{name}` clashes with the generated vocabulary")
    return _ident3(name)


class Val:
    def __init__(self, kind, code=None):
        self.kind = kind
        self.code = code


class Source:
    """one source file: functions, classes, imports"""

    def __init__(self, fname, text):
        self.fname = fname
        self.tree = ast.parse(text)
        self.fns, self.classes, self.dups = {}, {}, set()
        self.imported = {}      # local name -> (module tail, name)
        self.modules = {}       # alias -> module
        for n in self.tree.body:
            if isinstance(n, ast.FunctionDef):
                if n.name in self.fns:
                    self.dups.add(n.name)
                self.fns[n.name] = n
            elif isinstance(n, ast.ClassDef):
                if n.name in self.classes:
                    self.dups.add(n.name)
                self.classes[n.name] = n
            elif isinstance(n, ast.ImportFrom) and n.module:
                for a in n.names:
                    self.imported[a.asname or a.name] = (n.module.split(".")[-1], a.name)
            elif isinstance(n, ast.Import):
                for a in n.names:
                    self.modules[a.asname or a.name] = a.name
            elif isinstance(n, (ast.Assign, ast.AnnAssign, ast.AugAssign)):
                for t in ast.walk(n):
                    if isinstance(t, ast.Name) and isinstance(t.ctx, ast.Store):
                        self.dups.add(t.id)     # a module-level rebinding of a name

    def is_imported(self, name, module, orig=None):
        return (name not in self.fns and name not in self.classes and name not in self.dups
                and self.imported.get(name) == (module, orig or name))

    def is_numpy(self, e):
        return isinstance(e, ast.Name) and self.modules.get(e.id) == "numpy" and e.id not in self.dups

    def method(self, cls, name):
        c = self.classes.get(cls)
        if c is None or cls in self.dups:
            raise Unsupported(f"class {cls} is not defined exactly once in {self.fname}")
        ms = [n for n in c.body if isinstance(n, ast.FunctionDef) and n.name == name]
        if len(ms) != 1:
            raise Unsupported(f"{cls}.{name} is not defined exactly once in {self.fname}")
        return ms[0]


def signature(fn, fname, drop_self=False, allow_kwarg=False):
    """[(name, default node | None)] of a plain positional signature (`**kwargs` of the base constructor is ignored:
    nothing translated here passes a keyword it would collect)"""
    a = fn.args
    if fn.decorator_list:
        raise Unsupported(f"decorated function {fn.name} at {fname}:{fn.lineno}")
    if a.vararg or (a.kwarg and not allow_kwarg) or a.kwonlyargs or a.posonlyargs:
        raise Unsupported(f"signature of {fn.name} at {fname}:{fn.lineno}")
    names = [p.arg for p in a.args]
    defaults = [None] * (len(names) - len(a.defaults)) + list(a.defaults)
    sig = list(zip(names, defaults))
    if drop_self:
        if not sig or sig[0][0] != "self":
            raise Unsupported(f"{fn.name} has no `self` at {fname}:{fn.lineno}")
        sig = sig[1:]
    return sig


def is_none(e):
    return isinstance(e, ast.Constant) and e.value is None


def bind_call(call, names, what, where):
    """positional / keyword arguments of `call` against the parameter names: {name: node}"""
    if any(isinstance(a, ast.Starred) for a in call.args) or any(k.arg is None for k in call.keywords):
        raise Unsupported(f"starred arguments of {what} at {where}")
    if len(call.args) > len(names):
        raise Unsupported(f"too many arguments of {what} at {where}")
    out = dict(zip(names, call.args))
    for k in call.keywords:
        if k.arg not in names or k.arg in out:
            raise Unsupported(f"argument `{k.arg}` of {what} at {where}")
        out[k.arg] = k.value
    return out


class Tr:
    """translation of one unit"""

    def __init__(self, src: Source, sources):
        self.src = src
        self.sources = sources
        self.used = set()

    def where(self, node):
        return f"{self.src.fname}:{getattr(node, 'lineno', '?')}"

    def bad(self, what, node):
        return Unsupported(f"{what} at {self.where(node)}")

    def fresh(self, base):
        name = base
        k = 0
        while name in self.used:
            k += 1
            name = f"{base}_{k}"
        self.used.add(name)
        return name

    # -- coercions ------------------------------------------------------------------------------
    def coerce(self, v: Val, kind, node):
        if v.kind == kind:
            return v.code
        if kind in NARROW:
            if v.kind == NARROW[kind]:
                return f"(some {v.code})"
            if v.kind == "NONE":
                return "none"
        if kind == "S" and v.kind == "N":
            return f"(({v.code} : Nat) : K)"
        raise self.bad(f"a value of kind {v.kind} where {kind} is expected", node)

    def unify(self, a: Val, b: Val, node):
        if a.kind == b.kind:
            if a.kind == "NONE":
                raise self.bad("both branches are None", node)
            return a.kind
        for p, q in ((a, b), (b, a)):
            if p.kind in NARROW and q.kind in (NARROW[p.kind], "NONE"):
                return p.kind
            if p.kind == "NONE" and q.kind in WIDEN:
                return WIDEN[q.kind]
            if p.kind == "S" and q.kind == "N":
                return "S"
        raise self.bad(f"branches of kinds {a.kind} and {b.kind}", node)

    # -- tests on optional values ------------------------------------------------------------------
    def opt_test(self, t, env):
        """(subject node, its Val, True if the test holds when the subject is None)"""
        if isinstance(t, ast.UnaryOp) and isinstance(t.op, ast.Not):
            n, v, when_none = self.opt_test(t.operand, env)
            return n, v, not when_none
        if isinstance(t, ast.Compare) and len(t.ops) == 1 and is_none(t.comparators[0]) \
                and isinstance(t.ops[0], (ast.Is, ast.IsNot)):
            v = self.expr(t.left, env)
            if v.kind not in NARROW:
                raise self.bad(f"`is None` on a value of kind {v.kind}", t)
            return t.left, v, isinstance(t.ops[0], ast.Is)
        if isinstance(t, (ast.Name, ast.Attribute)):
            v = self.expr(t, env)
            if v.kind == "OSUP":
                return t, v, False
            raise self.bad(f"truthiness of a value of kind {v.kind}", t)
        raise self.bad("test", t)

    def narrowed(self, subject, v: Val, env):
        """env for the branch in which the optional subject is not None"""
        base = subject.id if isinstance(subject, ast.Name) else f"self_{ATTRS[subject.attr][1]}"
        name = self.fresh(f"{base}_v")
        e2 = dict(env)
        key = subject.id if isinstance(subject, ast.Name) else ("self", subject.attr)
        e2[key] = Val(NARROW[v.kind], name)
        return name, e2

    # -- expressions ----------------------------------------------------------------------------
    def expr(self, e, env) -> Val:
        if isinstance(e, ast.Name):
            if e.id in env:
                return env[e.id]
            if e.id == "CubicSpline" and self.src.is_imported("CubicSpline", "interpolate"):
                a, b = self.fresh("x_1"), self.fresh("y_1")
                return Val("SUP", f"(fun {a} {b} _ => (cubicSpline {a} {b}))")
            raise self.bad(f"name `{e.id}` is not a parameter or a local translated here", e)
        if isinstance(e, ast.Constant):
            if e.value is None:
                return Val("NONE")
            if isinstance(e.value, (int, float)) and not isinstance(e.value, bool):
                return Val("S", lit(e.value))
            raise self.bad("constant", e)
        if isinstance(e, ast.Attribute):
            if isinstance(e.value, ast.Name) and e.value.id == "self" and "self" in env:
                if ("self", e.attr) in env:
                    return env[("self", e.attr)]
                if e.attr in ATTRS:
                    kind, field = ATTRS[e.attr]
                    return Val(kind, f"{env['self'].code}.{field}")
            raise self.bad("attribute", e)
        if isinstance(e, ast.Dict):
            if e.keys:
                raise self.bad("non-empty dict literal", e)
            return Val("KW", "[]")
        if isinstance(e, ast.BinOp):
            if isinstance(e.op, ast.Pow):
                b = self.expr(e.left, env)
                k = int_const(e.right)
                if k is None or k < 0:
                    raise self.bad("exponent other than a literal natural number", e)
                return Val("S", f"(powN {self.coerce(b, 'S', e.left)} {k})")
            sym = {ast.Add: "+", ast.Sub: "-", ast.Mult: "*", ast.Div: "/"}.get(type(e.op))
            if sym is None:
                raise self.bad("operator", e)
            l, r = self.expr(e.left, env), self.expr(e.right, env)
            for a, b, node in ((l, r, e.right), (r, l, e.left)):    # a count and a natural literal: a count
                k = int_const(node)
                if a.kind == "N" and b.kind == "S" and k is not None and k >= 0 and isinstance(node, ast.Constant):
                    b.kind, b.code = "N", str(k)
            if l.kind == r.kind == "N" and sym in "+*":
                return Val("N", f"({l.code} {sym} {r.code})")
            return Val("S", f"({self.coerce(l, 'S', e.left)} {sym} {self.coerce(r, 'S', e.right)})")
        if isinstance(e, ast.UnaryOp) and isinstance(e.op, ast.USub):
            v = self.expr(e.operand, env)
            return Val("S", f"(-{self.coerce(v, 'S', e.operand)})")
        if isinstance(e, ast.IfExp):
            subject, v, when_none = self.opt_test(e.test, env)
            name, e2 = self.narrowed(subject, v, env)
            n_node, s_node = (e.body, e.orelse) if when_none else (e.orelse, e.body)
            a, b = self.expr(n_node, env), self.expr(s_node, e2)
            kind = self.unify(a, b, e)
            return Val(kind, f"(match {v.code} with\n    | none => {self.coerce(a, kind, n_node)}\n"
                             f"    | some {name} => {self.coerce(b, kind, s_node)})")
        if isinstance(e, ast.Lambda):
            a = e.args
            if a.vararg or a.kwarg or a.kwonlyargs or a.posonlyargs or a.defaults or len(a.args) != 2:
                raise self.bad("lambda other than of two plain parameters", e)
            n1, n2 = self.fresh(ident(a.args[0].arg) + "_1"), self.fresh(ident(a.args[1].arg) + "_1")
            if a.args[0].arg == a.args[1].arg:
                raise self.bad("lambda parameters", e)
            inner = {a.args[0].arg: Val("ARR", n1), a.args[1].arg: Val("ARR", n2)}
            body = self.expr(e.body, inner)
            if body.kind != "F1":
                raise self.bad("lambda that does not return a sampling function", e)
            return Val("SUP", f"(fun {n1} {n2} _ => {body.code})")
        if isinstance(e, ast.Call):
            return self.call(e, env)
        raise self.bad(f"expression {type(e).__name__}", e)

    def call(self, e, env) -> Val:
        f = e.func
        if isinstance(f, ast.Name) and f.id not in env:
            if f.id == "len" and f.id not in self.src.fns and f.id not in self.src.imported:
                if len(e.args) != 1 or e.keywords:
                    raise self.bad("len", e)
                v = self.expr(e.args[0], env)
                if v.kind != "L":
                    raise self.bad(f"len of a value of kind {v.kind}", e)
                return Val("N", f"{v.code}.length")
            if f.id == "dict" and not e.args and not e.keywords:
                return Val("KW", "[]")
            if f.id == "BSpline" and self.src.is_imported("BSpline", "interpolate"):
                if len(e.args) != 1 or e.keywords or not isinstance(e.args[0], ast.Starred):
                    raise self.bad("BSpline other than BSpline(*splrep(..))", e)
                inner = e.args[0].value
                if not (isinstance(inner, ast.Call) and isinstance(inner.func, ast.Name) and inner.func.id == "splrep"
                        and self.src.is_imported("splrep", "interpolate")):
                    raise self.bad("BSpline other than BSpline(*splrep(..))", e)
                b = bind_call(inner, SPLREP_SIG, "splrep", self.where(inner))
                extra = sorted(set(b) - {"x", "y", "s"})
                if extra or "x" not in b or "y" not in b:
                    raise self.bad(f"arguments {extra or 'x, y'} of splrep", inner)
                x, y = self.expr(b["x"], env), self.expr(b["y"], env)
                s = self.expr(b["s"], env) if "s" in b else Val("NONE")
                return Val("FL", f"(spline {self.coerce(x, 'L', b['x'])} {self.coerce(y, 'L', b['y'])} "
                                 f"{self.coerce(s, 'O', b.get('s', inner))})")
            if f.id == "spline_smooth" and self.src.fname != "process.py" \
                    and self.src.is_imported("spline_smooth", "process"):
                proc = self.sources.get("process.py")
                if proc is None or "spline_smooth" not in proc.fns or "spline_smooth" in proc.dups:
                    raise self.bad("spline_smooth is not defined exactly once in process.py", e)
                sig = signature(proc.fns["spline_smooth"], "process.py")
                if sorted(n for n, _ in sig) != sorted(SMOOTH_PARAMS):
                    raise self.bad("parameter list of spline_smooth changed", e)
                b = bind_call(e, [n for n, _ in sig], "spline_smooth", self.where(e))
                args = []
                for n, d in sig:
                    node = b.get(n, d)
                    if node is None:
                        raise self.bad(f"argument `{n}` of spline_smooth is missing", e)
                    args.append(self.coerce(self.expr(node, env), SMOOTH_PARAMS[n], node))
                return Val("FL", f"(Gen.spline_smooth std spline {' '.join(args)})")
            if f.id == "CubicSpline" and self.src.is_imported("CubicSpline", "interpolate"):
                b = bind_call(e, CUBIC_SIG, "CubicSpline", self.where(e))
                if sorted(b) != ["x", "y"]:
                    raise self.bad("arguments of CubicSpline other than (x, y)", e)
                x, y = self.expr(b["x"], env), self.expr(b["y"], env)
                return Val("F1", f"(cubicSpline {self.coerce(x, 'ARR', b['x'])} {self.coerce(y, 'ARR', b['y'])})")
            raise self.bad(f"call of `{f.id}`", e)
        if isinstance(f, ast.Attribute) and self.src.is_numpy(f.value) and f.attr in ("std", "var"):
            if len(e.args) != 1 or e.keywords:
                raise self.bad(f"np.{f.attr} with other arguments than the array", e)
            v = self.expr(e.args[0], env)
            if v.kind != "L":
                raise self.bad(f"np.{f.attr} of a value of kind {v.kind}", e)
            return Val("S", f"(std {v.code})" if f.attr == "std" else f"(Sv.npVar {v.code})")
        fv = self.expr(f, env)
        if fv.kind == "FL":
            if len(e.args) != 1 or e.keywords:
                raise self.bad("arguments of the fitted spline", e)
            a = self.expr(e.args[0], env)
            return Val("L", f"({fv.code} {self.coerce(a, 'L', e.args[0])})")
        if fv.kind == "SUP":
            if len(e.args) != 2 or any(isinstance(a, ast.Starred) for a in e.args):
                raise self.bad("arguments of the supplier", e)
            kws = [k for k in e.keywords if k.arg is None]
            if len(kws) != len(e.keywords) or len(kws) > 1:
                raise self.bad("keyword arguments of the supplier", e)
            a, b = self.expr(e.args[0], env), self.expr(e.args[1], env)
            kw = self.coerce(self.expr(kws[0].value, env), "KW", e) if kws else "[]"
            return Val("F1", f"({fv.code} {self.coerce(a, 'ARR', e.args[0])} {self.coerce(b, 'ARR', e.args[1])} {kw})")
        raise self.bad(f"call of a value of kind {fv.kind}", e)

    # -- statements -----------------------------------------------------------------------------
    @staticmethod
    def body_of(fn):
        body = list(fn.body)
        if body and isinstance(body[0], ast.Expr) and isinstance(body[0].value, ast.Constant) \
                and isinstance(body[0].value.value, str):
            body = body[1:]
        return [s for s in body if not isinstance(s, ast.Pass)]

    def assign(self, name, v: Val, env, lines, ind, node):
        if v.kind == "NONE":
            raise self.bad("assignment of None", node)
        new = self.fresh(f"{ident(name)}_1")
        lines.append(f"{ind}let {new} : {TY[v.kind]} := {v.code}")
        env[name] = Val(v.kind, new)

    def block(self, stmts, env, lines, ind, ret_kind, monadic):
        """statements up to a return / raise; True if every path ended"""
        env = dict(env)
        for i, st in enumerate(stmts):
            rest = stmts[i + 1:]
            if isinstance(st, ast.Assign) and len(st.targets) == 1 and isinstance(st.targets[0], ast.Name):
                self.assign(st.targets[0].id, self.expr(st.value, env), env, lines, ind, st)
            elif isinstance(st, ast.Return):
                if st.value is None:
                    raise self.bad("return without a value", st)
                code = self.coerce(self.expr(st.value, env), ret_kind, st)
                lines.append(f"{ind}.ok {code}" if monadic else f"{ind}{code}")
                if rest:
                    raise self.bad("statements after return", rest[0])
                return True
            elif isinstance(st, ast.Raise):
                exc = st.exc.func if isinstance(st.exc, ast.Call) else st.exc
                if not monadic or not isinstance(exc, ast.Name) or exc.id not in ERRS or st.cause is not None:
                    raise self.bad("raise", st)
                lines.append(f"{ind}.error .{ERRS[exc.id]}")
                if rest:
                    raise self.bad("statements after raise", rest[0])
                return True
            elif isinstance(st, ast.If):
                subject, v, when_none = self.opt_test(st.test, env)
                n_body, s_body = (st.body, st.orelse) if when_none else (st.orelse, st.body)
                # `if X is None: X = e` : a re-binding of X
                if isinstance(subject, ast.Name) and not s_body and len(n_body) == 1 and isinstance(n_body[0], ast.Assign) \
                        and len(n_body[0].targets) == 1 and isinstance(n_body[0].targets[0], ast.Name) \
                        and n_body[0].targets[0].id == subject.id:
                    name, e2 = self.narrowed(subject, v, env)
                    a = self.expr(n_body[0].value, env)
                    if a.kind == "NONE":
                        raise self.bad("assignment of None", st)
                    kind = self.unify(a, e2[subject.id], st)
                    code = (f"(match {v.code} with\n{ind}  | none => {self.coerce(a, kind, st)}\n"
                            f"{ind}  | some {name} => {self.coerce(e2[subject.id], kind, st)})")
                    self.assign(subject.id, Val(kind, code), env, lines, ind, st)
                    continue
                name, e2 = self.narrowed(subject, v, env)
                lines.append(f"{ind}match {v.code} with")
                done = []
                for pat, body, ee in ((f"some {name}", s_body, e2), ("none", n_body, env)):
                    lines.append(f"{ind}| {pat} =>")
                    sub = []
                    ended = self.block(list(body) + ([] if self.ends(body) else list(rest)), ee, sub, ind + "  ",
                                       ret_kind, monadic)
                    if not ended:
                        raise self.bad("a path without return", st)
                    lines.extend(sub)
                    done.append(ended)
                return True
            else:
                raise self.bad(f"statement {type(st).__name__}", st)
        return False

    @staticmethod
    def ends(body):
        return bool(body) and isinstance(body[-1], (ast.Return, ast.Raise))


# ---------------------------------------------------------------------------------------------
# units
# ---------------------------------------------------------------------------------------------

def binders(sig, kinds):
    """binders in the order of the Python signature, same-typed neighbours grouped"""
    out, run, run_t = [], [], None
    for n, _ in sig:
        t = TY[kinds[n]]
        if t != run_t and run:
            out.append(f"({' '.join(run)} : {run_t})")
            run = []
        run_t = t
        run.append(ident(n))
    if run:
        out.append(f"({' '.join(run)} : {run_t})")
    return " ".join(out)


def check_sig(sig, kinds, fname, fn, optional_none=True):
    if sorted(n for n, _ in sig) != sorted(kinds):
        raise Unsupported(f"parameter list of {fn.name} changed at {fname}:{fn.lineno}")
    for n, d in sig:
        if kinds[n] in NARROW:
            if optional_none and not (d is not None and is_none(d)):
                raise Unsupported(f"default of `{n}` is not None at {fname}:{fn.lineno}")
        elif d is not None:
            raise Unsupported(f"parameter `{n}` has a default at {fname}:{fn.lineno}")


def u_spline_smooth(S):
    src = S["process.py"]
    if "spline_smooth" not in src.fns or "spline_smooth" in src.dups:
        raise Unsupported("spline_smooth is not defined exactly once in process.py")
    fn = src.fns["spline_smooth"]
    sig = signature(fn, "process.py")
    check_sig(sig, SMOOTH_PARAMS, "process.py", fn)
    tr = Tr(src, S)
    tr.used |= {ident(n) for n, _ in sig}
    env = {n: Val(SMOOTH_PARAMS[n], ident(n)) for n, _ in sig}
    lines = []
    if not tr.block(Tr.body_of(fn), env, lines, "  ", "FL", False):
        raise Unsupported(f"spline_smooth does not return at process.py:{fn.lineno}")
    return (f"def Gen.spline_smooth {ORACLES_SMOOTH} {binders(sig, SMOOTH_PARAMS)} : List K → List K :=\n"
            + "\n".join(lines))


def tail_unit(S, gen, py, names, strict, result="res_y"):
    """the last statement of a match.py function over the values of the locals it reads"""
    src = S["match.py"]
    if py not in src.fns or py in src.dups:
        raise Unsupported(f"{py} is not defined exactly once in match.py")
    fn = src.fns[py]
    sig = signature(fn, "match.py")
    params = {n: d for n, d in sig}
    for n in names:
        if n != "res_y" and n not in params:
            raise Unsupported(f"parameter `{n}` of {py} is missing at match.py:{fn.lineno}")
    if not is_none(params.get("s")):
        raise Unsupported(f"default of `s` is not None at match.py:{fn.lineno}")
    body = Tr.body_of(fn)
    returns = [n for n in ast.walk(fn) if isinstance(n, ast.Return)]
    nested = [n for st in fn.body for n in ast.walk(st) if isinstance(n, (ast.FunctionDef, ast.Lambda, ast.ClassDef))]
    if nested:
        raise Unsupported(f"nested function in {py} at match.py:{nested[0].lineno}")
    if len(returns) != 1 or not body or body[-1] is not returns[0]:
        raise Unsupported(f"{py} does not end in its only return statement at match.py:{fn.lineno}")
    stores = {}
    for n in ast.walk(fn):
        if isinstance(n, ast.Name) and isinstance(n.ctx, (ast.Store, ast.Del)):
            stores.setdefault(n.id, []).append(n)
    prev = body[-2] if len(body) >= 2 else None
    if result is None:
        pass        # the returned array is the working local (filled by the loop right before)
    elif not (isinstance(prev, ast.Assign) and len(prev.targets) == 1 and isinstance(prev.targets[0], ast.Name)
            and prev.targets[0].id == "res_y" and len(stores.get("res_y", [])) == 1):
        raise Unsupported(f"`res_y` is not assigned exactly once, right before the return, at match.py:{returns[0].lineno}")
    # the other names: only identity conversions `name = np.asarray(name)` (also in tuple form)
    ident_ok = set()
    for st in ast.walk(fn):
        if isinstance(st, ast.Assign) and len(st.targets) == 1:
            t, v = st.targets[0], st.value
            pairs = list(zip(t.elts, v.elts)) if (isinstance(t, ast.Tuple) and isinstance(v, ast.Tuple)
                                                  and len(t.elts) == len(v.elts)) else [(t, v)]
            for tt, vv in pairs:
                if (isinstance(tt, ast.Name) and isinstance(vv, ast.Call) and isinstance(vv.func, ast.Attribute)
                        and src.is_numpy(vv.func.value) and vv.func.attr in ("asarray", "array", "asanyarray")
                        and len(vv.args) == 1 and isinstance(vv.args[0], ast.Name) and vv.args[0].id == tt.id
                        and all(k.arg == "dtype" for k in vv.keywords)):
                    ident_ok.add(id(tt))
    for n in strict:
        for node in stores.get(n, []):
            if id(node) not in ident_ok:
                raise Unsupported(f"`{n}` is re-bound in {py} at match.py:{node.lineno}")
    tr = Tr(src, S)
    kinds = {n: "L" for n in names}
    kinds.update({"alpha": "S", "s": "O"})
    tr.used |= set(names)
    env = {n: Val(kinds[n], ident(n)) for n in names}
    code = tr.coerce(tr.expr(returns[0].value, env), "L", returns[0])
    arrs = " ".join(n for n in names if kinds[n] == "L")
    return (f"def Gen.{gen} {ORACLES_SMOOTH} ({arrs} : List K) (alpha : K) (s : Option K) : List K :=\n  {code}")


def u_match_tail(S):
    return tail_unit(S, "match_final_smooth", "integral_matching_reference_stretch",
                     ["x", "y", "x_ref", "y_ref", "res_y", "alpha", "s"], ["x", "y", "x_ref", "y_ref", "alpha", "s"])


def u_stretch_tail(S):
    return tail_unit(S, "stretch_final_smooth", "_integral_matching_stretch",
                     ["x", "y", "res_y", "alpha", "s"], ["alpha", "s"])


def u_interval_tail(S):
    return tail_unit(S, "interval_final_smooth", "_interval_integral_matching_stretch",
                     ["x", "y", "alpha", "s"], ["alpha", "s"], result=None)


def class_check(src, cls, base, methods):
    c = src.classes.get(cls)
    if c is None or cls in src.dups:
        raise Unsupported(f"class {cls} is not defined exactly once in rfa.py")
    if c.decorator_list or c.keywords or len(c.bases) != 1 or not isinstance(c.bases[0], ast.Name) or c.bases[0].id != base:
        raise Unsupported(f"class {cls} does not derive from {base} alone at rfa.py:{c.lineno}")
    have = sorted(n.name for n in c.body if isinstance(n, ast.FunctionDef))
    if have != sorted(methods):
        raise Unsupported(f"methods of {cls} are {have}, not {sorted(methods)}, at rfa.py:{c.lineno}")
    for n in c.body:
        if isinstance(n, (ast.Assign, ast.AnnAssign, ast.ClassDef)):
            raise Unsupported(f"class attribute in {cls} at rfa.py:{n.lineno}")


def super_call(st):
    """the arguments node of `super().__init__(..)`, else None"""
    if isinstance(st, ast.Expr) and isinstance(st.value, ast.Call):
        f = st.value.func
        if (isinstance(f, ast.Attribute) and f.attr == "__init__" and isinstance(f.value, ast.Call)
                and isinstance(f.value.func, ast.Name) and f.value.func.id == "super" and not f.value.args
                and not f.value.keywords):
            return st.value
    return None


def init_body(tr, fn, env, first_line, lines):
    """`super().__init__(..)` (already emitted as `first_line`), then `self.attr = e`"""
    body = Tr.body_of(fn)
    lines.append(first_line)
    for st in body[1:]:
        if not (isinstance(st, ast.Assign) and len(st.targets) == 1 and isinstance(st.targets[0], ast.Attribute)
                and isinstance(st.targets[0].value, ast.Name) and st.targets[0].value.id == "self"):
            raise tr.bad(f"statement {type(st).__name__} in a constructor", st)
        attr = st.targets[0].attr
        if attr not in SETTABLE:
            raise tr.bad(f"assignment to self.{attr}", st)
        kind, field = SETTABLE[attr]
        code = tr.coerce(tr.expr(st.value, env), kind, st)
        lines.append(f"  let self : SmoothGlue.FnAttrs K A := {{ self with {field} := {code} }}")
    lines.append("  .ok self")


def u_function_init(S):
    src = S["rfa.py"]
    class_check(src, "FunctionRFA", "AbstractRFA", ["__init__", "rfa", "_get_sampling_function"])
    fn = src.method("FunctionRFA", "__init__")
    sig = signature(fn, "rfa.py", drop_self=True)
    check_sig(sig, FN_INIT_PARAMS, "rfa.py", fn)
    parent = signature(src.method("AbstractRFA", "__init__"), "rfa.py", drop_self=True, allow_kwarg=True)
    if sorted(n for n, _ in parent) != ["n", "x", "y"] or any(d is not None for _, d in parent):
        raise Unsupported("parameter list of AbstractRFA.__init__ changed")
    tr = Tr(src, S)
    tr.used |= {ident(n) for n, _ in sig}
    env = {n: Val(FN_INIT_PARAMS[n], ident(n)) for n, _ in sig}
    env["self"] = Val("SELF", "self")
    body = Tr.body_of(fn)
    call = super_call(body[0]) if body else None
    if call is None:
        raise Unsupported(f"FunctionRFA.__init__ does not start with super().__init__(..) at rfa.py:{fn.lineno}")
    b = bind_call(call, [n for n, _ in parent], "AbstractRFA.__init__", tr.where(call))
    if sorted(b) != ["n", "x", "y"]:
        raise tr.bad("arguments of AbstractRFA.__init__", call)
    args = [tr.coerce(tr.expr(b[n], {k: v for k, v in env.items() if k != "self"}), k, b[n])
            for n, k in (("x", "ARR"), ("y", "ARR"), ("n", "N"))]
    lines = []
    init_body(tr, fn, env, f"  (superInit {' '.join(args)}).bind fun base =>\n"
                           f"  let self : SmoothGlue.FnAttrs K A := Sv.baseAttrs base", lines)
    return (f"def Gen.FunctionRFA_init {{A : Type}} {ORACLE_SUPER} {binders(sig, FN_INIT_PARAMS)} : "
            f"Except Err (SmoothGlue.FnAttrs K A) :=\n" + "\n".join(lines))


def u_get_sampling_function(S):
    src = S["rfa.py"]
    class_check(src, "FunctionRFA", "AbstractRFA", ["__init__", "rfa", "_get_sampling_function"])
    fn = src.method("FunctionRFA", "_get_sampling_function")
    if signature(fn, "rfa.py", drop_self=True):
        raise Unsupported(f"parameter list of _get_sampling_function changed at rfa.py:{fn.lineno}")
    tr = Tr(src, S)
    env = {"self": Val("SELF", "self")}
    lines = []
    if not tr.block(Tr.body_of(fn), env, lines, "  ", "F1", True):
        raise Unsupported(f"_get_sampling_function has a path without return at rfa.py:{fn.lineno}")
    return ("def Gen.FunctionRFA_get_sampling_function {A : Type} (self : SmoothGlue.FnAttrs K A) : Except Err (K → K) :=\n"
            + "\n".join(lines))


def cubic_init(S, given):
    src = S["rfa.py"]
    class_check(src, "CubicSplineRFA", "FunctionRFA", ["__init__"])
    class_check(src, "FunctionRFA", "AbstractRFA", ["__init__", "rfa", "_get_sampling_function"])
    fn = src.method("CubicSplineRFA", "__init__")
    sig = signature(fn, "rfa.py", drop_self=True)
    check_sig(sig, CUBIC_INIT_PARAMS, "rfa.py", fn, optional_none=False)
    default = dict(sig)["sampling_function_supplier"]
    if default is None:
        raise Unsupported(f"sampling_function_supplier of CubicSplineRFA has no default at rfa.py:{fn.lineno}")
    parent = signature(src.method("FunctionRFA", "__init__"), "rfa.py", drop_self=True)
    check_sig(parent, FN_INIT_PARAMS, "rfa.py", src.method("FunctionRFA", "__init__"))
    tr = Tr(src, S)
    tr.used |= {ident(n) for n, _ in sig}
    env = {n: Val(CUBIC_INIT_PARAMS[n], ident(n)) for n, _ in sig}
    lines = []
    if given:
        sig_b = sig
    else:
        sig_b = [(n, d) for n, d in sig if n != "sampling_function_supplier"]
        d = tr.coerce(tr.expr(default, {}), "OSUP", default)     # evaluated in the module's scope
        lines.append(f"  let sampling_function_supplier : {TY['OSUP']} := {d}")
    body = Tr.body_of(fn)
    call = super_call(body[0]) if body else None
    if call is None:
        raise Unsupported(f"CubicSplineRFA.__init__ does not start with super().__init__(..) at rfa.py:{fn.lineno}")
    b = bind_call(call, [n for n, _ in parent], "FunctionRFA.__init__", tr.where(call))
    args = []
    for n, dflt in parent:
        node = b.get(n, dflt)
        if node is None:
            raise tr.bad(f"argument `{n}` of FunctionRFA.__init__ is missing", call)
        args.append(tr.coerce(tr.expr(node, env), FN_INIT_PARAMS[n], node))
    env["self"] = Val("SELF", "self")
    init_body(tr, fn, env, f"  (Gen.FunctionRFA_init superInit {' '.join(args)}).bind fun self =>", lines)
    name = "CubicSplineRFA_init_given" if given else "CubicSplineRFA_init_default"
    return (f"def Gen.{name} {{A : Type}} {ORACLE_CUBIC} {ORACLE_SUPER} {binders(sig_b, CUBIC_INIT_PARAMS)} : "
            f"Except Err (SmoothGlue.FnAttrs K A) :=\n" + "\n".join(lines))


SM = "(std : List K → K) (spline : SmoothGlue.Spline K)"
# (Lean name, source file, unit, binders of the fallback, type, fallback)
UNITS = [
    ("spline_smooth", "process.py", u_spline_smooth, f"{SM} (x y : List K) (s : Option K)", "List K → List K",
     "SmoothGlue.splineSmooth spline x y s"),
    ("match_final_smooth", "match.py", u_match_tail,
     f"{SM} (x y x_ref y_ref res_y : List K) (alpha : K) (s : Option K)", "List K",
     "SmoothGlue.finalSmooth spline x res_y s"),
    ("stretch_final_smooth", "match.py", u_stretch_tail, f"{SM} (x y res_y : List K) (alpha : K) (s : Option K)",
     "List K", "SmoothGlue.finalSmooth spline x res_y s"),
    ("interval_final_smooth", "match.py", u_interval_tail, f"{SM} (x y : List K) (alpha : K) (s : Option K)",
     "List K", "SmoothGlue.finalSmooth spline x y s"),
    ("FunctionRFA_init", "rfa.py", u_function_init,
     "{A : Type} (superInit : Sv.SuperInit K) (x y : Nat → K) (n : Nat) "
     "(sampling_function_supplier : Option (SmoothGlue.Supplier K A)) "
     "(sampling_function_supplier_kwargs : Option (List A))", "Except Err (SmoothGlue.FnAttrs K A)",
     "(superInit x y n).bind fun b => .ok { x := b.1, y := b.2.1, n := b.2.2, "
     "supplier := sampling_function_supplier, kwargs := sampling_function_supplier_kwargs.getD [] }"),
    ("FunctionRFA_get_sampling_function", "rfa.py", u_get_sampling_function,
     "{A : Type} (self : SmoothGlue.FnAttrs K A)", "Except Err (K → K)", "SmoothGlue.samplingFunction self"),
    ("CubicSplineRFA_init_default", "rfa.py", lambda S: cubic_init(S, False),
     f"{{A : Type}} {ORACLE_CUBIC} {ORACLE_SUPER} (x y : Nat → K) (n : Nat)", "Except Err (SmoothGlue.FnAttrs K A)",
     "Gen.FunctionRFA_init superInit (x := x) (y := y) (n := n) (sampling_function_supplier := some (SmoothGlue.cubicSupplier cubicSpline)) (sampling_function_supplier_kwargs := none)"),
    ("CubicSplineRFA_init_given", "rfa.py", lambda S: cubic_init(S, True),
     f"{{A : Type}} {ORACLE_CUBIC} {ORACLE_SUPER} (x y : Nat → K) (n : Nat) "
     "(sampling_function_supplier : Option (SmoothGlue.Supplier K A))", "Except Err (SmoothGlue.FnAttrs K A)",
     "Gen.FunctionRFA_init superInit (x := x) (y := y) (n := n) (sampling_function_supplier := sampling_function_supplier) (sampling_function_supplier_kwargs := none)"),
]

HEADER = [
    "import TWV.Model.SmoothVocab", "",
    "/-! GENERATED by harness/t15_smoothglue.py from src/traffic_weaver/process.py (`spline_smooth`), match.py (the last"
    " statement of `integral_matching_reference_stretch`, `_integral_matching_stretch` and"
    " `_interval_integral_matching_stretch`) and rfa.py"
    " (`FunctionRFA.__init__`, `_get_sampling_function`, `CubicSplineRFA.__init__`) — do not edit. -/", "",
    "set_option linter.unusedVariables false", "",
    "namespace TWV", "",
    "variable {K : Type} [Add K] [Sub K] [Mul K] [Div K] [Neg K] [Zero K] [One K] [NatCast K]",
    "  [LT K] [LE K] [DecidableLT K] [DecidableLE K] [DecidableEq K]", "",
]


def read_sources(src_dir=None):
    d = Path(src_dir) if src_dir is not None else SRC_DIR
    out = {}
    for f in FILES:
        try:
            out[f] = (d / f).read_text()
        except OSError:
            out[f] = None
    return out


def generate(sources=None):
    """sources: {file name: text}; files not given are read from /repo's working tree"""
    texts = read_sources()
    if sources:
        texts.update({k: v for k, v in sources.items() if v is not None})
    parsed, broken = {}, {}
    for f in FILES:
        if texts.get(f) is None:
            broken[f] = f"source file {f} is missing"
            continue
        try:
            parsed[f] = Source(f, texts[f])
        except SyntaxError as e:
            broken[f] = f"syntax error at {f}:{e.lineno}"
    out = list(HEADER)
    notes = []
    for gen, f, unit, fb_binders, ty, fallback in UNITS:
        needs = {f} | ({"process.py"} if f == "match.py" else set())
        reason = next((broken[n] for n in sorted(needs) if n in broken), None)
        if reason is None:
            try:
                out.append(unit(parsed))
            except Unsupported as e:
                reason = str(e)
            except RecursionError:
                reason = "expression too deep"
        if reason is not None:
            notes.append(f"UNSUPPORTED {gen}: {reason}")
            out.append(f"/- T15 cannot translate `{gen}` ({reason}); alias of the hand model. -/\n"
                       f"def Gen.{gen} {fb_binders} : {ty} :=\n  {fallback}")
        out.append("")
    out += ["end TWV", ""]
    return "\n".join(out), notes


def regenerate(sources=None, out=None):
    text, notes = generate(sources)
    out = Path(out) if out is not None else OUT
    out.parent.mkdir(parents=True, exist_ok=True)
    changed = (not out.exists()) or out.read_text() != text
    if changed:
        out.write_text(text)
    note = "; ".join(notes) if notes else f"all {len(UNITS)} smoothing / supplier definitions translated"
    if notes:
        note += " (aliased to the hand model: their ties hold trivially)"
    return f"{note} ({'rewritten' if changed else 'unchanged'})"


def main(argv):
    """python -m harness.t15_smoothglue [--src-dir DIR] [--stdout] [--out FILE]   (DIR holds process.py / match.py / rfa.py;
    a file that is missing there is read from /repo)"""
    src_dir, to_stdout, out = None, False, None
    it = iter(argv)
    for a in it:
        if a == "--src-dir":
            src_dir = next(it)
        elif a == "--out":
            out = next(it)
        elif a == "--stdout":
            to_stdout = True
        else:
            print(main.__doc__)
            return 2
    sources = read_sources(src_dir) if src_dir is not None else None
    if to_stdout:
        text, notes = generate(sources)
        print(text)
        for n in notes:
            print("--", n)
    else:
        print(regenerate(sources, out))
    return 0


if __name__ == "__main__":
    sys.exit(main(sys.argv[1:]))
