"""Translator T9: the *content* of the methods of `class Weaver`
(/repo/src/traffic_weaver/weaver.py, Python AST) -> lean/TWV/Generated/WeaverStep.lean

T6 (`t6_effects.py`) ties the ORDER of the effects of every method; it is blind to what is computed.  T9 emits,
for every state-changing method, a Lean definition `GenW.<method> (self : Wv.Attrs K) <arguments> : Wv.Res K` that
threads the record of instance attributes through the statements of the method in program order, in the
vocabulary of `TWV/Model/WeaverVocab.lean`; `TWV/Tie/WeaverStep.lean` proves each of them equal to the hand-written
state machine `Weaver.step` (`TWV/Model/Weaver.lean`) for ALL states and arguments (and `__init__` to `Weaver.init`,
`slice_by_index` to `Weaver.sliceByIndex`).

Statements (program order)
  `self.a = e`                        -> `let self := { self with a := e }`
  `self.a, self.b = e`                -> one record update (the right-hand side is evaluated before any store);
                                         mixed / repeated targets go through temporaries
  `name = e`, `n1, n2 = e`            -> `let`
  `self.s op= e` (a scalar attribute) -> `self.s = self.s op e`;  on an array attribute: UNSUPPORTED (in place)
  `if c: raise E(..)`, `raise E(..)`  -> `Wv.raise self .e` (the attributes assigned so far are kept)
  `if c: A else: B`                   -> decided by the specialisation (`x is None` for a parameter the
                                         specialisation fixes), or `if c then A;rest else B;rest`
  `if p is None: p = e`               -> `let p := Option.getD p e` (an optional integer parameter)
  `return self`                       -> `Wv.done self` (`__init__`: at the end, every attribute must be assigned)
  `return e1, e2` (read-only methods) -> `.ok (e1, e2)`
  a call that can fail                -> `Wv.bindE self (call) fun r =>` before the statement it occurs in
  `a[k]` (literal k)                  -> the guard `Wv.bindE self (Wv.checkIdx a k) fun _ =>` before the statement
                                         (IndexError on a short array), then `Wv.first` / `Wv.last` / `Wv.idx`
Expressions
  `self.attr`, parameters, locals, numeric / string / bool literals, `len(a)`, `a op s`, `s op a`, `s op s`
  (+ - * /; array with array is UNSUPPORTED), unary minus, `a[k]`, `a[lo:hi]` (-> `Wv.slice`, only where
  `if lo < 0: raise` precedes: the domain of `Weaver.pySlice`), `a[lo:hi:step]` (-> `Wv.sliceStep`, read-only methods),
  `a.copy()`, `np.asarray(a)` / `np.array(a)`, `np.linspace(s, s, n)`, `np.arange(n)` / `np.arange(stop=n)`, tuples,
  comparisons, `and` / `or` / `not`, `p is None` / `p is not None`.
Library calls: a fixed calling-convention table (`CALLEES`: resolved callee -> vocabulary function, parameter
  names / kinds / defaults in the callee's order, so positional and keyword arguments are interchangeable; which
  ORACLE parameters of the generated definition the call consumes).  External results (SciPy, the noise draw, the
  RFA windows) are oracle parameters; `**kwargs` pass-through is what selects them, so a callee that takes an
  oracle must be given the method's `**kwargs`, an opaque argument (`snr`, `s`) must be passed on verbatim, and an
  oracle is used at most once.  Callee names are resolved through the module's `from .x import y` statements.
Anything else: the method is emitted as an alias of the hand model with the note `UNSUPPORTED <fn>: <reason>`.

NOT seen: aliasing between the object's arrays and the caller's (`self.x = new_x` stores the very array; only
`self.a = self.b` between two attributes is refused), dtype, what the callees do (T8, T10, T11), `**kwargs` contents.
"""
from __future__ import annotations

import ast
import sys
from pathlib import Path

from .core import LEAN, REPO
from .t3_vector import Unsupported, lit
from .t3_vector import ident as _ident3

OUT = LEAN / "TWV" / "Generated" / "WeaverStep.lean"
SRC_DIR = REPO / "src" / "traffic_weaver"
SRCNAME = "weaver.py"
CLASS = "Weaver"
PACKAGE = "traffic_weaver"
REQUIRED = False

# kinds of values
V, S, N, I, B, STR, F = "V", "S", "N", "I", "B", "STR", "F"
OPQ, CLS, OPTI, C, T, SPL, KW, ORA = "OPQ", "CLS", "OPTI", "C", "T", "SPL", "KW", "ORA"
NP = ("numpy",)
EXTRA_CLASH = {"Wv", "GenW", "Weaver", "Process", "Rfa", "self"}
ATTRS = {"x": V, "y": V, "original_x": V, "original_y": V, "reference_x": V, "reference_y": V,
         "x_scale": S, "y_scale": S}
ERRS = {"ValueError": ".valueError", "IndexError": ".indexError", "TypeError": ".typeError",
        "ZeroDivisionError": ".zeroDivision", "AttributeError": ".attributeError"}
FN3 = "List K → List K → List K → List K"


def ident(name):
    if name in EXTRA_CLASH:
        raise Unsupported(f"variable name `{name}` clashes with the generated vocabulary")
    return _ident3(name)


def lean_str(s):
    if not all(32 <= ord(ch) < 127 and ch not in '"\\' for ch in s):
        raise Unsupported("string literal with special characters")
    return '"' + s + '"'


class Val:
    def __init__(self, kind, code=None, value=None, elts=None, literal=None, meta=None):
        self.kind, self.code, self.value, self.elts, self.literal, self.meta = kind, code, value, elts, literal, meta


class Callee:
    def __init__(self, lean, params, ret, kwargs=False, oracles=()):
        self.lean = lean          # vocabulary function
        self.params = params      # [(name, kind, default Lean term | None)] in the callee's order
        self.ret = ret            # V | VV | EV | EVV | SPL
        self.kwargs = kwargs      # the call must hand on the method's **kwargs
        self.oracles = oracles    # oracle parameters of the generated definition appended to the call


CALLEES = {
    "sorted_array_utils.append_one_sample": Callee(
        "Wv.append_one_sample", [("x", V, None), ("y", V, None), ("make_periodic", B, "false")], "EVV"),
    "process.repeat": Callee("Wv.repeat", [("x", V, None), ("y", V, None), ("repeats", N, None)], "VV"),
    "process.trend": Callee(
        "Wv.trend", [("x", V, None), ("y", V, None), ("fun", F, None), ("normalized", B, "false")], "VV"),
    "process.truncate": Callee(
        "Wv.truncate", [("x", V, None), ("y", V, None), ("x_left", S, None), ("x_right", S, None),
                        ("x_left_as_ratio", B, "false"), ("x_right_as_ratio", B, "false")], "EVV"),
    "process.normalize": Callee(
        "Wv.normalize", [("a", V, None), ("min_val", S, "(0 : K)"), ("max_val", S, "(1 : K)")], "V"),
    "process.interpolate": Callee(
        "Wv.interpolate", [("x", V, None), ("y", V, None), ("new_x", V, None), ("method", STR, '"linear"')], "EV",
        kwargs=True, oracles=("scipy",)),
    "process.noise_gauss": Callee(
        "Wv.noise_gauss", [("a", V, None), ("snr", OPQ, None), ("snr_in_db", ORA, None), ("std", ORA, None)], "V",
        kwargs=True, oracles=("draw",)),
    "process.spline_smooth": Callee(
        "Wv.spline_eval", [("x", V, None), ("y", V, None), ("s", OPQ, None)], "SPL", oracles=("spline",)),
    "match.integral_matching_reference_stretch": Callee(
        "Wv.integral_match",
        [("x", V, None), ("y", V, None), ("x_ref", V, None), ("y_ref", V, None),
         ("fixed_points_in_x", ORA, None), ("fixed_points_indices_in_x", ORA, None),
         ("fixed_points_finding_strategy", ORA, None),
         ("target_function_integral_method", STR, '"trapezoid"'),
         ("reference_function_integral_method", STR, '"rectangle"'), ("alpha", ORA, None), ("s", ORA, None)],
        "EV", kwargs=True, oracles=("pw", "fpx", "fpi", "strategy")),
}
# `rfa_class(x, y, n, **kwargs).rfa()`: the class is a parameter; two oracle conventions
RFA_PARAMS = [("x", V, None), ("y", V, None), ("n", I, None)]
RFA_MODES = {
    "windows": ("Wv.rfa", ("strategy", "pw", "aL", "aR", "bL", "bR")),
    "ext": ("Wv.rfa_ext", ("sample",)),
}


class Spec:
    def __init__(self, gen, py, params, binders, fallback, oracles=(), kwargs=False, rfa=None, init=None, ret="RES"):
        self.gen, self.py, self.params, self.binders, self.fallback = gen, py, params, binders, fallback
        self.oracles, self.kwargs, self.rfa, self.init, self.ret = oracles, kwargs, rfa, init, ret


def step(op):
    return f"Wv.Res.ofStep self (Weaver.step self.toState ({op}))"


SPECS = [
    Spec("init_x_none", "__init__", {"x": ("STATIC", None), "y": V}, "(y : List K)",
         "Wv.Res.ofExcept { Wv.Attrs.blank [] y with x_scale := 1, y_scale := 1 } (Weaver.init none y)", init="Wv.Attrs.blank [] y"),
    Spec("init_x_given", "__init__", {"x": V, "y": V}, "(x y : List K)",
         "Wv.Res.ofExcept { Wv.Attrs.blank x y with x_scale := 1, y_scale := 1 } (Weaver.init (some x) y)", init="Wv.Attrs.blank x y"),
    Spec("restore_original", "restore_original", {}, "", step(".restore")),
    Spec("append_one_sample", "append_one_sample", {"make_periodic": B}, "(make_periodic : Bool)",
         step(".appendOne make_periodic")),
    Spec("slice_by_index", "slice_by_index", {"start": I, "stop": OPTI, "step": N},
         "(start : Int) (stop : Option Int) (step : Nat)",
         "Weaver.sliceByIndex self.toState start stop step", ret="XVV"),
    Spec("interpolate_n", "interpolate", {"n": N, "new_x": ("STATIC", None), "method": STR},
         f"(n : Nat) (method : String) (scipy : {FN3})",
         step(".interpN n method (scipy self.x self.y (Wv.linspace (Wv.first self.x) (Wv.last self.x) n))"),
         oracles=("scipy",), kwargs=True),
    Spec("interpolate_new_x", "interpolate", {"n": ("STATIC", None), "new_x": V, "method": STR},
         f"(new_x : List K) (method : String) (scipy : {FN3})",
         step(".interpX new_x method (scipy self.x self.y new_x)"), oracles=("scipy",), kwargs=True),
    Spec("recreate_from_average", "recreate_from_average", {"n": I, "rfa_class": CLS},
         "(n : Int) (strategy : String) (pw : K → K) (aL aR bL bR : List Nat)",
         step(".recreate strategy pw n aL aR bL bR"),
         oracles=("strategy", "pw", "aL", "aR", "bL", "bR"), kwargs=True, rfa="windows"),
    Spec("recreate_from_average_ext", "recreate_from_average", {"n": I, "rfa_class": CLS},
         "(n : Int) (sample : List K → List K → Int → List K)",
         step(".recreateExt n (sample self.x self.y n)"), oracles=("sample",), kwargs=True, rfa="ext"),
    Spec("integral_match", "integral_match",
         {"target_function_integral_method": STR, "reference_function_integral_method": STR},
         "(target_function_integral_method reference_function_integral_method : String) (pw : K → K) "
         "(fpx : Option (List K)) (fpi : Option (List Nat)) (strategy : String)",
         step(".integralMatch pw fpx fpi strategy target_function_integral_method "
              "reference_function_integral_method"),
         oracles=("pw", "fpx", "fpi", "strategy"), kwargs=True),
    Spec("noise", "noise", {"snr": OPQ}, "(draw : List K → List K)", step(".noise (draw self.y)"),
         oracles=("draw",), kwargs=True),
    Spec("repeat", "repeat", {"n": N}, "(n : Nat)", step(".repeat n")),
    Spec("trend", "trend", {"trend_func": F, "normalized": B}, "(trend_func : K → K) (normalized : Bool)",
         "Wv.done { self with y := (Wv.trend self.x self.y trend_func normalized).2 }"),
    Spec("smooth", "smooth", {"s": OPQ}, f"(spline : {FN3})", step(".smooth (spline self.x self.y self.x)"),
         oracles=("spline",)),
    Spec("scale_x", "scale_x", {"scale": S}, "(scale : K)",
         "Wv.done { self with x_scale := self.x_scale * scale, x := self.x.map (· * scale), "
         "reference_x := self.reference_x.map (· * scale) }"),
    Spec("scale_y", "scale_y", {"scale": S}, "(scale : K)",
         "Wv.done { self with y_scale := self.y_scale * scale, y := self.y.map (· * scale), "
         "reference_y := self.reference_y.map (· * scale) }"),
    Spec("shift_x", "shift_x", {"shift": S}, "(shift : K)", step(".shiftX shift")),
    Spec("shift_y", "shift_y", {"shift": S}, "(shift : K)", step(".shiftY shift")),
    Spec("normalize_x", "normalize_x", {"min_val": S, "max_val": S}, "(min_val max_val : K)",
         step(".normX min_val max_val")),
    Spec("normalize_y", "normalize_y", {"min_val": S, "max_val": S}, "(min_val max_val : K)",
         step(".normY min_val max_val")),
    Spec("truncate_by_value", "truncate_by_value",
         {"x_left": S, "x_right": S, "x_left_as_ratio": B, "x_right_as_ratio": B},
         "(x_left x_right : K) (x_left_as_ratio x_right_as_ratio : Bool)",
         step(".truncV x_left x_right x_left_as_ratio x_right_as_ratio")),
    Spec("truncate_by_index", "truncate_by_index", {"start": I, "stop": OPTI},
         "(start : Int) (stop : Option Int)", step(".truncI start stop")),
]

SYM = {ast.Add: "+", ast.Sub: "-", ast.Mult: "*", ast.Div: "/"}
VS = {ast.Add: ("addS", "sadd"), ast.Sub: ("subS", "ssub"), ast.Mult: ("mulS", "smul"), ast.Div: ("divS", "sdiv")}
IDENTITY_NP = ("asarray", "array", "asanyarray", "ascontiguousarray")


def is_docstring(st):
    return isinstance(st, ast.Expr) and isinstance(st.value, ast.Constant) and isinstance(st.value.value, str)


class State:
    """what is known along one path of the method"""

    def __init__(self, env, assigned=frozenset(), used=frozenset(), nonneg=frozenset()):
        self.env, self.assigned, self.used, self.nonneg = env, assigned, used, nonneg

    def with_(self, **kw):
        d = dict(env=self.env, assigned=self.assigned, used=self.used, nonneg=self.nonneg)
        d.update(kw)
        return State(**d)


class MethodTranslator:
    def __init__(self, spec: Spec, fn: ast.FunctionDef, aliases):
        self.spec, self.fn, self.aliases = spec, fn, aliases
        self.recv = None
        self.tmp = 0
        self.pre = []      # lines to emit before the statement being translated (guards, binds, lets)
        self.guards = set()
        self.locals = set()

    # -- diagnostics ---------------------------------------------------------------------------------
    def where(self, node):
        return f"{SRCNAME}:{getattr(node, 'lineno', '?')}"

    def bad(self, what, node):
        return Unsupported(f"{what} at {self.where(node)}")

    def fresh(self):
        self.tmp += 1
        return f"r{self.tmp}"

    # -- coercions -----------------------------------------------------------------------------------
    def to_S(self, v: Val, node):
        if v.kind == S:
            return v.code
        if v.kind == N:
            return lit(v.literal) if v.literal is not None else f"(({v.code} : Nat) : K)"
        if v.kind == I and v.literal is not None:
            return lit(v.literal)
        raise self.bad("a real number is expected", node)

    def to_I(self, v: Val, node):
        if v.kind == I:
            return v.code
        if v.kind == N:
            return f"({v.literal} : Int)" if v.literal is not None else f"(({v.code} : Nat) : Int)"
        raise self.bad("an integer is expected", node)

    def to_kind(self, v: Val, kind, node, what):
        if kind == V:
            if v.kind == V:
                return v.code
        elif kind == S:
            return self.to_S(v, node)
        elif kind == N:
            if v.kind == N:
                return v.code
        elif kind == I:
            return self.to_I(v, node)
        elif kind in (B, STR, F):
            if v.kind == kind:
                return v.code
        raise self.bad(f"{what}: a value of kind {kind} is expected, found {v.kind}", node)

    # -- names ---------------------------------------------------------------------------------------
    def resolve(self, e, st: State):
        """dotted original name of a callee (imports resolved), None when it is a local / unknown"""
        if isinstance(e, ast.Name):
            if e.id in st.env or e.id in self.locals or e.id == self.recv:
                return None
            return self.aliases.get(e.id)
        if isinstance(e, ast.Attribute):
            base = self.resolve(e.value, st)
            return None if base is None else base + "." + e.attr
        return None

    def is_self(self, e):
        return isinstance(e, ast.Name) and e.id == self.recv

    def self_attr(self, e):
        if isinstance(e, ast.Attribute) and self.is_self(e.value):
            return e.attr
        return None

    # -- guards / binds ------------------------------------------------------------------------------
    def guard(self, code, k):
        key = (code, "nonempty" if k in (0, -1) else k)
        if key in self.guards:
            return
        self.guards.add(key)
        self.pre.append(f"Wv.bindE self (Wv.checkIdx {code} ({k})) fun _ =>")

    # -- tests ---------------------------------------------------------------------------------------
    def test(self, e, st: State):
        """True / False when the specialisation decides the test, else a Lean proposition"""
        if isinstance(e, ast.Constant) and isinstance(e.value, bool):
            return e.value
        if isinstance(e, ast.UnaryOp) and isinstance(e.op, ast.Not):
            r = self.test(e.operand, st)
            return (not r) if isinstance(r, bool) else f"(¬ {r})"
        if isinstance(e, ast.BoolOp):
            is_and = isinstance(e.op, ast.And)
            parts = []
            for k, v in enumerate(e.values):
                before = set(self.guards)
                r = self.test(v, st)
                if parts and self.guards - before:
                    raise self.bad("an index that is only evaluated when the left operand does not decide", v)
                if isinstance(r, bool):
                    if r != is_and:          # False in `and`, True in `or`: decided (operands so far are pure)
                        return r
                    continue
                parts.append(r)
            if not parts:
                return is_and
            return parts[0] if len(parts) == 1 else "(" + (" ∧ " if is_and else " ∨ ").join(parts) + ")"
        if isinstance(e, ast.Name) and e.id in st.env and st.env[e.id].kind == B:
            return f"({st.env[e.id].code} = true)"
        if isinstance(e, ast.Compare) and len(e.ops) == 1:
            op, left, right = e.ops[0], e.left, e.comparators[0]
            if isinstance(op, (ast.Is, ast.IsNot)):
                if not (isinstance(right, ast.Constant) and right.value is None):
                    raise self.bad("identity comparison", e)
                if not (isinstance(left, ast.Name) and left.id in st.env):
                    raise self.bad("`is None` of something that is not a parameter / local", e)
                v = st.env[left.id]
                if v.kind == C:
                    is_none = v.value is None
                elif v.kind in (V, S, N, I, B, STR, F):
                    is_none = False
                else:
                    raise self.bad(f"`{left.id} is None` is not decided by the specialisation", e)
                return is_none if isinstance(op, ast.Is) else not is_none
            ops = {ast.Eq: "=", ast.NotEq: "≠", ast.Lt: "<", ast.LtE: "≤", ast.Gt: ">", ast.GtE: "≥"}
            if type(op) in ops:
                a, b = self.ex(left, st), self.ex(right, st)
                sym = ops[type(op)]
                if a.kind == N and b.kind == N:
                    return f"({a.code} {sym} {b.code})"
                if a.kind in (N, I) and b.kind in (N, I):
                    return f"(({self.to_I(a, e)} : Int) {sym} {self.to_I(b, e)})"
                if a.kind in (S, N) and b.kind in (S, N):
                    return f"({self.to_S(a, e)} {sym} {self.to_S(b, e)})"
                if a.kind == STR and b.kind == STR and isinstance(op, (ast.Eq, ast.NotEq)):
                    return f"({a.code} {sym} {b.code})"
        raise self.bad(f"test `{ast.unparse(e)[:48]}`", e)

    # -- expressions ---------------------------------------------------------------------------------
    def binop(self, op, a: Val, b: Val, node):
        if type(op) not in SYM:
            raise self.bad(f"operator {type(op).__name__}", node)
        num = (S, N, I)
        if a.kind in num and b.kind in num:
            if a.kind == N and b.kind == N and isinstance(op, (ast.Add, ast.Mult)):
                return Val(N, f"({a.code} {SYM[type(op)]} {b.code})")
            if a.kind in (N, I) and b.kind in (N, I) and not isinstance(op, ast.Div):
                return Val(I, f"({self.to_I(a, node)} {SYM[type(op)]} {self.to_I(b, node)})")
            return Val(S, f"({self.to_S(a, node)} {SYM[type(op)]} {self.to_S(b, node)})")
        if a.kind == V and b.kind in num:
            return Val(V, f"(Wv.{VS[type(op)][0]} {a.code} {self.to_S(b, node)})")
        if a.kind in num and b.kind == V:
            return Val(V, f"(Wv.{VS[type(op)][1]} {self.to_S(a, node)} {b.code})")
        if a.kind == V and b.kind == V:
            raise self.bad("arithmetic between two arrays (lengths / broadcasting)", node)
        raise self.bad("arithmetic on values of these kinds", node)

    def int_lit(self, e):
        if isinstance(e, ast.Constant) and isinstance(e.value, int) and not isinstance(e.value, bool):
            return e.value
        if isinstance(e, ast.UnaryOp) and isinstance(e.op, ast.USub):
            k = self.int_lit(e.operand)
            return None if k is None else -k
        return None

    def subscript(self, e, st: State):
        v = self.ex(e.value, st)
        if v.kind != V:
            raise self.bad("index / slice of a value that is not a 1-D array", e)
        sl = e.slice
        if isinstance(sl, ast.Slice):
            if sl.lower is None:
                lo = "(0 : Int)"
            else:
                k = self.int_lit(sl.lower)
                ok = (k is not None and k >= 0) or (isinstance(sl.lower, ast.Name) and sl.lower.id in st.nonneg)
                if not ok:
                    raise self.bad("slice whose lower bound is not known to be non-negative", e)
                lo = self.to_I(self.ex(sl.lower, st), e)
            hi = f"(({v.code}.length : Nat) : Int)" if sl.upper is None else self.to_I(self.ex(sl.upper, st), e)
            if sl.step is not None:
                if self.spec.ret != "XVV":
                    raise self.bad("slice step", e)
                step = self.ex(sl.step, st)
                if step.kind != N:
                    raise self.bad("slice step that is not a count", e)
                return Val(V, f"(Wv.sliceStep {v.code} {lo} {hi} {step.code})")
            return Val(V, f"(Wv.slice {v.code} {lo} {hi})")
        k = self.int_lit(sl)
        if k is None:
            raise self.bad("index that is not an integer literal", e)
        self.guard(v.code, k)
        if k == 0:
            return Val(S, f"(Wv.first {v.code})")
        if k == -1:
            return Val(S, f"(Wv.last {v.code})")
        return Val(S, f"(Wv.idx {v.code} ({k}))")

    def map_args(self, call, params, st: State, what):
        """arguments of a call by the callee's parameter names; `**kwargs` -> key None"""
        given, star = {}, False
        names = [p[0] for p in params]
        if len(call.args) > len(names):
            raise self.bad(f"{what}: too many positional arguments", call)
        for a, n in zip(call.args, names):
            if isinstance(a, ast.Starred):
                raise self.bad(f"{what}: starred argument", call)
            given[n] = a
        for kw in call.keywords:
            if kw.arg is None:
                if not (isinstance(kw.value, ast.Name) and kw.value.id in st.env and st.env[kw.value.id].kind == KW):
                    raise self.bad(f"{what}: `**` of something that is not the method's **kwargs", call)
                if star:
                    raise self.bad(f"{what}: `**kwargs` twice", call)
                star = True
                continue
            if kw.arg not in names:
                raise self.bad(f"{what}: keyword argument `{kw.arg}`", call)
            if kw.arg in given:
                raise self.bad(f"{what}: argument `{kw.arg}` given twice", call)
            given[kw.arg] = kw.value
        return given, star

    def lib_call(self, name, callee: Callee, call, st: State, lean=None, oracles=None):
        lean = lean or callee.lean
        oracles = callee.oracles if oracles is None else oracles
        given, star = self.map_args(call, callee.params, st, name)
        needs_kwargs = callee.kwargs
        if needs_kwargs and not star:
            raise self.bad(f"{name}: the method's **kwargs are not handed on (the oracle convention assumes they are)",
                           call)
        if star and not needs_kwargs:
            raise self.bad(f"{name}: `**kwargs` handed to a callee whose convention has none", call)
        args = []
        for pname, kind, default in callee.params:
            if kind == ORA:
                if pname in given:
                    raise self.bad(f"{name}: argument `{pname}` is covered by an oracle parameter", call)
                continue
            if kind == OPQ:
                a = given.get(pname)
                if not (isinstance(a, ast.Name) and a.id in st.env and st.env[a.id].kind == OPQ and a.id == pname):
                    raise self.bad(f"{name}: the opaque argument `{pname}` must be the method's parameter `{pname}`, "
                                   f"passed on unchanged", call)
                continue
            if pname in given:
                v = self.ex(given[pname], st)
                args.append(self.to_kind(v, kind, given[pname], f"{name}: argument `{pname}`"))
            elif default is not None:
                args.append(default)
            else:
                raise self.bad(f"{name}: argument `{pname}` is missing", call)
        for o in oracles:
            if o not in self.spec.oracles:
                raise self.bad(f"{name}: needs the oracle `{o}`, which this method does not have", call)
            if o in self.used_now:
                raise self.bad(f"{name}: the oracle `{o}` would be used twice", call)
            self.used_now.add(o)
        return lean, args, list(oracles)

    def emit_call(self, lean, args, oracles, ret, node):
        code = f"{lean} " + " ".join(args + oracles)
        if ret in ("EV", "EVV"):
            r = self.fresh()
            self.pre.append(f"Wv.bindE self ({code}) fun {r} =>")
            if ret == "EV":
                return Val(V, r)
            return Val(T, r, elts=[Val(V, f"{r}.1"), Val(V, f"{r}.2")])
        if ret == "VV":
            r = self.fresh()
            self.pre.append(f"let {r} := {code}")
            return Val(T, r, elts=[Val(V, f"{r}.1"), Val(V, f"{r}.2")])
        if ret == "V":
            return Val(V, f"({code})")
        raise self.bad("call result", node)

    def call(self, e, st: State):
        f = e.func
        # spline_smooth(x, y, s=s)(t)
        if isinstance(f, ast.Call):
            inner = self.ex(f, st)
            if inner.kind != SPL:
                raise self.bad("call of a call result", e)
            if len(e.args) != 1 or e.keywords:
                raise self.bad("spline object called with other than one argument", e)
            t = self.ex(e.args[0], st)
            if t.kind != V:
                raise self.bad("spline object evaluated at something that is not an array", e)
            lean, args, oracles = inner.meta
            return Val(V, f"({lean} {' '.join(oracles + args + [t.code])})")
        # rfa_class(x, y, n, **kwargs).rfa()
        if isinstance(f, ast.Attribute) and isinstance(f.value, ast.Call) and isinstance(f.value.func, ast.Name) \
                and f.value.func.id in st.env and st.env[f.value.func.id].kind == CLS:
            if f.attr != "rfa" or e.args or e.keywords:
                raise self.bad(f"method .{f.attr}() of the RFA object", e)
            if self.spec.rfa is None:
                raise self.bad("RFA class outside recreate_from_average", e)
            lean, oracles = RFA_MODES[self.spec.rfa]
            callee = Callee(lean, RFA_PARAMS, "EVV", kwargs=True, oracles=oracles)
            lean, args, oracles = self.lib_call(f.value.func.id, callee, f.value, st)
            return self.emit_call(lean, args, oracles, "EVV", e)
        name = self.resolve(f, st)
        if name is not None and name in CALLEES:
            callee = CALLEES[name]
            lean, args, oracles = self.lib_call(name, callee, e, st)
            if callee.ret == "SPL":
                return Val(SPL, meta=(lean, args, oracles))
            return self.emit_call(lean, args, oracles, callee.ret, e)
        if name is not None and name.split(".")[0] in NP and name.count(".") == 1:
            return self.np_call(name.split(".")[1], e, st)
        if isinstance(f, ast.Attribute) and f.attr == "copy" and not e.args and not e.keywords:
            v = self.ex(f.value, st)
            if v.kind == V:
                return Val(V, v.code, meta="copy")
            raise self.bad(".copy() of a value that is not an array", e)
        if isinstance(f, ast.Name) and f.id == "len" and f.id not in st.env and f.id not in self.aliases \
                and len(e.args) == 1 and not e.keywords:
            v = self.ex(e.args[0], st)
            if v.kind == V:
                return Val(N, f"{v.code}.length")
            raise self.bad("len of a value that is not an array", e)
        raise self.bad(f"call of `{ast.unparse(f)[:40]}`", e)

    def np_call(self, attr, e, st: State):
        if attr in IDENTITY_NP:
            if len(e.args) != 1 or any(k.arg not in ("dtype",) for k in e.keywords):
                raise self.bad(f"np.{attr} arguments", e)
            v = self.ex(e.args[0], st)
            if v.kind != V:
                raise self.bad(f"np.{attr} of a value that is not an array", e)
            return Val(V, v.code, meta="copy" if attr == "array" else None)
        if attr == "linspace":
            given, star = self.map_args(e, [("start", S, None), ("stop", S, None), ("num", N, None)], st, "np.linspace")
            if star or set(given) != {"start", "stop", "num"}:
                raise self.bad("np.linspace: start, stop, num are expected", e)
            a = self.to_S(self.ex(given["start"], st), e)
            b = self.to_S(self.ex(given["stop"], st), e)
            n = self.to_kind(self.ex(given["num"], st), N, e, "np.linspace num")
            return Val(V, f"(Wv.linspace {a} {b} {n})", meta="copy")
        if attr == "arange":
            given, star = self.map_args(e, [("stop", N, None)], st, "np.arange")
            if star or set(given) != {"stop"}:
                raise self.bad("np.arange with other than a stop", e)
            n = self.to_kind(self.ex(given["stop"], st), N, e, "np.arange stop")
            return Val(V, f"(Wv.arange {n})", meta="copy")
        raise self.bad(f"call of np.{attr}", e)

    def ex(self, e, st: State) -> Val:
        if isinstance(e, ast.Constant):
            if isinstance(e.value, bool):
                return Val(B, "true" if e.value else "false")
            if isinstance(e.value, int):
                return Val(N, str(e.value), literal=e.value)
            if isinstance(e.value, float):
                return Val(S, lit(e.value))
            if isinstance(e.value, str):
                return Val(STR, lean_str(e.value))
            if e.value is None:
                return Val(C, value=None)
            raise self.bad("literal", e)
        if isinstance(e, ast.Name):
            if e.id == self.recv:
                raise self.bad("the object itself used as a value", e)
            if e.id not in st.env:
                raise self.bad(f"unknown name `{e.id}`", e)
            v = st.env[e.id]
            if v.kind == OPTI:
                raise self.bad(f"optional parameter `{e.id}` used before its `is None` default", e)
            return v
        if isinstance(e, ast.Attribute):
            a = self.self_attr(e)
            if a is not None:
                if a not in ATTRS:
                    raise self.bad(f"attribute self.{a} is not an attribute of the model", e)
                if self.spec.init is not None and a not in st.assigned:
                    raise self.bad(f"self.{a} read before it is assigned", e)
                return Val(ATTRS[a], f"self.{a}", meta=("attr", a))
            raise self.bad(f"attribute .{e.attr}", e)
        if isinstance(e, ast.UnaryOp) and isinstance(e.op, ast.USub):
            v = self.ex(e.operand, st)
            if v.kind == N and v.literal is not None:
                return Val(I, f"(-{v.literal} : Int)", literal=-v.literal)
            if v.kind in (N, I):
                return Val(I, f"(-{self.to_I(v, e)})")
            if v.kind == S:
                return Val(S, f"(-{v.code})")
            if v.kind == V:
                return Val(V, f"(Wv.negV {v.code})")
            raise self.bad("negation", e)
        if isinstance(e, ast.UnaryOp) and isinstance(e.op, ast.UAdd):
            v = self.ex(e.operand, st)
            if v.kind in (N, I, S, V):
                return v
            raise self.bad("unary plus", e)
        if isinstance(e, ast.BinOp):
            return self.binop(e.op, self.ex(e.left, st), self.ex(e.right, st), e)
        if isinstance(e, ast.Subscript):
            return self.subscript(e, st)
        if isinstance(e, ast.Call):
            return self.call(e, st)
        if isinstance(e, ast.Tuple):
            elts = [self.ex(x, st) for x in e.elts]
            return Val(T, None, elts=elts)
        raise self.bad(f"expression {type(e).__name__}", e)

    # -- statements ----------------------------------------------------------------------------------
    def flush(self, lines, ind):
        for p in self.pre:
            lines.append(ind + p)
        self.pre = []
        self.guards = set()

    def begin(self, st: State):
        self.pre, self.guards, self.used_now = [], set(), set(st.used)

    def assign(self, targets, value, st: State, lines, ind, node):
        """targets: list of ast targets (one, or the elements of a tuple); value: Val"""
        if len(targets) == 1:
            comps = [value]
        else:
            if value.kind != T or len(value.elts) != len(targets):
                raise self.bad("tuple assignment from a value that is not a tuple of that many parts", node)
            comps = value.elts
        for c in comps:
            if c.kind in (T, SPL, KW, CLS, OPQ, C, OPTI):
                raise self.bad("assignment of a value of this kind", node)
        attrs = [self.self_attr(t) for t in targets]
        env, assigned = dict(st.env), set(st.assigned)
        if all(a is not None for a in attrs) and len(set(attrs)) == len(attrs):
            fields = []
            for a, c in zip(attrs, comps):
                fields.append(f"{a} := {self.attr_value(a, c, node)}")
                assigned.add(a)
            self.flush(lines, ind)
            lines.append(f"{ind}let self := {{ self with {', '.join(fields)} }}")
            return st.with_(env=env, assigned=frozenset(assigned), used=frozenset(self.used_now))
        self.flush(lines, ind)
        temps = []
        if len(targets) > 1:
            for c in comps:
                t = self.fresh()
                lines.append(f"{ind}let {t} := {self.plain_code(c, node)}")
                temps.append(Val(c.kind, t, literal=None, meta=c.meta))
        else:
            temps = comps
        for tgt, a, c in zip(targets, attrs, temps):
            if a is not None:
                lines.append(f"{ind}let self := {{ self with {a} := {self.attr_value(a, c, node)} }}")
                assigned.add(a)
            elif isinstance(tgt, ast.Name):
                if tgt.id == self.recv:
                    raise self.bad("assignment to the object itself", node)
                if tgt.id in self.spec.params and self.spec.params[tgt.id] in (B, STR, F, OPQ, CLS):
                    raise self.bad(f"assignment to parameter `{tgt.id}`", node)
                name = ident(tgt.id)
                kind = c.kind
                if kind == I and c.literal is not None:
                    code = f"({c.literal} : Int)"
                else:
                    code = self.plain_code(c, node)
                ty = {V: "List K", S: "K", N: "Nat", I: "Int", B: "Bool", STR: "String"}.get(kind)
                if ty is None:
                    raise self.bad("assignment of a value of this kind to a local", node)
                lines.append(f"{ind}let {name} : {ty} := {code}")
                env[tgt.id] = Val(kind, name, meta=c.meta if c.meta == "copy" else None)
            else:
                raise self.bad("assignment target", node)
        return st.with_(env=env, assigned=frozenset(assigned), used=frozenset(self.used_now))

    def plain_code(self, c: Val, node):
        if c.code is None:
            raise self.bad("value without a term", node)
        return c.code

    def attr_value(self, a, c: Val, node):
        kind = ATTRS.get(a)
        if kind is None:
            raise self.bad(f"assignment to self.{a}, which is not an attribute of the model", node)
        if kind == V:
            if c.kind != V:
                raise self.bad(f"self.{a} assigned a value that is not an array", node)
            if isinstance(c.meta, tuple) and c.meta[0] == "attr" and c.meta[1] != a:
                raise self.bad(f"self.{a} = self.{c.meta[1]}: two attributes would share one array (no copy)", node)
            return c.code
        return self.to_S(c, node)

    def block(self, stmts, st: State, lines, ind):
        for k, s in enumerate(stmts):
            rest = stmts[k + 1:]
            if is_docstring(s) or isinstance(s, ast.Pass):
                continue
            self.begin(st)
            if isinstance(s, ast.Return):
                return self.ret(s, st, lines, ind)
            if isinstance(s, ast.Raise):
                return self.raise_(s, st, lines, ind)
            if isinstance(s, ast.If):
                # `if p is None: p = e` for an optional integer parameter
                opt = self.opt_default(s, st)
                if opt is not None:
                    name, value = opt
                    v = self.ex(value, st)
                    code = self.to_I(v, s)
                    self.flush(lines, ind)
                    lines.append(f"{ind}let {ident(name)} : Int := Option.getD {ident(name)} {code}")
                    env = dict(st.env)
                    env[name] = Val(I, ident(name))
                    st = st.with_(env=env)
                    continue
                c = self.test(s.test, st)
                if isinstance(c, bool):
                    if self.pre:
                        raise self.bad("a decided test with an index in it", s)
                    return self.block(list(s.body if c else s.orelse) + list(rest), st, lines, ind)
                self.flush(lines, ind)
                nn = self.nonneg_after(s, st)
                lines.append(f"{ind}if {c} then")
                self.block(list(s.body) + list(rest), st, lines, ind + "  ")
                lines.append(f"{ind}else")
                self.block(list(s.orelse) + list(rest), st.with_(nonneg=nn), lines, ind + "  ")
                return
            if isinstance(s, ast.Assign):
                if len(s.targets) != 1:
                    raise self.bad("chained assignment", s)
                tgt = s.targets[0]
                targets = list(tgt.elts) if isinstance(tgt, (ast.Tuple, ast.List)) else [tgt]
                st = self.assign(targets, self.ex(s.value, st), st, lines, ind, s)
                continue
            if isinstance(s, ast.AnnAssign) and s.value is not None:
                st = self.assign([s.target], self.ex(s.value, st), st, lines, ind, s)
                continue
            if isinstance(s, ast.AugAssign):
                a = self.self_attr(s.target)
                if a is not None and ATTRS.get(a) == V:
                    raise self.bad(f"in-place update of the array self.{a}", s)
                if a is None and not isinstance(s.target, ast.Name):
                    raise self.bad("augmented assignment target", s)
                if isinstance(s.target, ast.Name) and (s.target.id not in st.env or st.env[s.target.id].kind == V):
                    raise self.bad("in-place update of an array / unknown name", s)
                load = ast.copy_location(
                    ast.Attribute(value=ast.Name(id=self.recv, ctx=ast.Load()), attr=a, ctx=ast.Load())
                    if a is not None else ast.Name(id=s.target.id, ctx=ast.Load()), s)
                value = ast.copy_location(ast.BinOp(left=load, op=s.op, right=s.value), s)
                ast.fix_missing_locations(value)
                st = self.assign([s.target], self.ex(value, st), st, lines, ind, s)
                continue
            raise self.bad(f"statement {type(s).__name__}", s)
        # end of the body without `return`
        if self.spec.init is not None:
            missing = [a for a in ATTRS if a not in st.assigned]
            if missing:
                raise Unsupported(f"__init__ does not assign self.{missing[0]} on some path")
            lines.append(f"{ind}Wv.done self")
            return
        raise Unsupported(f"{self.spec.py} can end without `return self` ({self.where(self.fn)})")

    def opt_default(self, s, st: State):
        t = s.test
        if not (isinstance(t, ast.Compare) and len(t.ops) == 1 and isinstance(t.ops[0], ast.Is)
                and isinstance(t.left, ast.Name) and isinstance(t.comparators[0], ast.Constant)
                and t.comparators[0].value is None):
            return None
        name = t.left.id
        if name not in st.env or st.env[name].kind != OPTI:
            return None
        if s.orelse or len(s.body) != 1 or not isinstance(s.body[0], ast.Assign) or len(s.body[0].targets) != 1:
            raise self.bad(f"`if {name} is None:` that is not the default `{name} = …`", s)
        tgt = s.body[0].targets[0]
        if not (isinstance(tgt, ast.Name) and tgt.id == name):
            raise self.bad(f"`if {name} is None:` that is not the default `{name} = …`", s)
        return name, s.body[0].value

    def nonneg_after(self, s, st: State):
        """names known to be >= 0 after `if name < 0: raise …` did not fire"""
        t = s.test
        name = None
        if isinstance(t, ast.Compare) and len(t.ops) == 1:
            op, left, right = t.ops[0], t.left, t.comparators[0]
            if isinstance(op, (ast.Lt, ast.LtE)) and isinstance(left, ast.Name) and self.int_lit(right) == 0:
                name = left.id          # `name < 0` / `name <= 0` did not fire
            elif isinstance(op, (ast.Gt, ast.GtE)) and isinstance(right, ast.Name) and self.int_lit(left) == 0:
                name = right.id         # `0 > name` / `0 >= name` did not fire
        if name is not None and name in st.env and st.env[name].kind in (I, N) \
                and s.body and isinstance(s.body[-1], ast.Raise) and not s.orelse:
            return st.nonneg | {name}
        return st.nonneg

    def raise_(self, s, st: State, lines, ind):
        exc = s.exc
        name = None
        if isinstance(exc, ast.Call) and isinstance(exc.func, ast.Name):
            name = exc.func.id
            for a in list(exc.args) + [k.value for k in exc.keywords]:
                if any(isinstance(n, ast.Call) for n in ast.walk(a)):
                    raise self.bad("a call inside the exception's arguments", s)
        elif isinstance(exc, ast.Name):
            name = exc.id
        if name is None or name not in ERRS or name in st.env or name in self.aliases or s.cause is not None:
            raise self.bad(f"raise of `{ast.unparse(exc)[:40] if exc is not None else ''}`", s)
        lines.append(f"{ind}Wv.raise self {ERRS[name]}" if self.spec.ret == "RES" else f"{ind}.error {ERRS[name]}")

    def ret(self, s, st: State, lines, ind):
        if self.spec.ret == "XVV":
            if s.value is None:
                raise self.bad("bare return", s)
            v = self.ex(s.value, st)
            if v.kind != T or len(v.elts) != 2 or any(x.kind != V for x in v.elts):
                raise self.bad("the method does not return a pair of arrays", s)
            if self.pre:
                raise self.bad("an index / failing call in the returned expression", s)
            lines.append(f"{ind}.ok ({v.elts[0].code}, {v.elts[1].code})")
            return
        if self.spec.init is not None:
            raise self.bad("return inside __init__", s)
        if s.value is None or not self.is_self(s.value):
            raise self.bad("the method does not return self", s)
        lines.append(f"{ind}Wv.done self")

    # -- the method ----------------------------------------------------------------------------------
    def translate(self):
        a = self.fn.args
        if a.vararg or a.kwonlyargs or a.posonlyargs:
            raise Unsupported(f"signature of {self.spec.py} at {self.where(self.fn)}")
        if self.fn.decorator_list:
            raise Unsupported(f"decorator on {self.spec.py}")
        names = [p.arg for p in a.args]
        if not names:
            raise Unsupported(f"{self.spec.py} has no receiver")
        self.recv = names[0]
        if names[1:] != list(self.spec.params):
            raise Unsupported(f"parameter list of {self.spec.py} changed at {self.where(self.fn)}")
        if (a.kwarg is not None) != self.spec.kwargs:
            raise Unsupported(f"**kwargs of {self.spec.py} changed at {self.where(self.fn)}")
        for n in ast.walk(self.fn):
            if isinstance(n, ast.Name) and isinstance(n.ctx, ast.Store):
                self.locals.add(n.id)
        env = {}
        for name, kind in self.spec.params.items():
            if isinstance(kind, tuple):
                env[name] = Val(C, value=kind[1])
            else:
                env[name] = Val(kind, ident(name))
        if a.kwarg is not None:
            env[a.kwarg.arg] = Val(KW, a.kwarg.arg)
        lines = []
        if self.spec.init is not None:
            lines.append(f"  let self : Wv.Attrs K := {self.spec.init}")
        self.block(list(self.fn.body), State(env), lines, "  ")
        return "\n".join([self.head()] + lines)

    def head(self):
        return head(self.spec)


def head(spec: Spec):
    ret = "Wv.Res K" if spec.ret == "RES" else "Except Err (List K × List K)"
    recv = "" if spec.init is not None else "(self : Wv.Attrs K) "
    return f"def GenW.{spec.gen} {recv}{spec.binders}".rstrip() + f" : {ret} :="


# -------------------------------------------------------------------------------------------------
# driver
# -------------------------------------------------------------------------------------------------

HEADER = [
    "import TWV.Model.WeaverVocab", "",
    "/-! GENERATED by harness/t9_weaver.py from src/traffic_weaver/weaver.py (class Weaver) — do not edit.",
    "",
    "One definition per state-changing method: the record of instance attributes threaded through the",
    "statements of the method in program order (vocabulary: `TWV/Model/WeaverVocab.lean`).",
    "`TWV/Tie/WeaverStep.lean` proves each equal to `Weaver.step` / `Weaver.init` / `Weaver.sliceByIndex`. -/", "",
    "set_option linter.unusedVariables false", "",
    "namespace TWV", "",
    "variable {K : Type} [Add K] [Sub K] [Mul K] [Div K] [Neg K] [Zero K] [One K] [NatCast K]",
    "  [LT K] [LE K] [DecidableLT K] [DecidableLE K] [DecidableEq K]", "",
]


def import_aliases(tree):
    aliases = {}
    for st in tree.body:
        if isinstance(st, ast.Import):
            for a in st.names:
                if a.asname:
                    aliases[a.asname] = a.name
                else:
                    aliases[a.name.split(".")[0]] = a.name.split(".")[0]
        elif isinstance(st, ast.ImportFrom):
            mod = st.module or ""
            if mod == PACKAGE:
                mod = ""
            elif mod.startswith(PACKAGE + "."):
                mod = mod[len(PACKAGE) + 1:]
            for a in st.names:
                if a.name != "*":
                    aliases[a.asname or a.name] = f"{mod}.{a.name}" if mod else a.name
    return aliases


def generate(text=None):
    """-> (Lean text, notes); the text of weaver.py is read from /repo's working tree when not given"""
    broken = None
    if text is None:
        try:
            text = (SRC_DIR / SRCNAME).read_text()
        except OSError:
            broken = "source file is missing"
    methods, aliases = {}, {}
    if broken is None:
        try:
            tree = ast.parse(text)
        except SyntaxError as e:
            broken = f"syntax error at {SRCNAME}:{e.lineno}"
    if broken is None:
        aliases = import_aliases(tree)
        classes = [n for n in tree.body if isinstance(n, ast.ClassDef) and n.name == CLASS]
        if len(classes) != 1:
            broken = f"{len(classes)} definitions of class {CLASS}"
        else:
            cls = classes[0]
            odd = [type(st).__name__ for i, st in enumerate(cls.body)
                   if not ((i == 0 and is_docstring(st)) or isinstance(st, (ast.Pass, ast.FunctionDef)))]
            if odd or cls.decorator_list or cls.keywords or \
                    [b for b in cls.bases if not (isinstance(b, ast.Name) and b.id == "object")]:
                broken = f"class {CLASS} has class-level statements / bases / decorators ({', '.join(odd) or 'header'})"
            for st in cls.body:
                if isinstance(st, ast.FunctionDef):
                    methods.setdefault(st.name, []).append(st)
            # a module-level statement that patches the class is outside the subset
            for st in tree.body:
                for n in ast.walk(st) if not isinstance(st, (ast.ClassDef, ast.FunctionDef)) else []:
                    if isinstance(n, ast.Attribute) and isinstance(n.ctx, ast.Store) \
                            and isinstance(n.value, ast.Name) and n.value.id == CLASS:
                        broken = f"module-level assignment to {CLASS}.{n.attr}"
    out = list(HEADER)
    notes = []
    for spec in SPECS:
        reason = broken
        if reason is None:
            fns = methods.get(spec.py, [])
            if len(fns) != 1:
                reason = f"{spec.py} is not defined exactly once in class {CLASS}"
            elif fns[0].decorator_list:
                reason = f"decorator on {spec.py}"
            else:
                try:
                    out.append(MethodTranslator(spec, fns[0], aliases).translate())
                except Unsupported as e:
                    reason = str(e)
                except RecursionError:
                    reason = "expression too deep"
        if reason is not None:
            notes.append(f"UNSUPPORTED {spec.gen}: {reason}")
            out.append(f"/- T9 cannot translate `{spec.gen}` ({reason}); alias of the hand model, the tie falls back"
                       f" to the correspondence. -/\n{head(spec)}\n  {spec.fallback}")
        out.append("")
    out += ["end TWV", ""]
    return "\n".join(out), notes


def regenerate(text=None, out=None):
    lean, notes = generate(text)
    out = Path(out) if out is not None else OUT
    out.parent.mkdir(parents=True, exist_ok=True)
    changed = (not out.exists()) or out.read_text() != lean
    if changed:
        out.write_text(lean)
    note = "; ".join(notes) if notes else f"all {len(SPECS)} Weaver method definitions translated"
    if notes:
        note += " (aliased to the hand model: their ties hold trivially)"
    return f"{note} ({'rewritten' if changed else 'unchanged'})"


def main(argv):
    """python -m harness.t9_weaver [--src-dir DIR] [--out FILE] [--stdout]   (DIR holds weaver.py)"""
    src_dir, to_stdout, out = None, False, None
    it = iter(argv)
    for a in it:
        if a == "--src-dir":
            src_dir = next(it)
        elif a == "--out":
            out = next(it)
        elif a == "--stdout":
            to_stdout = True
        else:
            print(main.__doc__)
            return 2
    text = None
    if src_dir is not None:
        try:
            text = (Path(src_dir) / SRCNAME).read_text()
        except OSError:
            text = "def ("   # reported as a syntax error: every method is aliased
    if to_stdout:
        lean, notes = generate(text)
        print(lean)
        for n in notes:
            print("--", n)
    else:
        print(regenerate(text, out))
    return 0


if __name__ == "__main__":
    sys.exit(main(sys.argv[1:]))
