"""Translator T12: the *parameter handling* of the recreate-from-average strategies of
/repo/src/traffic_weaver/rfa.py (Python AST) -> lean/TWV/Generated/RfaParams.lean

T4 (`t4_rfaloops.py`) translates the loop bodies of the window strategies for windows *given*.  T12
translates how the windows are derived from the user's parameters, and the frame of the simple strategies:

  constructors   `AbstractRFA.__init__` (validation `n < 2` -> ValueError), and the `__init__` of `LinearFixedRFA`,
                 `LinearAdaptiveRFA`, `ExpFixedRFA`, `ExpAdaptiveRFA` with `super().__init__(x, y, n)` inlined:
                 one definition each, `Except Err (<the attributes the strategy reads later>)`, binders in the
                 order of the Python signature (a changed positional order changes the definition), and one
                 definition with the default values of the optional parameters;
  window lists   `LinearAdaptiveRFA.get_adaptive_transition_points`: the loop body as `adaptiveStep` (state: the
                 three lists, in the order of the `return`), the whole function as `adaptivePoints` (a `foldl`
                 over `List.range'`); the list comprehensions `b_ls` / `b_rs` of `ExpAdaptiveRFA.rfa` as
                 `expAdaptiveBL` / `expAdaptiveBR`;
  frame          `AbstractRFA._initial_oversample` (+ `_initial_x_oversample`, `_initial_y_oversample`),
                 `PiecewiseConstantRFA.rfa`, `FunctionRFA.rfa` (+ `_get_sampling_function`).

Supported subset (everything else: `UNSUPPORTED <fn>: <reason>`, the definition becomes an alias of the hand
model and its tie theorem holds trivially)
  statements   `name = e`, `self.attr = e`, `a, b = <tuple>`, `if c: ... [elif ...] [else: ...]` (the rest of
               the function is duplicated into both branches, so `return` / `raise` inside a branch is fine),
               `if v is None` / `if v is not None` on an optional parameter (-> `match`), `if v:` on the optional
               sampling-function supplier, `raise ValueError(...)`, `return e`, `lst.append(e)`,
               `lst.extend([e, ...])`, `super().__init__(x, y, n)` (inlined), `name = self.method()` (inlined),
               one `for k in range(lo, hi)` in `get_adaptive_transition_points`, docstrings, `pass`.
               Every binding gets a fresh Lean name (no shadowing).
  numbers      naturals (`n`, `self.n`, `self.a`, integer literals, `+`, `*`, `k - c` for the loop variable
               with `c` at most the start of the range) and reals (`K`; literals are exact rationals; `+ - * /`,
               unary minus, mixed operands are cast); `abs` -> `absK`, `min` / `max` of two -> `minK` / `maxK`,
               `e ** adaptive_smooth` -> `gpow e` (the abstract real power of the model), `float(e)`;
               `int(e)` of a natural is the natural; of a real it is `natFloorUpTo bound e` (Model/Base.lean:
               the floor of a non-negative real that is at most `bound`) where `bound` is an upper bound that
               is *syntactically* evident (`e = p / c` with `p` natural and literal `c >= 1`: `p`;
               `min(_, p)`: `p`; `max` of two bounded: the larger) and the parameter `B` otherwise.
               As in the hand model this is Python's `int()` on NON-NEGATIVE reals only (`natFloorUpTo` is 0 on
               negative ones, Python truncates towards zero): `int(alpha * n)` of a negative `alpha` is
               compared with 2 and replaced, so nothing is lost there; a negative `beta` is outside the model;
               `y[r, 0]` of the extended interval array -> `Y r`; `x.nr_of_full_intervals()` -> `N`.
  tests        `== != < <= > >=` (between naturals, else in `K`), `and`, `or`, `not`.
  arrays       `np.asarray(v, dtype=float)` / `np.array(v, dtype=float)` (the series itself),
               `oversample_linspace(a, num=n)` -> `oversampleLin a n`, `oversample_piecewise_constant` ->
               `oversamplePC`, `np.asarray([f(t) for t in xs], dtype=float)` -> `fun j => f (xs j)`.
`round`, `np.isclose`, `//`, `math.floor`, truthiness of numbers (`a or alpha * n`) ... are outside the subset.
"""
from __future__ import annotations

import ast
import sys
from fractions import Fraction
from pathlib import Path

from .core import LEAN, REPO

OUT = LEAN / "TWV" / "Generated" / "RfaParams.lean"
SRC_DIR = REPO / "src" / "traffic_weaver"
REQUIRED = False
MAX_LINES = 400  # per definition (tail duplication is exponential in the number of sequential `if`s)


class Unsupported(Exception):
    pass


LEAN_RESERVED = {
    "at", "from", "fun", "end", "do", "then", "else", "if", "let", "have", "show", "in", "with", "match", "by",
    "open", "def", "theorem", "where", "section", "namespace", "variable", "instance", "structure", "class",
    "import", "export", "private", "protected", "mutual", "universe", "deriving", "extends", "for", "return",
    "using", "calc", "Type", "Prop", "Sort", "forall", "exists", "this", "nomatch", "nofun", "macro", "syntax",
    "infix", "infixl", "infixr", "notation", "prefix", "postfix", "set_option", "attribute", "local", "scoped",
    "partial", "noncomputable", "abbrev", "inductive", "example", "opaque", "try", "catch", "finally", "unless",
    "mut", "break", "continue", "suffices", "obtain", "true", "false", "some", "none",
}
VOCAB = {"B", "K", "N", "Y", "gpow", "natFloorUpTo", "absK", "minK", "maxK", "oversampleLin", "oversamplePC",
         "TWV", "Rfa", "Err", "Nat", "List", "Option", "Except", "st", "j", "max", "min", "id"}
EXC = {"ValueError": "valueError", "IndexError": "indexError", "TypeError": "typeError",
       "AttributeError": "attributeError"}
TYPES = {"nat": "Nat", "real": "K", "opt": "Option K", "arr": "Nat → K", "lnat": "List Nat",
         "lopt": "List (Option K)", "supplier": "Option ((Nat → K) → (Nat → K) → K → K)", "fn": "K → K"}


def lit(v):
    """numeric literal as an exact rational of `K` (same convention as T1 / T3 / T4)"""
    f = Fraction(v) if not isinstance(v, float) else Fraction(repr(v))
    if f < 0:
        return f"(-{lit(-f)})"
    if f.denominator == 1:
        if f.numerator == 0:
            return "(0 : K)"
        if f.numerator == 1:
            return "(1 : K)"
        return f"(({f.numerator} : Nat) : K)"
    return f"((({f.numerator} : Nat) : K) / (({f.denominator} : Nat) : K))"


def is_num(e):
    return isinstance(e, ast.Constant) and isinstance(e.value, (int, float)) and not isinstance(e.value, bool)


def simple(code):
    return code.replace("_", "a").replace("'", "a").isalnum()


def paren(code):
    return code if simple(code) or (code.startswith("(") and code.endswith(")") and balanced(code[1:-1])) \
        else f"({code})"


def balanced(s):
    d = 0
    for ch in s:
        d += ch == "("
        d -= ch == ")"
        if d < 0:
            return False
    return d == 0


def indent(lines):
    return ["  " + ln for ln in lines]


class V:
    """a typed symbolic value: `code` is a Lean term"""
    def __init__(self, kind, code="", bound=None, elts=None, lo=None, lit_ge1=False):
        self.kind, self.code, self.bound, self.elts, self.lo, self.lit_ge1 = kind, code, bound, elts, lo, lit_ge1


def nat(code, lo=None):
    return V("nat", code, bound=code, lo=lo)


class Module:
    def __init__(self, tree):
        self.tree = tree
        self.classes = {}
        for node in tree.body:
            if isinstance(node, ast.ClassDef):
                if node.name in self.classes:
                    self.classes[node.name] = None  # defined twice
                else:
                    self.classes[node.name] = node
        # helpers importable by bare name
        self.sau = {}
        for node in tree.body:
            if isinstance(node, ast.ImportFrom) and node.module is not None:
                mod = node.module.split(".")[-1]
                for a in node.names:
                    local = a.asname or a.name
                    if mod == "sorted_array_utils" and a.name in ("oversample_linspace",
                                                                  "oversample_piecewise_constant"):
                        self.sau[local] = a.name
                    else:
                        self.sau.pop(local, None)
            elif isinstance(node, (ast.FunctionDef, ast.AsyncFunctionDef, ast.ClassDef)):
                self.sau.pop(node.name, None)
            elif isinstance(node, (ast.Assign, ast.AnnAssign, ast.AugAssign)):
                for t in ast.walk(node):
                    if isinstance(t, ast.Name) and isinstance(t.ctx, ast.Store):
                        self.sau.pop(t.id, None)
        self.np_names = set()
        for node in tree.body:
            if isinstance(node, ast.Import):
                for a in node.names:
                    if a.name == "numpy":
                        self.np_names.add(a.asname or "numpy")

    def cls(self, name):
        c = self.classes.get(name)
        if c is None:
            raise Unsupported(f"class {name} is not defined exactly once")
        return c

    def method(self, cname, mname, inherit=True):
        """resolve a method along the (single, in-file) inheritance chain"""
        seen = set()
        while cname not in seen:
            seen.add(cname)
            c = self.cls(cname)
            fns = [m for m in c.body if isinstance(m, (ast.FunctionDef, ast.AsyncFunctionDef)) and m.name == mname]
            if len(fns) > 1 or any(isinstance(m, ast.AsyncFunctionDef) for m in fns):
                raise Unsupported(f"{cname}.{mname} is not defined exactly once")
            if fns:
                return cname, fns[0]
            if not inherit:
                break
            bases = [b.id for b in c.bases if isinstance(b, ast.Name)]
            if len(bases) != len(c.bases) or len(bases) != 1 or bases[0] == "ABC":
                break
            cname = bases[0]
        raise Unsupported(f"method {mname} not found for {cname}")

    def base(self, cname):
        c = self.cls(cname)
        bases = [b.id for b in c.bases if isinstance(b, ast.Name)]
        if len(bases) != len(c.bases) or len(bases) != 1:
            raise Unsupported(f"bases of {cname}")
        return bases[0]


class Exec:
    """symbolic execution of one function into a Lean term (a list of lines)"""

    def __init__(self, mod: Module, cname, fname, raises=False):
        self.mod, self.cname, self.fname, self.raises = mod, cname, fname, raises
        self.used = set(VOCAB) | LEAN_RESERVED
        self.count = 0
        self.depth = 0
        self.uses_B = False
        self.loopvar = None
        self.extra_defs = []   # definitions emitted before this one (the loop body)
        self.loop_hook = None

    # -- diagnostics -----------------------------------------------------------------------------
    def where(self, node):
        return f"rfa.py:{getattr(node, 'lineno', '?')}"

    def bad(self, what, node):
        return Unsupported(f"{what} at {self.where(node)}")

    def fresh(self, name):
        name = name.replace(".", "_")
        if not name.isidentifier() or not name.isascii():
            raise Unsupported(f"variable name `{name}`")
        cand, i = name, 0
        while cand in self.used:
            i += 1
            cand = f"{name}_{i}"
        self.used.add(cand)
        return cand

    def tick(self, n=1):
        self.count += n
        if self.count > MAX_LINES:
            raise Unsupported(f"{self.cname}.{self.fname}: too many branches")

    # -- names -------------------------------------------------------------------------------------
    @staticmethod
    def key(e):
        if isinstance(e, ast.Name):
            return e.id
        if isinstance(e, ast.Attribute) and isinstance(e.value, ast.Name) and e.value.id == "self":
            return "self." + e.attr
        return None

    def lookup(self, e, env):
        k = self.key(e)
        if k is None:
            raise self.bad(f"`{ast.unparse(e)}`", e)
        if k.startswith("self.") and ("self" not in env or env["self"].kind != "self"):
            raise self.bad("`self` rebound", e)
        if k not in env:
            raise self.bad(f"unknown value `{k}`", e)
        return env[k]

    # -- conversions -------------------------------------------------------------------------------
    def toK(self, v, node):
        if v.kind == "real":
            return v
        if v.kind == "nat":
            if v.code.isdigit():
                return V("real", lit(int(v.code)), bound=v.code, lit_ge1=v.lit_ge1)
            return V("real", f"(({v.code} : Nat) : K)", bound=v.code, lit_ge1=v.lit_ge1)
        raise self.bad(f"`{ast.unparse(node)}` is not a number here ({v.kind})", node)

    def num(self, e, env):
        v = self.expr(e, env)
        if v.kind not in ("nat", "real"):
            raise self.bad(f"`{ast.unparse(e)}` is not a number here ({v.kind})", e)
        return v

    def builtin(self, e, env, names):
        return isinstance(e.func, ast.Name) and e.func.id in names and e.func.id not in env

    # -- expressions -------------------------------------------------------------------------------
    def expr(self, e, env) -> V:
        self.depth += 1
        if self.depth > 60:
            raise self.bad("expression too deep", e)
        try:
            return self.expr_(e, env)
        finally:
            self.depth -= 1

    def expr_(self, e, env) -> V:
        if isinstance(e, ast.Constant):
            if e.value is None:
                return V("none")
            if is_num(e):
                if isinstance(e.value, int):
                    if e.value < 0:
                        return V("real", lit(e.value))
                    v = nat(str(e.value))
                    v.lit_ge1 = e.value >= 1
                    return v
                if e.value != e.value or e.value in (float("inf"), float("-inf")):
                    raise self.bad("non-finite literal", e)
                return V("real", lit(e.value), lit_ge1=e.value >= 1)
            raise self.bad(f"literal {e.value!r}", e)
        if isinstance(e, (ast.Name, ast.Attribute)) and self.key(e) is not None:
            return self.lookup(e, env)
        if isinstance(e, ast.Tuple):
            if any(isinstance(x, ast.Starred) for x in e.elts):
                raise self.bad("starred", e)
            return V("tup", elts=[self.expr(x, env) for x in e.elts])
        if isinstance(e, ast.UnaryOp) and isinstance(e.op, ast.USub):
            if is_num(e.operand):
                return V("real", lit(-e.operand.value) if e.operand.value != 0 else lit(0))
            v = self.toK(self.num(e.operand, env), e)
            return V("real", f"(-{paren(v.code)})")
        if isinstance(e, ast.UnaryOp) and isinstance(e.op, ast.UAdd):
            return self.num(e.operand, env)
        if isinstance(e, ast.BinOp):
            return self.binop(e, env)
        if isinstance(e, ast.IfExp):
            c = self.cond(e.test, env)
            a, b = self.num(e.body, env), self.num(e.orelse, env)
            if a.kind == "nat" and b.kind == "nat":
                return V("nat", f"(if {c} then {a.code} else {b.code})", bound=f"(max {paren(a.code)} {paren(b.code)})")
            a, b = self.toK(a, e), self.toK(b, e)
            return V("real", f"(if {c} then {a.code} else {b.code})")
        if isinstance(e, ast.Subscript):
            return self.subscript(e, env)
        if isinstance(e, ast.Call):
            return self.call(e, env)
        raise self.bad(f"expression {type(e).__name__}", e)

    def binop(self, e, env):
        if isinstance(e.op, ast.Pow):
            r = self.expr(e.right, env)
            if r.kind != "powpar":
                raise self.bad("power whose exponent is not `adaptive_smooth`", e)
            l = self.toK(self.num(e.left, env), e.left)
            return V("real", f"(gpow {paren(l.code)})")
        ops = {ast.Add: "+", ast.Sub: "-", ast.Mult: "*", ast.Div: "/"}
        if type(e.op) not in ops:
            raise self.bad(f"operator {type(e.op).__name__}", e)
        l, r = self.num(e.left, env), self.num(e.right, env)
        op = ops[type(e.op)]
        if l.kind == "nat" and r.kind == "nat" and op in "+*":
            return nat(f"({l.code} {op} {r.code})", lo=None)
        if l.kind == "nat" and r.kind == "nat" and op == "-":
            # Python integers are unbounded, Lean's `Nat` truncates: only `k - c` with c <= start of the range
            if l.lo is not None and is_num(e.right) and isinstance(e.right.value, int) and 0 <= e.right.value <= l.lo:
                return nat(f"({l.code} - {r.code})", lo=l.lo - e.right.value)
            raise self.bad("integer subtraction that may be negative", e)
        lk, rk = self.toK(l, e.left), self.toK(r, e.right)
        bound = None
        if op == "/" and r.lit_ge1:
            bound = lk.bound
        return V("real", f"({lk.code} {op} {rk.code})", bound=bound)

    def subscript(self, e, env):
        v = self.expr(e.value, env)
        if v.kind == "iay":
            idx = e.slice
            if isinstance(idx, ast.Tuple) and len(idx.elts) == 2 and is_num(idx.elts[1]) \
                    and type(idx.elts[1].value) is int and idx.elts[1].value == 0:
                r = self.num(idx.elts[0], env)
                if r.kind != "nat":
                    raise self.bad("row index", e)
                return V("real", f"(Y {paren(r.code)})")
            raise self.bad("index of the interval array that is not `[row, 0]`", e)
        raise self.bad(f"subscript of `{ast.unparse(e.value)}`", e)

    def int_of(self, v, node):
        if v.kind == "nat":
            return v
        if v.kind != "real":
            raise self.bad(f"int() of {v.kind}", node)
        b = v.bound
        if b is None:
            b = "B"
            self.uses_B = True
        return nat(f"(natFloorUpTo {paren(b)} {paren(v.code)})")

    def call(self, e, env):
        if any(isinstance(a, ast.Starred) for a in e.args):
            raise self.bad("starred argument", e)
        f = e.func
        if self.builtin(e, env, ("int", "float", "abs")):
            if len(e.args) != 1 or e.keywords:
                raise self.bad(f"arguments of {f.id}", e)
            v = self.num(e.args[0], env)
            if f.id == "int":
                return self.int_of(v, e)
            if f.id == "float":
                return self.toK(v, e)
            if v.kind == "nat":
                return v
            return V("real", f"(absK {paren(v.code)})")
        if self.builtin(e, env, ("min", "max")):
            if len(e.args) != 2 or e.keywords:
                raise self.bad(f"{f.id} that is not of two arguments", e)
            a, b = self.num(e.args[0], env), self.num(e.args[1], env)
            if a.kind == "nat" and b.kind == "nat":
                return nat(f"({f.id} {paren(a.code)} {paren(b.code)})")
            ak, bk = self.toK(a, e), self.toK(b, e)
            if f.id == "min":
                bound = bk.bound if bk.bound is not None else ak.bound
            else:
                bound = f"(max {paren(ak.bound)} {paren(bk.bound)})" if ak.bound and bk.bound else None
            return V("real", f"({f.id}K {paren(ak.code)} {paren(bk.code)})", bound=bound)
        # np.asarray(v, dtype=float)
        if isinstance(f, ast.Attribute) and isinstance(f.value, ast.Name) and f.value.id in self.mod.np_names \
                and f.value.id not in env and f.attr in ("asarray", "array"):
            kws = {k.arg: k.value for k in e.keywords}
            if len(e.args) != 1 or set(kws) - {"dtype"} or None in kws:
                raise self.bad(f"arguments of np.{f.attr}", e)
            if "dtype" in kws and not (isinstance(kws["dtype"], ast.Name) and kws["dtype"].id == "float"
                                       and "float" not in env):
                raise self.bad("dtype", e)
            a = e.args[0]
            if isinstance(a, ast.ListComp):
                return self.listcomp_arr(a, env)
            v = self.expr(a, env)
            if v.kind != "arr":
                raise self.bad(f"np.{f.attr} of {v.kind}", e)
            return v
        # oversample_linspace(a, num=n)
        if isinstance(f, ast.Name) and f.id in self.mod.sau and f.id not in env:
            given = dict(zip(["a", "num"], e.args))
            for kw in e.keywords:
                if kw.arg not in ("a", "num") or kw.arg in given:
                    raise self.bad(f"arguments of {f.id}", e)
                given[kw.arg] = kw.value
            if len(e.args) > 2 or set(given) != {"a", "num"}:
                raise self.bad(f"arguments of {f.id}", e)
            a, n = self.expr(given["a"], env), self.expr(given["num"], env)
            if a.kind != "arr" or n.kind != "nat":
                raise self.bad(f"arguments of {f.id}", e)
            lean = "oversampleLin" if self.mod.sau[f.id] == "oversample_linspace" else "oversamplePC"
            return V("arr", f"({lean} {paren(a.code)} {paren(n.code)})")
        # x.nr_of_full_intervals()
        if isinstance(f, ast.Attribute) and f.attr == "nr_of_full_intervals" and not e.args and not e.keywords:
            v = self.expr(f.value, env)
            if v.kind in ("iax", "iay"):
                return nat("N")
            raise self.bad("nr_of_full_intervals of something else", e)
        # self.method() with a single `return`
        if isinstance(f, ast.Attribute) and isinstance(f.value, ast.Name) and f.value.id == "self" \
                and "self." + f.attr not in env:
            if e.args or e.keywords:
                raise self.bad("method call with arguments", e)
            self.lookup(f.value, env)
            _, fn = self.mod.method(self.cname, f.attr)
            body = [s for s in fn.body if not skip(s)]
            if self.plain_self(fn) and len(body) == 1 and isinstance(body[0], ast.Return) and body[0].value is not None:
                sub = {k: v for k, v in env.items() if k == "self" or k.startswith("self.")}
                return self.expr(body[0].value, sub)
            raise self.bad(f"call of self.{f.attr} inside an expression", e)
        # a callable value
        if self.key(f) is not None and self.key(f) in env:
            fv = env[self.key(f)]
            if fv.kind == "fn":
                if len(e.args) != 1 or e.keywords:
                    raise self.bad("arguments of the sampling function", e)
                a = self.toK(self.num(e.args[0], env), e)
                return V("real", f"({fv.code} {paren(a.code)})")
            if fv.kind == "supplierfn":
                kw_ok = len(e.keywords) == 1 and e.keywords[0].arg is None and \
                    self.expr(e.keywords[0].value, env).kind == "kwargs"
                if len(e.args) != 2 or not (kw_ok or not e.keywords):
                    raise self.bad("arguments of the supplier", e)
                a, b = self.expr(e.args[0], env), self.expr(e.args[1], env)
                if a.kind != "arr" or b.kind != "arr":
                    raise self.bad("arguments of the supplier", e)
                return V("fn", f"({fv.code} {paren(a.code)} {paren(b.code)})")
        raise self.bad(f"call of `{ast.unparse(f)}`", e)

    def listcomp_arr(self, lc, env):
        if len(lc.generators) != 1:
            raise self.bad("list comprehension", lc)
        g = lc.generators[0]
        if g.ifs or g.is_async or not isinstance(g.target, ast.Name):
            raise self.bad("list comprehension", lc)
        src = self.expr(g.iter, env)
        if src.kind != "arr":
            raise self.bad("list comprehension that is not over an array", lc)
        sub = dict(env)
        sub[g.target.id] = V("real", f"({src.code} j)")
        elt = self.toK(self.num(lc.elt, sub), lc.elt)
        return V("arr", f"(fun j => {elt.code})")

    # -- tests -------------------------------------------------------------------------------------
    def cond(self, e, env):
        if isinstance(e, ast.UnaryOp) and isinstance(e.op, ast.Not):
            return f"¬ ({self.cond(e.operand, env)})"
        if isinstance(e, ast.BoolOp):
            op = " ∧ " if isinstance(e.op, ast.And) else " ∨ "
            return op.join(f"({self.cond(v, env)})" if isinstance(v, ast.BoolOp) else self.cond(v, env)
                           for v in e.values)
        if isinstance(e, ast.Compare) and len(e.ops) == 1:
            ops = {ast.Eq: "=", ast.NotEq: "≠", ast.Lt: "<", ast.LtE: "≤", ast.Gt: ">", ast.GtE: "≥"}
            if type(e.ops[0]) not in ops:
                raise self.bad(f"comparison {type(e.ops[0]).__name__}", e)
            l, r = self.num(e.left, env), self.num(e.comparators[0], env)
            if not (l.kind == "nat" and r.kind == "nat"):
                l, r = self.toK(l, e), self.toK(r, e)
            return f"{l.code} {ops[type(e.ops[0])]} {r.code}"
        raise self.bad(f"test `{ast.unparse(e)}`", e)

    # -- statements ----------------------------------------------------------------------------------
    @staticmethod
    def plain_self(fn):
        a = fn.args
        return not (a.vararg or a.kwarg or a.kwonlyargs or a.posonlyargs or fn.decorator_list) \
            and [p.arg for p in a.args] == ["self"]

    def bind(self, k, v, env, cont):
        """`k = v`: a `let` with a fresh name (values that are not Lean terms are just recorded)"""
        env = dict(env)
        if v.kind in ("none", "powpar", "iax", "iay", "kwargs", "tup", "self"):
            if v.kind == "tup":
                raise Unsupported(f"tuple stored in `{k}`")
            env[k] = v
            return cont(env)
        name = self.fresh(k)
        self.tick()
        nv = V(v.kind, name, bound=(name if v.kind == "nat" else v.bound), lo=None, lit_ge1=False)
        env[k] = nv
        ty = TYPES.get(v.kind)
        ann = f" : {ty}" if ty and v.kind in ("lnat", "lopt", "arr", "fn") else ""
        return [f"let {name}{ann} := {v.code}"] + cont(env)

    def block(self, stmts, env, fin):
        if not stmts:
            return fin(env)
        st, rest = stmts[0], stmts[1:]
        if skip(st):
            return self.block(rest, env, fin)
        go = lambda env2: self.block(rest, env2, fin)  # noqa: E731
        if isinstance(st, ast.AnnAssign) and st.value is not None:
            st = ast.copy_location(ast.Assign(targets=[st.target], value=st.value), st)
        if isinstance(st, ast.Assign) and len(st.targets) == 1:
            tgt = st.targets[0]
            if self.key(tgt) is not None:
                k = self.key(tgt)
                if k == "self" or k == self.loopvar:
                    raise self.bad(f"assignment to `{k}`", st)
                if self.is_self_call(st.value, env):
                    return self.inline(st.value, env, lambda v, env2: self.bind(k, v, env2, go))
                if isinstance(st.value, ast.List):
                    return self.bind(k, self.list_literal(st.value, env), env, go)
                return self.bind(k, self.expr(st.value, env), env, go)
            if isinstance(tgt, ast.Tuple) and all(isinstance(t, ast.Name) for t in tgt.elts):
                names = [t.id for t in tgt.elts]
                if len(set(names)) != len(names):
                    raise self.bad("tuple target", st)

                def unpack(v, env2):
                    if v.kind != "tup" or len(v.elts) != len(names):
                        raise self.bad("unpacking", st)

                    def step(i, env3):
                        if i == len(names):
                            return self.block(rest, env3, fin)
                        return self.bind(names[i], v.elts[i], env3, lambda e4: step(i + 1, e4))
                    return step(0, env2)
                if self.is_self_call(st.value, env):
                    return self.inline(st.value, env, unpack)
                return unpack(self.expr(st.value, env), env)
            raise self.bad("assignment target", st)
        if isinstance(st, ast.If):
            return self.if_(st, rest, env, fin)
        if isinstance(st, ast.Raise):
            if not self.raises:
                raise self.bad("raise", st)
            exc = st.exc
            if isinstance(exc, ast.Call):
                exc = exc.func
            if st.cause is not None or not isinstance(exc, ast.Name) or exc.id not in EXC or exc.id in env:
                raise self.bad("raise of something that is not a known exception", st)
            self.tick()
            return [f".error .{EXC[exc.id]}"]
        if isinstance(st, ast.Return):
            if st.value is None:
                raise self.bad("bare return", st)
            if self.is_self_call(st.value, env):
                return self.inline(st.value, env, lambda v, env2: self.on_return(v, env2, st))
            return self.on_return(self.expr(st.value, env), env, st)
        if isinstance(st, ast.Expr) and isinstance(st.value, ast.Call):
            c = st.value
            f = c.func
            # super().__init__(x, y, n)
            if isinstance(f, ast.Attribute) and f.attr == "__init__" and isinstance(f.value, ast.Call) \
                    and isinstance(f.value.func, ast.Name) and f.value.func.id == "super" and "super" not in env \
                    and not f.value.args and not f.value.keywords:
                return self.super_init(c, env, go)
            # lst.append(e) / lst.extend([..])
            if isinstance(f, ast.Attribute) and f.attr in ("append", "extend") and isinstance(f.value, ast.Name) \
                    and f.value.id in env and env[f.value.id].kind in ("lnat", "lopt"):
                if len(c.args) != 1 or c.keywords or isinstance(c.args[0], ast.Starred):
                    raise self.bad(f"arguments of {f.attr}", st)
                lst = env[f.value.id]
                if f.attr == "append":
                    items = [c.args[0]]
                else:
                    if not isinstance(c.args[0], ast.List):
                        raise self.bad("extend with something that is not a list literal", st)
                    items = c.args[0].elts
                codes = [self.element(lst.kind, x, env) for x in items]
                return self.bind(f.value.id, V(lst.kind, f"{lst.code} ++ [{', '.join(codes)}]"), env, go)
        if isinstance(st, ast.For) and self.loop_hook is not None:
            return self.loop_hook(st, rest, env, fin)
        raise self.bad(f"statement {type(st).__name__}", st)

    def element(self, kind, x, env):
        if isinstance(x, ast.Starred):
            raise self.bad("starred", x)
        v = self.expr(x, env)
        if kind == "lnat":
            if v.kind != "nat":
                raise self.bad(f"a list of integers gets `{ast.unparse(x)}` ({v.kind})", x)
            return v.code
        if v.kind == "none":
            return "none"
        return f"some {paren(self.toK(v, x).code)}"

    def list_literal(self, e, env):
        if not e.elts:
            raise self.bad("empty list literal (element type unknown)", e)
        vs = [self.expr(x, env) for x in e.elts if not isinstance(x, ast.Starred)]
        if len(vs) != len(e.elts):
            raise self.bad("starred", e)
        if all(v.kind == "nat" for v in vs):
            return V("lnat", "[" + ", ".join(v.code for v in vs) + "]")
        if all(v.kind in ("none", "real") for v in vs):
            return V("lopt", "[" + ", ".join(self.element("lopt", x, env) for x in e.elts) + "]")
        raise self.bad("list literal", e)

    def if_(self, st, rest, env, fin):
        t = st.test
        # `v is None` / `v is not None` on an optional value, `if v:` on the optional supplier
        name, none_branch, some_branch = None, None, None
        if isinstance(t, ast.Compare) and len(t.ops) == 1 and isinstance(t.ops[0], (ast.Is, ast.IsNot)) \
                and isinstance(t.comparators[0], ast.Constant) and t.comparators[0].value is None \
                and self.key(t.left) is not None:
            name = self.key(t.left)
            none_branch, some_branch = (st.body, st.orelse) if isinstance(t.ops[0], ast.Is) else (st.orelse, st.body)
            v = self.lookup(t.left, env)
            if v.kind == "none":
                return self.block(none_branch + rest, env, fin)
            if v.kind in ("nat", "real", "arr", "fn", "supplierfn"):
                return self.block(some_branch + rest, env, fin)
            if v.kind not in ("opt", "supplier"):
                raise self.bad(f"`is None` on {v.kind}", st)
        elif self.key(t) is not None and self.key(t) in env and env[self.key(t)].kind in ("supplier", "supplierfn"):
            name = self.key(t)
            none_branch, some_branch = st.orelse, st.body
            v = env[name]
            if v.kind == "supplierfn":
                return self.block(some_branch + rest, env, fin)
        if name is not None:
            inner = self.fresh(name + "_v")
            self.tick(2)
            e1, e2 = dict(env), dict(env)
            e1[name] = V("none")
            e2[name] = V("real", inner) if v.kind == "opt" else V("supplierfn", inner)
            a = self.block(none_branch + rest, e1, fin)
            b = self.block(some_branch + rest, e2, fin)
            return [f"match {v.code} with", "| none =>"] + indent(a) + [f"| some {inner} =>"] + indent(b)
        c = self.cond(t, env)
        self.tick(2)
        a = self.block(st.body + rest, dict(env), fin)
        b = self.block(st.orelse + rest, dict(env), fin)
        return [f"if {c} then"] + indent(a) + ["else"] + indent(b)

    # -- inlining -------------------------------------------------------------------------------------
    def is_self_call(self, e, env):
        return isinstance(e, ast.Call) and isinstance(e.func, ast.Attribute) and isinstance(e.func.value, ast.Name) \
            and e.func.value.id == "self" and "self." + e.func.attr not in env and not e.args and not e.keywords \
            and "self" in env and env["self"].kind == "self"

    def inline(self, call, env, cont):
        """`self.m()` at statement level: the body of `m`, continued by `cont(value, env)` at every `return`"""
        self.depth += 8
        if self.depth > 60:
            raise self.bad("inlining too deep", call)
        _, fn = self.mod.method(self.cname, call.func.attr)
        if not self.plain_self(fn):
            raise self.bad(f"signature of {call.func.attr}", fn)
        sub = {k: v for k, v in env.items() if k == "self" or k.startswith("self.")}
        saved = self.on_return

        def ret(v, env2, node):
            self.on_return = saved
            try:
                back = dict(env)
                back.update({k: x for k, x in env2.items() if k.startswith("self.")})
                return cont(v, back)
            finally:
                self.on_return = ret
        self.on_return = ret
        try:
            def fell_off(env2):
                raise self.bad(f"{call.func.attr} can end without a return", fn)
            return self.block(list(fn.body), sub, fell_off)
        finally:
            self.on_return = saved
            self.depth -= 8

    def super_init(self, call, env, go):
        base = self.mod.base(self.cname)
        _, fn = self.mod.method(base, "__init__", inherit=False)
        a = fn.args
        if a.vararg or a.kwonlyargs or a.posonlyargs or fn.decorator_list or a.defaults or a.kw_defaults:
            raise self.bad(f"signature of {base}.__init__", fn)
        params = [p.arg for p in a.args]
        if not params or params[0] != "self":
            raise self.bad(f"signature of {base}.__init__", fn)
        params = params[1:]
        if any(isinstance(x, ast.Starred) for x in call.args) or len(call.args) > len(params):
            raise self.bad("arguments of super().__init__", call)
        given = dict(zip(params, call.args))
        for kw in call.keywords:
            if kw.arg is None or kw.arg not in params or kw.arg in given:
                raise self.bad("arguments of super().__init__", call)
            given[kw.arg] = kw.value
        if set(given) != set(params):
            raise self.bad("arguments of super().__init__", call)
        sub = {k: v for k, v in env.items() if k == "self" or k.startswith("self.")}
        for p in params:
            v = self.expr(given[p], env)
            if v.kind not in ("nat", "real", "arr", "opt"):
                raise self.bad(f"argument `{p}` of super().__init__", call)
            sub[p] = v
        saved_cls = self.cname
        self.cname = base

        def after(env2):
            self.cname = saved_cls
            back = dict(env)
            back.update({k: x for k, x in env2.items() if k.startswith("self.")})
            try:
                return go(back)
            finally:
                self.cname = base
        try:
            return self.block(list(fn.body), sub, after)
        finally:
            self.cname = saved_cls

    def on_return(self, v, env, node):
        raise self.bad("return", node)


def skip(st):
    return isinstance(st, ast.Pass) or \
        (isinstance(st, ast.Expr) and isinstance(st.value, ast.Constant) and isinstance(st.value.value, str))


# ---------------------------------------------------------------------------------------------
# what is translated
# ---------------------------------------------------------------------------------------------

def render(head, lines):
    return "\n".join([head] + indent(lines))


def tuple_type(kinds):
    return " × ".join(f"({TYPES[k]})" if "→" in TYPES[k] else TYPES[k] for k in kinds)


def binder(name, kind):
    return f"({name} : {TYPES[kind]})"


class Ctor:
    """`<cls>.__init__` -> `def <gen> (B : Nat) <parameters in signature order> : Except Err (<attrs>)`"""

    def __init__(self, cls, gen, attrs, fallback_args, fallback):
        self.cls, self.gen, self.attrs = cls, gen, attrs
        self.fallback_args, self.fallback = fallback_args, fallback
        self.name = f"{cls}.__init__"

    def fallback_text(self):
        return [f"def {self.gen} (B : Nat) {self.fallback_args} : Except Err ({tuple_type(k for _, k in self.attrs)}) :=",
                f"  {self.fallback}",
                f"def {self.gen}Defaults : {self.fallback_defaults_type} := {self.fallback_defaults}"]

    def translate(self, mod: Module):
        _, fn = mod.method(self.cls, "__init__", inherit=False)
        a = fn.args
        if a.vararg or a.kwonlyargs or a.posonlyargs or fn.decorator_list or a.kw_defaults:
            raise Unsupported(f"signature of {self.name}")
        if a.kwarg is not None and self.cls != "AbstractRFA":
            raise Unsupported(f"signature of {self.name}")
        params = [p.arg for p in a.args]
        if params[:4] != ["self", "x", "y", "n"]:
            raise Unsupported(f"signature of {self.name}: does not start with (self, x, y, n)")
        opt = params[4:]
        if len(a.defaults) != len(opt) or len(set(params)) != len(params):
            raise Unsupported(f"signature of {self.name}: optional parameters")
        ex = Exec(mod, self.cls, "__init__", raises=True)
        env = {"self": V("self"), "x": V("arr", "x"), "y": V("arr", "y"), "n": nat("n")}
        ex.used |= {"x", "y", "n"}
        binders = ["(B : Nat)", "(x y : Nat → K)", "(n : Nat)"]
        dtypes, dvals = [], []
        for p, d in zip(opt, a.defaults):
            if p in ex.used:
                raise Unsupported(f"parameter name `{p}` of {self.name}")
            ex.used.add(p)
            if isinstance(d, ast.Constant) and d.value is None:
                env[p] = V("opt", p)
                binders.append(f"({p} : Option K)")
                dtypes.append("Option K")
                dvals.append("none")
            elif is_num(d) or (isinstance(d, ast.UnaryOp) and isinstance(d.op, ast.USub) and is_num(d.operand)):
                env[p] = V("real", p)
                binders.append(f"({p} : K)")
                dtypes.append("K")
                dvals.append(lit(d.value if is_num(d) else -d.operand.value))
            else:
                raise Unsupported(f"default of `{p}` in {self.name}")

        def fin(env2):
            out = []
            for attr, kind in self.attrs:
                v = env2.get("self." + attr)
                if v is None:
                    raise Unsupported(f"{self.name} does not set self.{attr} on every path")
                if kind == "real" and v.kind == "nat":
                    v = ex.toK(v, fn)
                if v.kind != kind:
                    raise Unsupported(f"self.{attr} is {v.kind} in {self.name} (expected {kind})")
                out.append(v.code)
            return [f".ok ({', '.join(out)})"]
        lines = ex.block(list(fn.body), env, fin)
        head = f"def {self.gen} {' '.join(binders)} : Except Err ({tuple_type(k for _, k in self.attrs)}) :="
        dty = " × ".join(dtypes) if dtypes else "Unit"
        dv = "(" + ", ".join(dvals) + ")" if dvals else "()"
        return [render(head, lines), f"def {self.gen}Defaults : {dty} := {dv}"]


A_ARGS = "(x y : Nat → K) (n : Nat)"
OKA = "Rfa.deriveA B n alpha (RfaParamsVocab.optNat B a)"
CTORS = [
    Ctor("AbstractRFA", "abstractInit", [("x", "arr"), ("y", "arr"), ("n", "nat")], A_ARGS,
         "if n < 2 then .error .valueError else .ok (x, y, n)"),
    Ctor("LinearFixedRFA", "linFixedInit", [("a", "nat"), ("a_l", "nat"), ("a_r", "nat")],
         A_ARGS + " (alpha : K) (a : Option K)",
         f"if n < 2 then .error .valueError else .ok ({OKA}, {OKA} / 2, {OKA} / 2)"),
    Ctor("LinearAdaptiveRFA", "linAdaptiveInit", [("a", "nat"), ("adaptive_smooth", "real")],
         A_ARGS + " (alpha : K) (a : Option K) (adaptive_smooth : K)",
         f"if n < 2 then .error .valueError else .ok ({OKA}, adaptive_smooth)"),
    Ctor("ExpFixedRFA", "expFixedInit", [("a", "nat"), ("a_l", "nat"), ("a_r", "nat"), ("b", "nat"), ("exp", "real")],
         A_ARGS + " (alpha beta : K) (a : Option K) (exp : K)",
         f"if n < 2 then .error .valueError else .ok ({OKA}, {OKA} / 2, {OKA} / 2, "
         f"Rfa.deriveB B beta ({OKA} / 2), exp)"),
    Ctor("ExpAdaptiveRFA", "expAdaptiveInit",
         [("a", "nat"), ("beta", "real"), ("adaptive_smooth", "real"), ("exp", "real")],
         A_ARGS + " (alpha beta : K) (a : Option K) (adaptive_smooth exp : K)",
         f"if n < 2 then .error .valueError else .ok ({OKA}, beta, adaptive_smooth, exp)"),
]
DEFAULTS_FALLBACK = {
    "abstractInit": ("Unit", "()"),
    "linFixedInit": ("K × Option K", "((1 : K), none)"),
    "linAdaptiveInit": ("K × Option K × K", "((1 : K), none, (1 : K))"),
    "expFixedInit": ("K × K × Option K × K", "((1 : K), (((1 : Nat) : K) / ((2 : Nat) : K)), none, ((2 : Nat) : K))"),
    "expAdaptiveInit": ("K × K × Option K × K × K",
                        "((1 : K), (((1 : Nat) : K) / ((2 : Nat) : K)), none, (1 : K), ((2 : Nat) : K))"),
}
for _c in CTORS:
    _c.fallback_defaults_type, _c.fallback_defaults = DEFAULTS_FALLBACK[_c.gen]


# -- get_adaptive_transition_points -----------------------------------------------------------------------

GATP = "LinearAdaptiveRFA.get_adaptive_transition_points"
GATP_KINDS = {"x": ("iax", "(N : Nat)", "N"), "y": ("iay", "(Y : Nat → K)", "Y"),
              "a": ("nat", "(a : Nat)", "a"), "adaptive_smooth": ("powpar", "(gpow : K → K)", "gpow")}
STATE_T = "List Nat × List Nat × List (Option K)"
GATP_FALLBACK = [
    "def adaptiveStep (B : Nat) (N : Nat) (Y : Nat → K) (a : Nat) (gpow : K → K) (k : Nat)\n"
    f"    (l1 l2 : List Nat) (l3 : List (Option K)) : {STATE_T} :=\n"
    "  RfaParamsVocab.stepRef gpow a Y k (l1, l2, l3)",
    f"def adaptivePoints (B : Nat) (N : Nat) (Y : Nat → K) (a : Nat) (gpow : K → K) : {STATE_T} :=\n"
    "  RfaParamsVocab.pointsRef gpow a N Y",
]


def proj(i, n):
    """projection i of a right-nested n-tuple `st`"""
    s = "st" + ".2" * i
    return s + (".1" if i < n - 1 else "")


def translate_gatp(mod: Module):
    _, fn = mod.method("LinearAdaptiveRFA", "get_adaptive_transition_points", inherit=False)
    decs = fn.decorator_list
    if len(decs) != 1 or not (isinstance(decs[0], ast.Name) and decs[0].id == "staticmethod"):
        raise Unsupported(f"{GATP} is not a staticmethod")
    a = fn.args
    if a.vararg or a.kwarg or a.kwonlyargs or a.posonlyargs or a.defaults:
        raise Unsupported(f"signature of {GATP}")
    params = [p.arg for p in a.args]
    if sorted(params) != sorted(GATP_KINDS):
        raise Unsupported(f"signature of {GATP}: parameters are not x, y, a, adaptive_smooth")
    binders = " ".join(GATP_KINDS[p][1] for p in params)
    actuals = " ".join(GATP_KINDS[p][2] for p in params)
    # the order of the state: the order of the returned names
    rets = [s for s in ast.walk(fn) if isinstance(s, ast.Return)]
    if len(rets) != 1 or rets[0] is not fn.body[-1] or not isinstance(rets[0].value, ast.Tuple) \
            or not all(isinstance(x, ast.Name) for x in rets[0].value.elts):
        raise Unsupported(f"{GATP} does not end with one `return <names>`")
    ret_names = [x.id for x in rets[0].value.elts]
    if len(ret_names) != 3 or len(set(ret_names)) != 3:
        raise Unsupported(f"{GATP} does not return three lists")

    ex = Exec(mod, "LinearAdaptiveRFA", "get_adaptive_transition_points")
    env = {}
    for p in params:
        kind, _, code = GATP_KINDS[p]
        env[p] = V(kind, code, bound=code if kind == "nat" else None)
    ex.used |= {"a", "k"}
    step_def = []

    def loop(st, rest, env1, fin):
        if step_def:
            raise ex.bad("second loop", st)
        it = st.iter
        if st.orelse or not isinstance(st.target, ast.Name) or not (
                isinstance(it, ast.Call) and isinstance(it.func, ast.Name) and it.func.id == "range"
                and "range" not in env1 and not it.keywords and len(it.args) == 2):
            raise ex.bad("loop that is not `for k in range(lo, hi)`", st)
        if not (is_num(it.args[0]) and type(it.args[0].value) is int and it.args[0].value >= 0):
            raise ex.bad("start of the range is not a literal", st)
        lo = it.args[0].value
        hi_e = it.args[1]
        # `N - c` with literal c: Nat subtraction is the exact (empty range when negative) reading here
        if isinstance(hi_e, ast.BinOp) and isinstance(hi_e.op, ast.Sub) and is_num(hi_e.right) \
                and type(hi_e.right.value) is int and hi_e.right.value >= 0:
            h0 = ex.num(hi_e.left, env1)
            if h0.kind != "nat":
                raise ex.bad("end of the range", st)
            hi = f"{h0.code} - {hi_e.right.value}"
        else:
            h0 = ex.num(hi_e, env1)
            if h0.kind != "nat":
                raise ex.bad("end of the range", st)
            hi = h0.code
        kvar = st.target.id
        if kvar in env1:
            raise ex.bad(f"loop variable `{kvar}` shadows a local", st)
        lists = [n for n in ret_names if n in env1 and env1[n].kind in ("lnat", "lopt")]
        others = [n for n, v in env1.items() if v.kind in ("lnat", "lopt") and n not in lists]
        if others or len(lists) != 3:
            raise ex.bad("the lists before the loop are not exactly the three returned lists", st)
        kinds = [env1[n].kind for n in lists]
        if kinds != ["lnat", "lnat", "lopt"]:
            raise ex.bad("returned lists are not (integers, integers, optional reals)", st)
        assigned = {t.id for s in ast.walk(st) for t in ast.walk(s)
                    if isinstance(t, ast.Name) and isinstance(t.ctx, ast.Store)}
        carried = (assigned - {kvar}) & set(env1)
        if carried:
            raise ex.bad(f"`{sorted(carried)[0]}` is set before the loop and assigned inside it", st)
        # the body as its own definition
        bx = Exec(mod, "LinearAdaptiveRFA", "get_adaptive_transition_points")
        bx.used |= {"a", "k"}
        benv = {p: env[p] for p in params}
        benv[kvar] = nat("k", lo=lo)
        bx.loopvar = kvar
        sb = []
        for n, kd in zip(lists, kinds):
            ln = bx.fresh(n)
            benv[n] = V(kd, ln)
            sb.append(f"({ln} : {TYPES[kd]})")

        def bfin(env2):
            return ["(" + ", ".join(env2[n].code for n in lists) + ")"]
        body = bx.block(list(st.body), benv, bfin)
        if bx.uses_B:
            ex.uses_B = True
        step_def.append(render(
            f"def adaptiveStep (B : Nat) {binders} (k : Nat)\n    {' '.join(sb)} : {STATE_T} :=", body))
        # the fold
        stn = ex.fresh("st")
        ex.tick(4)
        init = "(" + ", ".join(env1[n].code for n in lists) + ")"
        args = " ".join(proj(i, 3) for i in range(3))
        out = [f"let {stn} := (List.range' {lo} ({hi} - {lo})).foldl",
               f"  (fun st k => adaptiveStep B {actuals} k {args}) {init}"]
        env2 = dict(env1)

        def after(i, env3):
            if i == 3:
                return ex.block(rest, env3, fin)
            return ex.bind(lists[i], V(kinds[i], proj(i, 3).replace("st", stn, 1)), env3,
                           lambda e4: after(i + 1, e4))
        return out + after(0, env2)

    ex.loop_hook = loop

    def on_return(v, env2, node):
        if v.kind != "tup" or [x.kind for x in v.elts] != ["lnat", "lnat", "lopt"]:
            raise ex.bad("returned value", node)
        return ["(" + ", ".join(x.code for x in v.elts) + ")"]
    ex.on_return = on_return

    def fell(env2):
        raise Unsupported(f"{GATP} can end without a return")
    lines = ex.block(list(fn.body), env, fell)
    if not step_def:
        raise Unsupported(f"{GATP}: no loop")
    return [step_def[0], render(f"def adaptivePoints (B : Nat) {binders} : {STATE_T} :=", lines)]


# -- b_ls / b_rs of ExpAdaptiveRFA.rfa ------------------------------------------------------------------------

BLISTS = "ExpAdaptiveRFA.rfa (b_ls, b_rs)"
BL_FALLBACK = ["def expAdaptiveBL (B : Nat) (beta : K) (v : Nat) : Nat := Rfa.deriveB B beta v",
               "def expAdaptiveBR (B : Nat) (beta : K) (v : Nat) : Nat := Rfa.deriveB B beta v"]


def translate_blists(mod: Module):
    _, fn = mod.method("ExpAdaptiveRFA", "rfa", inherit=False)
    if not Exec.plain_self(fn):
        raise Unsupported("signature of ExpAdaptiveRFA.rfa")
    env = {"self": V("self"), "self.beta": V("real", "beta")}
    windows = None
    comps = {}
    for st in fn.body:
        if not (isinstance(st, ast.Assign) and len(st.targets) == 1):
            continue
        tgt, val = st.targets[0], st.value
        if isinstance(tgt, ast.Tuple) and isinstance(val, ast.Call) and isinstance(val.func, ast.Attribute) \
                and val.func.attr == "get_adaptive_transition_points" and len(tgt.elts) == 3 \
                and all(isinstance(t, ast.Name) for t in tgt.elts):
            if windows is not None:
                raise Unsupported(f"{BLISTS}: two calls of get_adaptive_transition_points")
            windows = [t.id for t in tgt.elts]
            continue
        if isinstance(tgt, ast.Name) and isinstance(val, ast.Attribute) and Exec.key(val) == "self.beta":
            env[tgt.id] = V("real", "beta")
            continue
        if isinstance(tgt, ast.Name) and isinstance(val, ast.ListComp):
            lc = val
            if windows is None or len(lc.generators) != 1:
                raise Unsupported(f"{BLISTS}: list comprehension at rfa.py:{st.lineno}")
            g = lc.generators[0]
            if g.ifs or g.is_async or not isinstance(g.target, ast.Name) or not isinstance(g.iter, ast.Name) \
                    or g.iter.id not in windows[:2]:
                raise Unsupported(f"{BLISTS}: list comprehension that is not over a_ls / a_rs at rfa.py:{st.lineno}")
            side = "L" if g.iter.id == windows[0] else "R"
            if side in comps:
                raise Unsupported(f"{BLISTS}: two lists over `{g.iter.id}`")
            ex = Exec(mod, "ExpAdaptiveRFA", "rfa")
            sub = dict(env)
            sub[g.target.id] = nat("v")
            v = ex.num(lc.elt, sub)
            if v.kind != "nat":
                raise Unsupported(f"{BLISTS}: elements are not integers at rfa.py:{st.lineno}")
            comps[side] = f"def expAdaptiveB{side} (B : Nat) (beta : K) (v : Nat) : Nat := {v.code}"
            continue
        if isinstance(tgt, ast.Name) and tgt.id in env:
            del env[tgt.id]
    if set(comps) != {"L", "R"}:
        raise Unsupported(f"{BLISTS}: the two list comprehensions over a_ls / a_rs were not found")
    return [comps["L"], comps["R"]]


# -- frame of the simple strategies ---------------------------------------------------------------------------

PAIR_T = "(Nat → K) × (Nat → K)"


class Frame:
    def __init__(self, cls, meth, gen, extra_binders, extra_env, raises, fallback):
        self.cls, self.meth, self.gen = cls, meth, gen
        self.extra_binders, self.extra_env, self.raises, self.fallback = extra_binders, extra_env, raises, fallback
        self.name = f"{cls}.{meth}"

    @property
    def head(self):
        ty = f"Except Err ({PAIR_T})" if self.raises else PAIR_T
        return f"def {self.gen} (x y : Nat → K) (n : Nat){self.extra_binders} : {ty} :="

    def fallback_text(self):
        return [f"{self.head}\n  {self.fallback}"]

    def translate(self, mod: Module):
        _, fn = mod.method(self.cls, self.meth, inherit=False)
        if not Exec.plain_self(fn):
            raise Unsupported(f"signature of {self.name}")
        ex = Exec(mod, self.cls, self.meth, raises=self.raises)
        ex.used |= {"x", "y", "n", "supplier"}
        env = {"self": V("self"), "self.x": V("arr", "x"), "self.y": V("arr", "y"), "self.n": nat("n")}
        env.update(self.extra_env())

        def on_return(v, env2, node):
            if v.kind != "tup" or [x.kind for x in v.elts] != ["arr", "arr"]:
                raise ex.bad("returned value is not a pair of arrays", node)
            t = f"({v.elts[0].code}, {v.elts[1].code})"
            return [f".ok {t}" if self.raises else t]
        ex.on_return = on_return

        def fell(env2):
            raise Unsupported(f"{self.name} can end without a return")
        return [render(self.head, ex.block(list(fn.body), env, fell))]


FRAMES = [
    Frame("AbstractRFA", "_initial_oversample", "initialOversample", "", dict, False,
          "(oversampleLin x n, oversamplePC y n)"),
    Frame("PiecewiseConstantRFA", "rfa", "pcRfa", "", dict, False, "(oversampleLin x n, oversamplePC y n)"),
    Frame("FunctionRFA", "rfa", "functionRfa", " (supplier : Option ((Nat → K) → (Nat → K) → K → K))",
          lambda: {"self.sampling_function_supplier": V("supplier", "supplier"),
                   "self.sampling_function_supplier_kwargs": V("kwargs")}, True,
          "match supplier with\n  | none => .error .valueError\n"
          "  | some s => .ok (oversampleLin x n, fun j => s x y (oversampleLin x n j))"),
]


# ---------------------------------------------------------------------------------------------
# driver
# ---------------------------------------------------------------------------------------------

HEADER = [
    "import TWV.Model.RfaParamsVocab", "",
    "/-! GENERATED by harness/t12_rfaparams.py from src/traffic_weaver/rfa.py — do not edit.", "",
    "How the recreate-from-average strategies turn the user's parameters into windows: the constructors",
    "(`super().__init__` inlined; binders in the order of the Python signature; `B` bounds the `int()` floors",
    "that have no syntactically evident bound), `get_adaptive_transition_points` (loop body `adaptiveStep`,",
    "whole function `adaptivePoints`; `N` is `x.nr_of_full_intervals()`, `Y r` is `y[r, 0]`, `gpow` is",
    "`t ↦ t ** adaptive_smooth`), the `b_ls` / `b_rs` comprehensions of `ExpAdaptiveRFA.rfa`, and the frame of",
    "the piecewise-constant / function strategies.  `TWV/Tie/RfaParams.lean` ties these to `TWV/Model/Rfa.lean`. -/",
    "",
    "set_option linter.unusedVariables false", "",
    "namespace TWV", "namespace Generated.RfaParams", "",
    "variable {K : Type} [Add K] [Sub K] [Mul K] [Div K] [Neg K] [Zero K] [One K] [NatCast K]",
    "  [LT K] [LE K] [DecidableLT K] [DecidableLE K] [DecidableEq K]", "",
]


def units():
    """(name, translate(mod) -> [definitions], fallback definitions)"""
    out = []
    for c in CTORS:
        out.append((c.name, c.translate, c.fallback_text()))
    out.append((GATP, translate_gatp, GATP_FALLBACK))
    out.append((BLISTS, translate_blists, BL_FALLBACK))
    for f in FRAMES:
        out.append((f.name, f.translate, f.fallback_text()))
    return out


def generate(text=None, src_dir=None):
    """text: the source of rfa.py (default: the working tree); returns (Lean text, notes, translated names)"""
    broken, mod = None, None
    if text is None:
        try:
            text = (Path(src_dir) if src_dir is not None else SRC_DIR).joinpath("rfa.py").read_text()
        except OSError:
            broken = "source file is missing"
    if broken is None:
        try:
            mod = Module(ast.parse(text))
        except SyntaxError as e:
            broken = f"syntax error at rfa.py:{e.lineno}"
    out = list(HEADER)
    notes, done = [], []
    for name, translate, fallback in units():
        reason = broken
        if reason is None:
            try:
                out += translate(mod)
                done.append(name)
            except Unsupported as e:
                reason = str(e)
            except RecursionError:
                reason = "expression too deep"
        if reason is not None:
            notes.append(f"UNSUPPORTED {name}: {reason}")
            out.append(f"/- T12 cannot translate `{name}` ({reason}); alias of the hand model. -/")
            out += fallback
        out.append("")
    out += ["end Generated.RfaParams", "end TWV", ""]
    return "\n".join(out), notes, done


def regenerate(text=None, out=None, src_dir=None):
    lean, notes, done = generate(text, src_dir)
    out = Path(out) if out is not None else OUT
    out.parent.mkdir(parents=True, exist_ok=True)
    changed = (not out.exists()) or out.read_text() != lean
    if changed:
        out.write_text(lean)
    if notes:
        note = "; ".join(notes) + f"; translated: {', '.join(done) if done else 'nothing'}"
    else:
        note = f"all {len(done)} units translated (5 constructors, adaptive transition points, b lists, 3 frames)"
    return f"{note} ({'rewritten' if changed else 'unchanged'})"


def main(argv):
    """python -m harness.t12_rfaparams [--src-dir DIR] [--out FILE] [--stdout]   (DIR holds rfa.py)"""
    src_dir, out, to_stdout = None, None, False
    it = iter(argv)
    for a in it:
        if a == "--src-dir":
            src_dir = next(it)
        elif a == "--out":
            out = next(it)
        elif a == "--stdout":
            to_stdout = True
        else:
            print(main.__doc__)
            return 2
    if to_stdout:
        lean, notes, _ = generate(None, src_dir)
        print(lean)
        for n in notes:
            print("--", n)
    else:
        print(regenerate(None, out, src_dir))
    return 0


if __name__ == "__main__":
    sys.exit(main(sys.argv[1:]))
