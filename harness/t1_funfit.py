"""Translator T1: /repo/src/traffic_weaver/funfit.py (Python AST) -> lean/TWV/Generated/Funfit.lean

Supported subset: positional parameters, 2-tuple unpacking of a parameter, straight-line
`name = expr`, `return expr`; expressions + - * /, unary minus, numeric literals (floats become
exact rationals), calls to other functions of the module, `e ** alpha` where `alpha` is the
function's exponent parameter (emitted as `pw e`), `e ** <non-negative int literal>`.
Anything else: the function is emitted as an alias of the hand model and the tie for it falls
back to the differential correspondence (recorded in the evidence).
"""
from __future__ import annotations

import ast
from fractions import Fraction
from pathlib import Path

from .core import LEAN, REPO

OUT = LEAN / "TWV" / "Generated" / "Funfit.lean"
SRC = REPO / "src" / "traffic_weaver" / "funfit.py"
FUNCS = {"lin_fit": "linFit", "exp_fit": "expFit", "exp_xy_fit": "expXYFit", "exp_lin_fit": "expLinFit",
         "lin_exp_xy_fit": "linExpXYFit"}
REQUIRED = False


class Unsupported(Exception):
    pass


def lit(v):
    if isinstance(v, bool):
        raise Unsupported("bool literal")
    f = Fraction(v) if not isinstance(v, float) else Fraction(repr(v))
    if f < 0:
        return f"(-{lit(-f)})"
    if f.denominator == 1:
        if f.numerator == 0:
            return "(0 : K)"
        if f.numerator == 1:
            return "(1 : K)"
        return f"(({f.numerator} : Nat) : K)"
    return f"((({f.numerator} : Nat) : K) / (({f.denominator} : Nat) : K))"


class FnTranslator:
    def __init__(self, fn: ast.FunctionDef, module_funcs):
        self.fn = fn
        self.module_funcs = module_funcs
        self.params = [a.arg for a in fn.args.args]
        self.uses_pw = "alpha" in self.params
        self.tuple_params = set()
        self.lines = []

    def where(self, node):
        return f"{SRC.name}:{getattr(node, 'lineno', '?')}"

    def expr(self, e):
        if isinstance(e, ast.BinOp):
            if isinstance(e.op, ast.Pow):
                if isinstance(e.right, ast.Name) and e.right.id == "alpha" and self.uses_pw:
                    return f"(pw {self.expr(e.left)})"
                if isinstance(e.right, ast.Constant) and isinstance(e.right.value, int) and e.right.value >= 0:
                    base = self.expr(e.left)
                    k = e.right.value
                    if k == 0:
                        return "(1 : K)"
                    return "(" + " * ".join([base] * k) + ")"
                raise Unsupported(f"power at {self.where(e)}")
            ops = {ast.Add: "+", ast.Sub: "-", ast.Mult: "*", ast.Div: "/"}
            if type(e.op) not in ops:
                raise Unsupported(f"operator {type(e.op).__name__} at {self.where(e)}")
            return f"({self.expr(e.left)} {ops[type(e.op)]} {self.expr(e.right)})"
        if isinstance(e, ast.UnaryOp) and isinstance(e.op, ast.USub):
            return f"((0 : K) - {self.expr(e.operand)})"
        if isinstance(e, ast.UnaryOp) and isinstance(e.op, ast.UAdd):
            return self.expr(e.operand)
        if isinstance(e, ast.Constant) and isinstance(e.value, (int, float)):
            return lit(e.value)
        if isinstance(e, ast.Name):
            if e.id == "alpha":
                raise Unsupported(f"alpha used outside an exponent at {self.where(e)}")
            return e.id
        if isinstance(e, ast.Call) and isinstance(e.func, ast.Name) and e.func.id in self.module_funcs:
            callee = self.module_funcs[e.func.id]
            args = list(e.args)
            if e.keywords:
                for kw in e.keywords:
                    if kw.arg == "alpha" and isinstance(kw.value, ast.Name) and kw.value.id == "alpha":
                        continue
                    raise Unsupported(f"keyword argument at {self.where(e)}")
            callee_params = [a.arg for a in callee.args.args]
            pos = []
            for i, a in enumerate(args):
                if callee_params[i] == "alpha":
                    if not (isinstance(a, ast.Name) and a.id == "alpha"):
                        raise Unsupported(f"exponent argument is not forwarded unchanged at {self.where(e)}")
                    continue
                pos.append(self.expr(a))
            pw = " pw" if "alpha" in callee_params else ""
            if "alpha" in callee_params and not self.uses_pw:
                raise Unsupported(f"call of an exponent function without an exponent at {self.where(e)}")
            return f"(Gen.{e.func.id}{pw} {' '.join(pos)})"
        raise Unsupported(f"expression {type(e).__name__} at {self.where(e)}")

    def translate(self):
        body = list(self.fn.body)
        if body and isinstance(body[0], ast.Expr) and isinstance(body[0].value, ast.Constant) \
                and isinstance(body[0].value.value, str):
            body = body[1:]
        ret = None
        for st in body:
            if ret is not None:
                raise Unsupported(f"statement after return at {self.where(st)}")
            if isinstance(st, ast.Assign) and len(st.targets) == 1:
                tgt = st.targets[0]
                if isinstance(tgt, ast.Tuple) and len(tgt.elts) == 2 and all(isinstance(t, ast.Name) for t in tgt.elts) \
                        and isinstance(st.value, ast.Name) and st.value.id in self.params:
                    p = st.value.id
                    self.tuple_params.add(p)
                    self.lines.append(f"  let {tgt.elts[0].id} := {p}.1")
                    self.lines.append(f"  let {tgt.elts[1].id} := {p}.2")
                elif isinstance(tgt, ast.Name):
                    self.lines.append(f"  let {tgt.id} := {self.expr(st.value)}")
                else:
                    raise Unsupported(f"assignment target at {self.where(st)}")
            elif isinstance(st, ast.Return) and st.value is not None:
                ret = self.expr(st.value)
            else:
                raise Unsupported(f"statement {type(st).__name__} at {self.where(st)}")
        if ret is None:
            raise Unsupported("no return")
        binders = []
        for p in self.params:
            if p == "alpha":
                continue
            binders.append(f"({p} : K × K)" if p in self.tuple_params else f"({p} : K)")
        pw = "(pw : K → K) " if self.uses_pw else ""
        head = f"def Gen.{self.fn.name} {pw}{' '.join(binders)} : K :="
        return "\n".join([head] + self.lines + [f"  {ret}"])


def generate():
    tree = ast.parse(SRC.read_text())
    funcs = {n.name: n for n in tree.body if isinstance(n, ast.FunctionDef)}
    out = ["import TWV.Model.Funfit", "",
           "/-! GENERATED by harness/t1_funfit.py from src/traffic_weaver/funfit.py — do not edit. -/", "",
           "set_option linter.unusedVariables false", "",
           "namespace TWV", "",
           "variable {K : Type} [Add K] [Sub K] [Mul K] [Div K] [Zero K] [One K] [NatCast K]", ""]
    notes = []
    for name, model in FUNCS.items():
        if name not in funcs:
            notes.append(f"UNSUPPORTED {name}: not defined in funfit.py")
            continue
        try:
            out.append(FnTranslator(funcs[name], funcs).translate())
        except Unsupported as e:
            notes.append(f"UNSUPPORTED {name}: {e}")
            has_pw = name != "lin_fit"
            pw = "(pw : K → K) " if has_pw else ""
            pwa = "pw " if has_pw else ""
            out.append(f"/- T1 cannot translate `{name}` ({e}); tie falls back to the correspondence. -/\n"
                       f"def Gen.{name} {pw}(x : K) (xy_0 : K × K) (xy_1 : K × K) : K :=\n  {model} {pwa}x xy_0 xy_1")
        out.append("")
    out += ["end TWV", ""]
    return "\n".join(out), notes


def regenerate():
    text, notes = generate()
    OUT.parent.mkdir(parents=True, exist_ok=True)
    changed = (not OUT.exists()) or OUT.read_text() != text
    if changed:
        OUT.write_text(text)
    note = "; ".join(notes) if notes else "all five shape functions translated"
    return f"{note} ({'rewritten' if changed else 'unchanged'})"


if __name__ == "__main__":
    print(regenerate())
