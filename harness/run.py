"""Entry point:  python -m harness.run <ID> [--tier quick|thorough] [--replay FILE]

Per check, in this order (DESIGN.md section 5):
 corpus -> regenerate (T1/T2) -> build -> audit -> correspondence (+ oracle on every case)
 -> known findings -> failing-input search if anything broke -> evidence.
Exit 0: property held on everything explored. Exit 1: `VIOLATION property=<id> replay=<path>`.
Exit 2: infrastructure failure (never a VIOLATION line).
"""
from __future__ import annotations

import argparse
import importlib
import json
import os
import sys
import time
import traceback
from pathlib import Path

from . import core, shapes
from .core import Rng, Stats

_CHILD = {}
# per-run budgets of the schedule dimension (set by run() from the tier)
_SCHED = {"threads_s": 10.0, "preempt_cases": 40, "per_kind_max": 6, "per_kind": {}}


def run_in_dash_o_child(pid, case):
    """run the implementation side of a case in a `python -O` interpreter (None: the child could not do it)"""
    import subprocess
    ch = _CHILD.get("p")
    if ch is None or ch.poll() is not None:
        env = dict(os.environ, PYTHONPATH=str(core.VERIF) + os.pathsep + os.environ.get("PYTHONPATH", ""))
        ch = subprocess.Popen([sys.executable, "-O", "-m", "harness.child"], cwd=str(core.VERIF), env=env, text=True,
                              stdin=subprocess.PIPE, stdout=subprocess.PIPE, stderr=subprocess.DEVNULL)
        _CHILD["p"] = ch
    try:
        ch.stdin.write(json.dumps({"pid": pid, "case": case}, default=str) + "\n")
        ch.stdin.flush()
        ans = json.loads(ch.stdout.readline())
    except Exception:  # noqa
        return None
    if "io" not in ans or ans.get("optimize", 0) < 1:
        return None
    back = ans.get("case")
    if isinstance(back, dict):              # what run_impl leaves in the case for request()/compare()
        back["hist"] = case.get("hist")
        case.clear()
        case.update(back)
    return ans["io"]


def run_in_threads(prop, cases, nthreads=6, rounds=200, budget_s=2.5):
    """run the implementation side of the cases concurrently: every case is first run on its own (the reference
    observation), then `rounds` times together with the others in `nthreads` threads of this interpreter that are
    started together, the interpreter switching between them as often as it can.  Code that is deterministic and safe
    to call from several threads returns the same data every time; the first observation that differs from the
    sequential one is what is handed on (and then fails the comparison with the model / the oracle)."""
    import copy
    import threading

    def observe(c):
        try:
            return shapes.run_with_history(prop.run_impl, c)
        except Exception as e:  # noqa
            return {"runner_exception": f"{type(e).__name__}: {e}"}

    def key(o):
        try:
            return json.dumps(o, sort_keys=True, default=str)
        except Exception:  # noqa
            return repr(o)
    outs = [observe(c) for c in cases]
    keys = [key(o) for o in outs]
    differing = {}
    nthreads = max(2, min(nthreads, len(cases)))
    old = sys.getswitchinterval()
    sys.setswitchinterval(1e-6)
    try:
        t_end = time.time() + budget_s
        for rnd in range(rounds):
            if rnd >= 2 and time.time() > t_end:
                break
            barrier = threading.Barrier(nthreads)

            def work(t, rnd=rnd, barrier=barrier):
                try:
                    barrier.wait(timeout=30)
                except Exception:  # noqa
                    pass
                # every thread goes through ALL the cases, each starting somewhere else
                n = len(cases)
                start = (t * n) // nthreads
                idx = [(start + j) % n for j in range(n)]
                if (rnd + t) % 2:
                    idx.reverse()
                for i in idx:
                    if len(differing) >= 20:
                        break
                    if t % 2:
                        # every other thread works on look-alikes (same shapes, other numbers): a value that leaks
                        # from one thread into another is then visible
                        shapes.run_decoy(prop.run_impl, cases[i])
                        continue
                    o = observe(copy.deepcopy(cases[i]))
                    if i not in differing and key(o) != keys[i]:
                        differing[i] = o
            ths = [threading.Thread(target=work, args=(t,), daemon=True) for t in range(nthreads)]
            for th in ths:
                th.start()
            for th in ths:
                th.join(timeout=600)
            if differing:
                break
    finally:
        sys.setswitchinterval(old)
    for i, o in differing.items():
        if isinstance(o, dict) and isinstance(outs[i], dict):
            o = dict(o)
            o["_differs_from_sequential_run"] = True
        outs[i] = o
    return outs


def run_preempted_case(prop, c, k=24):
    """the systematic schedule dimension (harness/preempt.py): the case is run alone, then again and again with a
    look-alike call run by another thread at a chosen line of the library; both must keep returning what they return alone"""
    import copy
    from . import preempt

    def observe(cc):
        try:
            return shapes.run_with_history(prop.run_impl, cc)
        except Exception as e:  # noqa
            return {"runner_exception": f"{type(e).__name__}: {e}"}

    def key(o):
        try:
            return json.dumps(clean(o), sort_keys=True, default=str)
        except Exception:  # noqa
            return repr(o)

    def fn_b():
        return shapes.run_decoy(prop.run_impl, c)
    ref_a = observe(c)
    ref_b = fn_b()
    firsts = []
    _, n = preempt.count_lines(lambda: observe(copy.deepcopy(c)), firsts)
    ps = [c["preempt_at"]] if c.get("preempt_at") else preempt.positions(n, k, case_key(clean(c)), firsts)
    for p in ps:
        out_a, fired = preempt.run_preempted(lambda: observe(copy.deepcopy(c)), fn_b, p)
        if not fired:
            continue
        if key(out_a) != key(ref_a):
            c["preempt_at"] = p
            if isinstance(out_a, dict):
                out_a = dict(out_a)
                out_a["_schedule"] = (f"with another thread running a look-alike call (same shapes, other numbers) while this one "
                                      f"is held at library line #{p} of {n}, the call returns something else than it does alone")
            return out_a
        out_b = fn_b()
        if key(out_b) != key(ref_b):
            c["preempt_at"] = p
            return {"runner_exception": f"schedule: after this call was preempted at library line #{p} of {n} by a look-alike "
                                        f"call (same shapes, other numbers), the look-alike call - alone again - returns something "
                                        f"else than before: per-call data outlives the call"}
    return ref_a


def run_one(prop, c, stats=None):
    """the implementation side of one case, in the layout / history / interpreter the case names"""
    if isinstance(c, dict) and c.get("hist") == "preempt":
        return run_preempted_case(prop, c)
    if isinstance(c, dict) and c.get("hist") == "dashO":
        io = run_in_dash_o_child(prop.ID, c)
        if io is not None:
            return io
        if stats is not None:
            stats.hit("hist=dashO:fell-back-in-process")
    return shapes.run_with_history(prop.run_impl, c)


def load_prop(pid):
    return importlib.import_module(f"harness.props.{pid.lower()}")


def clean(o):
    """drop the harness's private '_' keys before a case is written out"""
    if isinstance(o, dict):
        return {k: clean(v) for k, v in o.items() if not str(k).startswith("_")}
    if isinstance(o, list):
        return [clean(v) for v in o]
    return o


def case_key(case):
    return json.dumps(case, sort_keys=True, default=str)


def evaluate(prop, cases, stats):
    """run implementation, model and oracle on the cases.
    returns (records, disagreements, oracle_failures)"""
    core.repo_on_path()
    impl_outs = [None] * len(cases)
    threaded = [i for i, c in enumerate(cases) if isinstance(c, dict) and c.get("hist") == "threads"][:150]
    for c in cases:
        # the systematic sweep costs some dozens of runs per case: a budget of cases per run, the rest runs plainly
        if isinstance(c, dict) and c.get("hist") == "preempt" and not c.get("preempt_at"):
            kind = str(c.get("kind") or c.get("strategy") or c.get("cls") or "-")
            used = _SCHED.setdefault("per_kind", {})
            if _SCHED["preempt_cases"] <= 0 or used.get(kind, 0) >= _SCHED.get("per_kind_max", 4):
                c["hist"] = "none"       # spread over the kinds of cases a check has
            else:
                _SCHED["preempt_cases"] -= 1
                used[kind] = used.get(kind, 0) + 1
    if _SCHED["threads_s"] <= 0:
        for i in threaded:
            cases[i]["hist"] = "none"
        threaded = []
    for i, c in enumerate(cases):
        if i in set(threaded) and len(threaded) >= 2:
            continue
        try:
            impl_outs[i] = run_one(prop, c, stats)
        except Exception as e:   # the implementation behaved in a way the runner cannot even record
            impl_outs[i] = {"runner_exception": f"{type(e).__name__}: {e}"}
    if len(threaded) >= 2:
        # the schedule dimension: these cases run at the same time, each in its own thread of this interpreter
        t_thr = time.time()
        for i, out in zip(threaded, run_in_threads(prop, [cases[i] for i in threaded], budget_s=min(2.5, _SCHED["threads_s"]))):
            impl_outs[i] = out
        _SCHED["threads_s"] -= time.time() - t_thr
    reqs = []
    spans = []
    for c, io in zip(cases, impl_outs):
        if isinstance(io, dict) and "runner_exception" in io:
            spans.append((len(reqs), len(reqs)))
            continue
        try:
            r = prop.request(c)
        except Exception as e:  # noqa
            io["runner_exception"] = f"request: {type(e).__name__}: {e}"
            r = []
        if r is None:
            r = []
        if isinstance(r, str):
            r = [r]
        spans.append((len(reqs), len(reqs) + len(r)))
        reqs.extend(r)
    answers = core.run_driver(reqs) if reqs else []
    records, disagreements, oracle_fail = [], [], []
    for c, io, (a, b) in zip(cases, impl_outs, spans):
        mo = answers[a:b]
        if isinstance(io, dict) and "runner_exception" in io:
            d, o = f"the implementation could not be run / recorded: {io['runner_exception']}", None
        else:
            try:
                d = prop.compare(c, io, mo)
                if isinstance(io, dict) and io.get("_schedule") and not d:
                    d = "schedule: " + io["_schedule"]
            except Exception as e:  # noqa
                d = f"comparison with the model failed on the implementation's output: {type(e).__name__}: {e}"
            try:
                o = prop.oracle(c, io)
            except Exception as e:  # noqa
                o = None
                d = d or f"the property oracle could not evaluate the implementation's output: {type(e).__name__}: {e}"
        rec = {"case": c, "impl": io, "model": mo}
        records.append(rec)
        if d:
            disagreements.append({**rec, "disagreement": d})
        if o:
            oracle_fail.append({**rec, "violation": o})
        try:
            if isinstance(c, dict) and "layout" in c:
                stats.hit("hist=" + str(c.get("hist")))
                for lay in set(c["layout"].split(",")):
                    stats.hit("layout:" + lay.rstrip("!"))
                    if lay.endswith("!"):
                        stats.hit("layout:read-only")
            for t in prop.tags(c, io, mo):
                stats.hit(t)
        except Exception:  # noqa
            stats.hit("untaggable")
    return records, disagreements, oracle_fail


def known_filter(prop, pid, fails, known):
    """split oracle failures into known findings and new ones"""
    new, matched = [], {}
    findings = [f for f in known.get("findings", []) if f.get("property") == pid]
    for f in fails:
        hit = None
        for k in findings:
            if prop.matches_known(k, f):
                hit = k
                break
        if hit is None:
            new.append(f)
        else:
            matched.setdefault(hit["id"], (hit, f))
    return new, matched


# translators whose every definition is translated on the pinned text: an UNSUPPORTED note is a change of the source
STRICT_TRANSLATORS = ("t9_weaver", "t10_process", "t11_match", "t12_rfaparams", "t13_interval", "t14_weaverio", "t15_smoothglue")


def main(argv=None):
    ap = argparse.ArgumentParser()
    ap.add_argument("pid")
    ap.add_argument("--tier", default=os.environ.get("VERIF_TIER", "quick"), choices=["quick", "thorough"])
    ap.add_argument("--replay")
    ap.add_argument("--no-build", action="store_true")
    args = ap.parse_args(argv)
    pid = args.pid.upper()
    seed = int(os.environ.get("VERIF_SEED", "0"))
    t0 = time.time()
    try:
        return run(pid, args.tier, seed, args, t0)
    except SystemExit:
        raise
    except BaseException:
        traceback.print_exc()
        print(f"INFRASTRUCTURE-ERROR property={pid}")
        return 2


def run(pid, tier, seed, args, t0):
    prop = load_prop(pid)
    core.repo_on_path()
    stats = Stats()
    _SCHED.update({"threads_s": 10.0, "preempt_cases": 40, "per_kind_max": 6, "per_kind": {}} if tier == "quick"
                  else {"threads_s": 120.0, "preempt_cases": 600, "per_kind_max": 60, "per_kind": {}})
    known = core.load_known()
    broken = []          # broken obligations / correspondences (strings)

    # --- replay mode ------------------------------------------------------------------------
    if args.replay:
        rp = json.loads(Path(args.replay).read_text())
        cases = [rp["case"]] if "case" in rp else []
        if not cases:
            print(f"replay {args.replay}: no concrete input recorded ({rp.get('broken')})")
            return 1
        _, dis, fails = evaluate(prop, cases, stats)
        for f in fails:
            print(f"replay: property fails on the current tree: {f['violation']}")
        for d in dis:
            print(f"replay: model and implementation disagree: {d['disagreement']}")
        return 1 if (fails or dis) else 0

    # --- 1. corpus ---------------------------------------------------------------------------
    corpus_cases = []
    cdir = core.CORPUS / pid
    if cdir.is_dir():
        for f in sorted(cdir.glob("*.json")):
            corpus_cases.append(json.loads(f.read_text())["case"])

    # --- 2. regenerate translator outputs ------------------------------------------------------
    regen_notes = []
    for t in getattr(prop, "TRANSLATORS", []):
        mod = importlib.import_module(f"harness.{t}")
        note = mod.regenerate()
        regen_notes.append(f"{t}: {note}")
        if note.startswith("UNSUPPORTED") and getattr(mod, "REQUIRED", False):
            broken.append(f"translator {t}: {note}")
        elif "UNSUPPORTED" in note and t in STRICT_TRANSLATORS:
            # the text of a function left the translated subset: its generated definition is an alias of the hand model,
            # the tie theorem holds trivially and no longer says anything about the code - a broken obligation (a harmless
            # rewrite can cause it too; the search for a failing input decides what is reported)
            broken.append(f"translator {t}: the model is no longer regenerated from the source text: {note}")

    # --- 3. build ----------------------------------------------------------------------------------
    modules = list(prop.MODULES)
    build_ok, build_log = (True, "")
    if not args.no_build:
        build_ok, build_log = core.lake_build(modules + ["twvdriver"])
    if not build_ok:
        errs = [ln for ln in build_log.splitlines() if "error" in ln.lower()][:20]
        broken.append("lake build failed: " + " | ".join(errs))

    # --- 4. audit ----------------------------------------------------------------------------------
    theorems = []
    for m in modules:
        theorems += [(m, n) for n in core.theorems_of(m)]
    discharged = 0
    axioms_seen = set()
    audit_bad = []
    if build_ok:
        for m in modules:
            names = [n for (mm, n) in theorems if mm == m]
            res = core.audit(m, names)
            for n in names:
                ax = res.get(n)
                if ax is None:
                    audit_bad.append(f"{n}: not found by #print axioms")
                elif set(ax) - core.ALLOWED_AXIOMS:
                    audit_bad.append(f"{n}: axioms {sorted(set(ax) - core.ALLOWED_AXIOMS)}")
                else:
                    discharged += 1
                    axioms_seen |= set(ax)
        bad_tokens = core.forbidden_tokens()
        if bad_tokens:
            audit_bad.append("forbidden tokens: " + "; ".join(bad_tokens[:10]))
    if audit_bad:
        broken.append("audit: " + " | ".join(audit_bad[:10]))
    leanchecker = "not run (quick tier)"
    if build_ok and tier == "thorough":
        # independent re-check of the compiled .olean files by the toolchain's external checker
        import subprocess
        p = subprocess.run(["lake", "env", "leanchecker", *modules], cwd=core.LEAN, capture_output=True, text=True, timeout=3000)
        leanchecker = "ok" if p.returncode == 0 else f"FAILED: {(p.stdout + p.stderr)[-300:]}"
        if p.returncode != 0:
            broken.append("leanchecker: " + leanchecker)

    # --- 5. correspondence + oracle on every case ---------------------------------------------------
    rng = Rng(f"{pid}-{seed}-{tier}")
    import hashlib
    import itertools
    records, dis, fails = ([], [], [])      # only the first few records are kept (thorough runs see millions of cases)
    n_eval = 0
    n_dis = 0
    keys = set()
    driver_ok = core.DRIVER_EXE.exists()
    shape_rng = Rng(f"{pid}-{seed}-{tier}-shapes")
    use_shapes = getattr(prop, "SHAPES", True)

    def decorated(gen, r):
        for c in gen:
            yield shapes.decorate(c, r, allow_threads=getattr(prop, "THREADS", False)) if use_shapes else c
    stream = itertools.chain(corpus_cases, decorated(prop.cases(rng, tier), shape_rng))
    while True:
        chunk = list(itertools.islice(stream, 5000))
        if not chunk:
            break
        if driver_ok:
            try:
                recs, d, f = evaluate(prop, chunk, stats)
            except core.DriverError as e:
                broken.append(f"model driver: {e}")
                driver_ok = False
                recs, d, f = [], [], []
        if not driver_ok:
            # the model cannot run: the oracle alone still looks for failing inputs
            recs, d, f = [], [], []
            for c in chunk:
                try:
                    io = run_one(prop, c)
                    o = prop.oracle(c, io)
                except Exception:  # noqa
                    continue
                recs.append({"case": c, "impl": io, "model": None})
                if o:
                    f.append({"case": c, "impl": io, "model": None, "violation": o})
        n_eval += len(recs)
        for r in recs:
            try:
                k = prop.nontrivial_key(r["case"], r["impl"], r["model"])
            except Exception:  # noqa
                k = None
            if k is not None:
                keys.add(hashlib.md5(json.dumps(clean(k), sort_keys=True, default=str).encode()).digest())
        if len(records) < 3:
            records += recs[:3 - len(records)]
        n_dis += len(d)
        dis += d[:max(0, 50 - len(dis))]
        fails += f[:max(0, 200 - len(fails))]
        if n_dis >= 200 or len(fails) >= 2000:
            break          # something is badly broken: no need to grind through the rest
    cases_total = n_eval
    if dis:
        broken.append(f"correspondence: {n_dis} of {cases_total} cases disagree, first: {dis[0]['disagreement']}")

    # --- 6. known findings ---------------------------------------------------------------------------
    new_fails, matched = known_filter(prop, pid, fails, known)
    # disagreements that are explained by a known finding are not a broken correspondence
    dis_new = [d for d in dis if not any(prop.matches_known(k, d) for k in known.get("findings", [])
                                          if k.get("property") == pid)]
    if dis and not dis_new:
        broken = [b for b in broken if not b.startswith("correspondence:")]
    for k in known.get("findings", []):
        if k.get("property") != pid:
            continue
        if k["id"] in matched:
            print(f"KNOWN-FINDING: property={pid} {k['what']}")
        else:
            # re-run the recorded witness on the real code
            w = k.get("witness")
            if w is not None:
                io = run_one(prop, w)
                o = prop.oracle(w, io)
                if o:
                    print(f"KNOWN-FINDING: property={pid} {k['what']}")

    # --- 7. verdict ----------------------------------------------------------------------------------
    violation = None
    def shrunk(case, io, msg):
        """a smaller witness of the same property's violation, if the greedy shrinker finds one"""
        from . import shrink as shr
        kn = [k for k in known.get("findings", []) if k.get("property") == pid]
        try:
            r = shr.shrink(prop, run_one, clean(case), budget=120 if tier == "quick" else 600,
                           accept=lambda c, o, m: not any(prop.matches_known(k, {"case": c, "impl": o, "violation": m}) for k in kn))
        except Exception:  # noqa
            r = None
        if not r or not r[3]:
            return clean(case), clean(io), msg, []
        return r[0], clean(r[1]), r[2], r[3]
    if new_fails:
        f = min(new_fails, key=lambda r: len(case_key(r["case"])))
        sc, so, sm, slog = shrunk(f["case"], f["impl"], f["violation"])
        violation = {"kind": "failing-input", "case": sc, "observed": so, "model": f["model"] if not slog else None,
                     "violation": sm, "broken": broken, "shrunk_by": slog,
                     "found_as": clean(f["case"]) if slog else None}
    elif broken:
        # search the implementation for a failing input with the oracle alone
        found = None
        budget = 4000 if tier == "quick" else 40000
        srng = Rng(f"{pid}-{seed}-search")
        tried = 0
        for rep in range(20):
            for c in decorated(prop.cases(srng, "search"), srng):
                tried += 1
                try:
                    io = run_one(prop, c)
                    o = prop.oracle(c, io)
                except Exception:  # noqa
                    continue
                if o and not any(prop.matches_known(k, {"case": c, "impl": io, "violation": o})
                                 for k in known.get("findings", []) if k.get("property") == pid):
                    found = {"case": c, "impl": io, "violation": o}
                    break
                if tried >= budget:
                    break
            if found or tried >= budget:
                break
        if found:
            sc, so, sm, slog = shrunk(found["case"], found["impl"], found["violation"])
            violation = {"kind": "failing-input", "case": sc, "observed": so, "violation": sm, "broken": broken,
                         "shrunk_by": slog, "found_as": clean(found["case"]) if slog else None}
        else:
            violation = {"kind": "no-failing-input-found", "broken": broken,
                         "first_disagreement": (clean(dis_new[0]) if dis_new else None),
                         "searched": tried, "build_log_tail": build_log[-3000:] if not build_ok else ""}

    # --- 8. evidence -----------------------------------------------------------------------------------
    def brief(v, n=1500):
        t = json.dumps(clean(v), default=str)
        return clean(v) if len(t) <= n else t[:n] + "...(truncated)"
    samples = [{"case": brief(r["case"]), "impl": brief(r["impl"]), "model": brief(r["model"])} for r in records[:3]]
    samples += [{"theorem": n} for (_, n) in theorems[:5]]
    ev = {
        "property_id": pid,
        "tier": tier,
        "seed": seed,
        "level": "proof",
        "coverage": {
            "obligations": len(theorems),
            "discharged": discharged,
            "checker_cmd": f"cd lean && lake build {' '.join(modules)} && lake env lean <#print axioms of every theorem>",
            "trusted_base": core.TRUSTED_BASE + list(getattr(prop, "TRUSTED", [])),
            "theorems": [n for (_, n) in theorems],
            "axioms_used": sorted(axioms_seen),
            "leanchecker": leanchecker,
            "tie": getattr(prop, "TIE", "hand model + differential correspondence through the native model driver"),
            "translators": regen_notes,
            "evaluations": n_eval,
            "distinct_nontrivial": len(keys),
            "rule": prop.RULE,
            "samples": samples,
            "input_distribution": stats.as_dict(),
            "disagreements_checked": n_dis,
            "oracle_failures": len(fails),
            "known_findings_reproduced": sorted(matched.keys()),
            "partial": getattr(prop, "PARTIAL", ""),
            "exhaustive": bool(getattr(prop, "EXHAUSTIVE", False)) and tier in getattr(prop, "EXHAUSTIVE_TIERS", ("quick", "thorough")),
        },
        "assumptions": list(getattr(prop, "ASSUMPTIONS", [])),
        "wall_s": round(time.time() - t0, 2),
        "violations": 0 if violation is None else 1,
    }
    core.write_evidence(pid, ev)

    if violation is None:
        print(f"OK property={pid} tier={tier} seed={seed} theorems={discharged}/{len(theorems)} "
              f"cases={n_eval} nontrivial={len(keys)} wall={ev['wall_s']}s")
        return 0
    path = core.write_replay(pid, seed, {"property": pid, "tier": tier, "seed": seed, **violation,
                                         "how_to_rerun": f"./check {pid} --replay <this file>"})
    tail = " no-failing-input-found" if violation["kind"] == "no-failing-input-found" else ""
    print(f"VIOLATION property={pid} replay={path}{tail}")
    return 1


if __name__ == "__main__":
    sys.exit(main())
