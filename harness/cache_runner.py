"""Instrumented execution of the real remote-dataset loader (C19): fault scripts, crash points,
concurrent schedules.  No source hooks: module attributes of traffic_weaver.datasets._base are
replaced from the outside and restored afterwards."""
from __future__ import annotations

import fcntl
import gzip as gzipmod
import hashlib
import io
import json
import os
import pickle
import random
import sys
import time
from urllib.error import URLError

import numpy as np

from .core import repo_on_path, err_kind


def payload_for(ds: int, kind: str = "g", gz: bool = False) -> bytes:
    rows = "".join(f"{i},{i * (ds + 2)}.25\n" for i in range(6))
    if kind == "c":
        rows = "".join(f"{i},{i * (ds + 7)}.5\n" for i in range(6))       # valid CSV, wrong content
    data = rows.encode()
    if gz:
        def member(b):
            buf = io.BytesIO()
            with gzipmod.GzipFile(fileobj=buf, mode="wb", mtime=0) as f:
                f.write(b)
            return buf.getvalue()
        if gz == "multi":
            # an archive of two members split on a row boundary (`gzip -c day2.csv >> series.csv.gz`): still one valid file
            cut = data.index(b"\n", len(data) // 2) + 1
            data = member(data[:cut]) + member(data[cut:])
        else:
            data = member(data)
    if kind == "x":
        data = data[: len(data) // 2]                                      # truncated
    return data


def good_array(ds: int):
    return np.array([[float(i), float(i * (ds + 2)) + 0.25] for i in range(6)])


def remote_for(ds: int, gz: bool):
    repo_on_path()
    from traffic_weaver.datasets._base import RemoteFileMetadata
    good = payload_for(ds, "g", gz)
    return RemoteFileMetadata(filename=f"ds{ds}.csv" + (".gz" if gz else ""), url=f"https://example.invalid/ds{ds}",
                              checksum=hashlib.sha256(good).hexdigest())


FOLDER = "folder"


def slot_name(ds):
    return f"slot{ds}"


def observe(home, ds):
    """abstract file-system state: (entry, [tmp dirs])"""
    ddir = os.path.join(home, FOLDER)
    entry = "absent"
    p = os.path.join(ddir, slot_name(ds))
    if os.path.exists(p):
        try:
            with open(p, "rb") as f:
                arr = pickle.Unpickler(f).load()
            entry = "complete:good" if np.array_equal(arr, good_array(ds)) else "complete:other"
        except Exception:
            entry = "corrupt"
    tmps = []
    if os.path.isdir(ddir):
        for name in sorted(os.listdir(ddir)):
            q = os.path.join(ddir, name)
            if os.path.isdir(q):
                files = os.listdir(q)
                arch = any(f.startswith("ds") for f in files)
                pk = "absent"
                for f in files:
                    if f.startswith("slot"):
                        try:
                            with open(os.path.join(q, f), "rb") as fh:
                                pickle.Unpickler(fh).load()
                            pk = "pickle"
                        except Exception:
                            pk = "partial"
                tmps.append(("archive" if arch else "empty") + ("" if pk == "absent" else "+" + pk))
    return entry, tmps


class Killed(SystemExit):
    pass


def run_loader(home, ds, script, dl=True, even=False, retries=3, gz=False, crash_at=None, observer=None,
               logger=None, delay=None):
    """Run the real loader once with a scripted network.
    script: list of 'u','t','o','g','c','x' consumed by the download attempts.
    crash_at: (op, phase) at which the process exits with os._exit(17) (only in a child process).
    observer(tag): called at every boundary.  logger(tag, fn): performs fn and logs atomically.
    Returns {'ok': rows} | {'err': kind}, plus 'attempts'."""
    repo_on_path()
    import traffic_weaver.datasets._base as base
    remote = remote_for(ds, gz)
    script = list(script)
    state = {"attempts": 0}
    target = os.path.join(home, FOLDER, slot_name(ds))

    def boundary(op, phase):
        if delay:
            delay()
        if observer:
            observer(f"{op}:{phase}")
        if crash_at == (op, phase):
            os._exit(17)

    def log(tag, fn=None):
        if logger:
            return logger(tag, fn)
        return fn() if fn else None

    orig = {"urlretrieve": base.urlretrieve, "sha": base._sha256, "loadtxt": np.loadtxt, "dump": pickle.dump,
            "rename": os.rename, "sleep": time.sleep, "exists": os.path.exists, "load": pickle.load}

    def urlretrieve(url, path):
        boundary("urlretrieve", "before")
        state["attempts"] += 1
        a = script.pop(0) if script else "u"
        if a in ("u", "t", "o"):
            log(f"dl:{a}")
            raise {"u": URLError("scripted"), "t": TimeoutError("scripted"), "o": TypeError("scripted")}[a]
        data = payload_for(ds, a, gz)
        if crash_at == ("urlretrieve", "inside"):
            with open(path, "wb") as f:
                f.write(data[: len(data) // 2])
                f.flush()
            os._exit(17)
        with open(path, "wb") as f:
            f.write(data)
        log(f"dl:{a}")
        boundary("urlretrieve", "after")
        return path, None

    def sha(path):
        boundary("sha", "before")
        r = orig["sha"](path)
        log("sha")
        boundary("sha", "after")
        return r

    def loadtxt(*a, **k):
        boundary("loadtxt", "before")
        r = orig["loadtxt"](*a, **k)
        log("loadtxt")
        boundary("loadtxt", "after")
        return r

    def dump(obj, f, *a, **k):
        log("dump:open")
        boundary("dump", "before")
        if crash_at == ("dump", "inside"):
            data = pickle.dumps(obj)
            f.write(data[: len(data) // 2])
            f.flush()
            os._exit(17)
        r = orig["dump"](obj, f, *a, **k)
        log("dump:done")
        boundary("dump", "after")
        return r

    def rename(src, dst):
        boundary("rename", "before")
        r = log("rename", lambda: orig["rename"](src, dst))
        boundary("rename", "after")
        return r

    def exists(p):
        if p == target:
            return log("exists", lambda: orig["exists"](p))
        return orig["exists"](p)

    def load(f, *a, **k):
        return log("load", lambda: orig["load"](f, *a, **k))

    base.urlretrieve, base._sha256 = urlretrieve, sha
    np.loadtxt, pickle.dump, os.rename, time.sleep = loadtxt, dump, rename, (lambda s: None)
    os.path.exists, pickle.load = exists, load
    try:
        import warnings
        with warnings.catch_warnings():
            warnings.simplefilter("ignore")
            if observer:
                observer("start")
            try:
                r = base.load_csv_dataset_from_remote(remote=remote, dataset_filename=slot_name(ds), dataset_folder=FOLDER,
                                                      data_home=home, download_if_missing=dl,
                                                      download_even_if_available=even, validate_checksum=True,
                                                      n_retries=retries, delay=0.0, gzip=bool(gz))
                out = {"ok": np.asarray(r).tolist()}
            except Exception as e:  # noqa
                out = {"err": err_kind(e)}
            # the with-block has been left: temporary directory removed (two model steps: cleaned, done)
            if "ok" in out and state["attempts"] > 0:
                log("cleaned")
            if "ok" in out:
                log("done")
            if observer:
                observer("end")
    finally:
        base.urlretrieve, base._sha256 = orig["urlretrieve"], orig["sha"]
        np.loadtxt, pickle.dump, os.rename, time.sleep = orig["loadtxt"], orig["dump"], orig["rename"], orig["sleep"]
        os.path.exists, pickle.load = orig["exists"], orig["load"]
    out["attempts"] = state["attempts"]
    return out


def run_two_threads(home, gz=False):
    """Two loader THREADS of one interpreter (call it inside a child process): thread A loads dataset 0, thread B
    dataset 1 and meets one transient network error exactly while A is parsing its download; both must end with their
    data, B after two download attempts.  Returns {'A': .., 'B': .., 'attempts_B': n}."""
    import threading
    import warnings
    repo_on_path()
    import traffic_weaver.datasets._base as base
    warnings.simplefilter("ignore")
    a_parsing, b_past_failure = threading.Event(), threading.Event()
    who = {}
    attempts = {"A": 0, "B": 0}
    orig_loadtxt = np.loadtxt

    def urlretrieve(url, path):
        me = who.get(threading.get_ident())
        attempts[me] += 1
        ds = 0 if me == "A" else 1
        if me == "B":
            if attempts["B"] == 1:
                a_parsing.wait(10)
                raise URLError("scripted transient failure")
            b_past_failure.set()
        with open(path, "wb") as f:
            f.write(payload_for(ds, "g", gz))
        return path, None

    def loadtxt(*a, **k):
        if who.get(threading.get_ident()) == "A":
            a_parsing.set()
            b_past_failure.wait(10)
        return orig_loadtxt(*a, **k)
    base.urlretrieve = urlretrieve
    np.loadtxt = loadtxt
    time.sleep = lambda s: None
    out = {}

    def load(me, ds):
        who[threading.get_ident()] = me
        try:
            r = base.load_csv_dataset_from_remote(remote=remote_for(ds, gz), dataset_filename=slot_name(ds),
                                                  dataset_folder=FOLDER, data_home=home, download_if_missing=True,
                                                  download_even_if_available=False, validate_checksum=True, n_retries=3,
                                                  delay=0.0, gzip=bool(gz))
            out[me] = "good" if np.array_equal(np.asarray(r), good_array(ds)) else "other"
        except BaseException as e:  # noqa
            out[me] = "raised " + type(e).__name__
        finally:
            if me == "B":
                b_past_failure.set()
    ta = threading.Thread(target=load, args=("A", 0))
    tb = threading.Thread(target=load, args=("B", 1))
    ta.start()
    tb.start()
    ta.join(60)
    tb.join(60)
    out["attempts_B"] = attempts["B"]
    out["entries"] = [observe(home, 0)[0], observe(home, 1)[0]]
    return out


def run_in_child(fn):
    """fork, run fn in the child, return (exit status, result written by the child or None)"""
    r, w = os.pipe()
    pid = os.fork()
    if pid == 0:
        code = 0
        try:
            os.close(r)
            res = fn()
            with os.fdopen(w, "w") as f:
                json.dump(res, f)
        except SystemExit:
            raise
        except BaseException as e:   # noqa
            sys.stderr.write(f"child failed: {e!r}\n")
            code = 3
        finally:
            os._exit(code)
    os.close(w)
    with os.fdopen(r) as f:
        data = f.read()
    _, status = os.waitpid(pid, 0)
    res = json.loads(data) if data else None
    return os.waitstatus_to_exitcode(status), res


def run_schedule(home, procs, seed):
    """procs: list of dicts {ds, script, dl, even, retries, gz}. Runs them as concurrent processes with
    seeded delays; interacting operations are performed and logged atomically under a file lock.
    Returns (log lines [(proc, tag)], outcomes per process)."""
    logp = os.path.join(home, "_log")
    lockp = os.path.join(home, "_lock")
    open(logp, "w").close()
    open(lockp, "w").close()
    pids = []
    pipes = []
    for i, p in enumerate(procs):
        r, w = os.pipe()
        pid = os.fork()
        if pid == 0:
            code = 0
            try:
                os.close(r)
                rnd = random.Random(f"{seed}-{i}")
                lf = os.open(logp, os.O_WRONLY | os.O_APPEND)
                lk = open(lockp, "w")

                def logger(tag, fn=None):
                    fcntl.flock(lk, fcntl.LOCK_EX)
                    try:
                        res = fn() if fn else None
                        os.write(lf, f"{i} {tag}\n".encode())
                        return res
                    except BaseException:
                        os.write(lf, f"{i} {tag}!\n".encode())
                        raise
                    finally:
                        fcntl.flock(lk, fcntl.LOCK_UN)

                def delay():
                    time.sleep(rnd.random() * 0.004)
                res = run_loader(home, p["ds"], p["script"], p.get("dl", True), p.get("even", False), p.get("retries", 3),
                                 p.get("gz", False), logger=logger, delay=delay)
                with os.fdopen(w, "w") as f:
                    json.dump(res, f)
            except BaseException as e:  # noqa
                sys.stderr.write(f"child {i} failed: {e!r}\n")
                code = 3
            finally:
                os._exit(code)
        os.close(w)
        pids.append(pid)
        pipes.append(r)
    outs = []
    for pid, r in zip(pids, pipes):
        with os.fdopen(r) as f:
            data = f.read()
        os.waitpid(pid, 0)
        outs.append(json.loads(data) if data else {"err": "ChildCrashed"})
    lines = [ln.split(" ", 1) for ln in open(logp).read().splitlines()]
    return [(int(a), b) for a, b in lines], outs
