"""Run every translator (T1 funfit, T2 dataset tables) against /repo's working tree."""
import importlib
import sys

def main():
    for t in ("t1_funfit", "t2_tables", "t3_vector"):
        try:
            mod = importlib.import_module(f"harness.{t}")
        except ModuleNotFoundError:
            continue
        print(t, mod.regenerate())

if __name__ == "__main__":
    sys.exit(main())
