"""Run every translator (T1 funfit, T2 dataset tables, T3 vector arithmetic, T4 rfa loops, T5 search scans, T6 Weaver effect order, T7 loader protocol, T8 array helpers) against /repo's working tree."""
import importlib
import sys

def main():
    for t in ("t1_funfit", "t2_tables", "t3_vector", "t4_rfaloops", "t5_search", "t6_effects", "t7_loader", "t8_arrays"):
        try:
            mod = importlib.import_module(f"harness.{t}")
        except ModuleNotFoundError:
            continue
        print(t, mod.regenerate())

if __name__ == "__main__":
    sys.exit(main())
