"""Run every translator (T1 funfit, T2 dataset tables, T3 vector arithmetic, T4 rfa loops, T5 search scans, T6 Weaver effect order, T7 loader protocol, T8 array helpers, T9 Weaver step content, T10 process functions, T11 match control flow, T12 RFA parameters, T13 IntervalArray, T14 Weaver accessors / factories / value slicing, T15 smoothing glue and sampling-function plumbing) against /repo's working tree."""
import importlib
import sys

def main():
    for t in ("t1_funfit", "t2_tables", "t3_vector", "t4_rfaloops", "t5_search", "t6_effects", "t7_loader", "t8_arrays",
              "t9_weaver", "t10_process", "t11_match", "t12_rfaparams", "t13_interval", "t14_weaverio", "t15_smoothglue"):
        try:
            mod = importlib.import_module(f"harness.{t}")
        except ModuleNotFoundError:
            continue
        print(t, mod.regenerate())

if __name__ == "__main__":
    sys.exit(main())
