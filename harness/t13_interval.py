"""Translator T13: class `IntervalArray` (Python AST of interval.py) -> lean/TWV/Generated/IntervalArray.lean

Every method of `IntervalArray` becomes a Lean program `Gen.ia_<method> (self_a : Vec K) (self_n : Nat) … :
Except Err τ` (`do` notation; the instance state `self.a`, `self.n` is explicit, NumPy's / Python's
exceptions are values of `Except Err`).  Target vocabulary: `TWV.Np` (NpPrims.lean), `TWV.Iv`
(IntervalVocab.lean: checked indexing, NaN padding with `Option K` cells, shape-checked reshape /
concatenate) and, for the delegating methods, the definitions `Gen.extend_linspace_<d>`,
`Gen.extend_constant_<d>`, `Gen.oversample_linspace`, `Gen.oversample_piecewise_constant` that T8 generates
from sorted_array_utils.py.  `TWV/Tie/IntervalArray.lean` proves the generated programs equal to the hand
model `TWV/Model/Interval.lean` (`pyIndex`, `flat`, `get`, `set`, `nrFull`, `rows`, `to2d`, `to2dClosed`,
`rowsClosed`) and `extendLin` / `extendConst` / `oversampleLin` / `oversamplePC` (Arrays.lean).

Specialisations (one Lean definition each)
  __getitem__ / __setitem__   item an `int` (`_int`), a tuple of two ints (`_pair`), a tuple of one / three
                               ints (`_len1`, `_len3`): `isinstance(item, int)`, `len(item) == 2` are decided
                               by the specialisation, `item[0]` is a component
  extend_linspace / extend_constant   one per `direction` in both / left / right
  everything else              once
Result types: a scalar, an array, a count, a NaN-padded matrix `Mat (Option K)`, or — for methods that
assign to `self.a` / `self.n`, and for methods returning `IntervalArray(..)` — the state `Vec K × Nat`.

Kinds   S real   V 1-D array   N count   I integer   B flag   F callable (array, count) -> array
        SO possibly-NaN scalar (`np.nan` = none)   VO possibly-NaN 1-D array   MO possibly-NaN 2-D array
        TUP tuple of integers of known length   IA an IntervalArray value (state pair)   C str / None constant

Supported subset
  statements   docstring, pass, `x = e`, `x, y = e1, e2`, `x op= e`, `self.a = e`, `self.n = e`,
               `self.a[k] = s` (checked), `return e`, `raise IndexError/ValueError/TypeError(..)`,
               `if` decided by the specialisation (only the live branch), other `if` (branches that only
               assign are merged, otherwise the continuation is duplicated), falling off the end of a
               state-changing method
  expressions  names, int / float / bool literals, + - * / // % on the kinds above (`-` of counts is an integer),
               `-(-a // b)`, `math.ceil(a / b)`, `np.ceil(a / b)`, `a if c else b`,
               `self.a`, `self.n`, `self.a[k]` / `v[k]` (checked: IndexError), `v[lo:hi]`, `item[<literal>]`,
               `len(v)`, `len(self)`, `v.size`, `v.shape[0]`, `len(item)`, `iter(v)`, `int(k)`,
               `np.asarray / array / asanyarray (v)`, `v.astype(..)`, `v.copy()`,
               `np.nan`, `float('nan')`, `[[x]]`, `np.full(k, np.nan)`,
               `np.pad(v, (b, a) | k, mode='constant', constant_values=np.nan)`,
               `vo.reshape(r, c)`, `.reshape(-1, c)`, `.reshape(r, -1)`, `.reshape((r, c))`, `mo.T`, `mo.transpose()`,
               `mo[lo:hi]`, `mo[lo:hi, lo:hi]`, `np.concatenate([..], axis=0|1)` / `np.vstack` / `np.hstack` of 2-D
               values, `np.concatenate([..])` / `np.append` of 1-D values,
               `extend_linspace(..)`, `extend_constant(..)`, `oversample_linspace(..)`,
               `oversample_piecewise_constant(..)` imported from `.sorted_array_utils` (arguments are bound to
               the callee's parameter list read from sorted_array_utils.py; `direction` must be static),
               a callable parameter applied to (array, count), `self.<method>(..)` for the non-mutating
               methods, `IntervalArray(a, n)`
  tests        comparisons of counts / integers / reals, a flag, `not`, `and`, `or`, a count used as a truth value,
               `isinstance(p, int|tuple)` and comparisons of literal integers (static)
Anything else: the definition is emitted as an alias of the hand model, with a note `UNSUPPORTED <def>: <reason>`.
"""
from __future__ import annotations

import ast
import sys
from pathlib import Path

from .core import LEAN, REPO
from .t3_vector import Dynamic, Unsupported, int_const, lit
from .t3_vector import ident as _ident3

OUT = LEAN / "TWV" / "Generated" / "IntervalArray.lean"
SRC_DIR = REPO / "src" / "traffic_weaver"
FILES = ("interval.py", "sorted_array_utils.py")
REQUIRED = False
CLASS = "IntervalArray"

S, V, N, I, B, F, SO, VO, MO, TUP, IA, C = "S", "V", "N", "I", "B", "F", "SO", "VO", "MO", "TUP", "IA", "C"
NP = ("np", "numpy")
EXTRA_CLASH = {"Np", "Iv", "Mat", "Interval", "Err", "self_a", "self_n", "Except"}
IDENTITY_CALLS = ("asarray", "array", "asanyarray", "ascontiguousarray", "copy")
ERRORS = {"IndexError": ".indexError", "ValueError": ".valueError", "TypeError": ".typeError"}


def ident(name):
    if name in EXTRA_CLASH or name.startswith("t'"):
        raise Unsupported(f"variable name `{name}` clashes with the generated vocabulary")
    return _ident3(name)


class Val:
    def __init__(self, kind, code=None, value=None, elts=None, literal=None):
        self.kind, self.code, self.value, self.elts, self.literal = kind, code, value, elts, literal


LEAN_TY = {"S": "K", "V": "Vec K", "N": "Nat", "MO": "Mat (Option K)", "ST": "Vec K × Nat"}

# functions of sorted_array_utils.py that T8 translates: expected parameter list (name, kind, default)
EXTERN = {
    "extend_linspace": [("a", V, None), ("n", N, None), ("direction", "STATIC", "'both'"),
                        ("lstart", "O", "None"), ("rstop", "O", "None")],
    "extend_constant": [("a", V, None), ("n", N, None), ("direction", "STATIC", "'both'")],
    "oversample_linspace": [("a", V, None), ("num", N, None)],
    "oversample_piecewise_constant": [("a", V, None), ("num", N, None)],
}
DIRECTIONS = ("both", "left", "right")
PURE_SELF_METHODS = ("to_2d_array", "to_2d_array_closed_intervals", "nr_of_full_intervals", "__len__",
                     "oversample", "oversample_linspace", "oversample_piecewise")


class Spec:
    def __init__(self, gen, py, params, binders, ret, fallback, static=None, prop=False):
        self.gen, self.py, self.params, self.binders, self.ret = gen, py, params, binders, ret
        self.fallback, self.static, self.prop = fallback, static or {}, prop


GET = "Interval.get self_a.get self_a.len self_n"
SET = "Interval.set self_a.get self_a.len self_n"
SETMAP = ".map (fun f => (Vec.ofFn self_a.len f, self_n))"

SPECS = [
    Spec("ia_init", "__init__", {"a": V, "n": N}, "(a : Vec K) (n : Nat)", "ST", ".ok (a, n)"),
    Spec("ia_getitem_int", "__getitem__", {"item": I}, "(item : Int)", "S", f"{GET} 0 item"),
    Spec("ia_getitem_pair", "__getitem__", {"item": ("TUP", 2)}, "(item_0 item_1 : Int)", "S", f"{GET} item_0 item_1"),
    Spec("ia_getitem_len1", "__getitem__", {"item": ("TUP", 1)}, "(item_0 : Int)", "S", ".error .indexError"),
    Spec("ia_getitem_len3", "__getitem__", {"item": ("TUP", 3)}, "(item_0 item_1 item_2 : Int)", "S",
         ".error .indexError"),
    Spec("ia_setitem_int", "__setitem__", {"key": I, "value": S}, "(key : Int) (value : K)", "ST",
         f"({SET} 0 key value){SETMAP}"),
    Spec("ia_setitem_pair", "__setitem__", {"key": ("TUP", 2), "value": S}, "(key_0 key_1 : Int) (value : K)", "ST",
         f"({SET} key_0 key_1 value){SETMAP}"),
    Spec("ia_setitem_len3", "__setitem__", {"key": ("TUP", 3), "value": S}, "(key_0 key_1 key_2 : Int) (value : K)",
         "ST", ".error .indexError"),
    Spec("ia_iter", "__iter__", {}, "", "V", ".ok self_a"),
    Spec("ia_array", "array", {}, "", "V", ".ok self_a", prop=True),
    Spec("ia_len", "__len__", {}, "", "N", ".ok self_a.len"),
    Spec("ia_nr_of_full_intervals", "nr_of_full_intervals", {}, "", "N", ".ok (Interval.nrFull self_a.len self_n)"),
] + [
    Spec(f"ia_extend_linspace_{d}", "extend_linspace", {"direction": "STATIC"}, "", "ST",
         f".ok (Gen.extend_linspace_{d} self_a self_n none none, self_n)", {"direction": d}) for d in DIRECTIONS
] + [
    Spec(f"ia_extend_constant_{d}", "extend_constant", {"direction": "STATIC"}, "", "ST",
         f".ok (Gen.extend_constant_{d} self_a self_n, self_n)", {"direction": d}) for d in DIRECTIONS
] + [
    Spec("ia_to_2d_array", "to_2d_array", {}, "", "MO",
         ".ok ⟨Interval.rows self_a.len self_n, self_n, Interval.to2d self_a.get self_a.len self_n⟩"),
    Spec("ia_to_2d_array_closed_intervals", "to_2d_array_closed_intervals", {"drop_last": B}, "(drop_last : Bool)", "MO",
         "if self_a.len = 0 then .error .valueError else "
         ".ok ⟨Interval.rowsClosed self_a.len self_n drop_last, self_n + 1, "
         "Interval.to2dClosed self_a.get self_a.len self_n⟩"),
    Spec("ia_oversample", "oversample", {"num": N, "method": F}, "(num : Nat) (method : Vec K → Nat → Vec K)", "ST",
         ".ok (method self_a num, self_n * num)"),
    Spec("ia_oversample_linspace", "oversample_linspace", {"num": N}, "(num : Nat)", "ST",
         ".ok (Gen.oversample_linspace self_a num, self_n * num)"),
    Spec("ia_oversample_piecewise", "oversample_piecewise", {"num": N}, "(num : Nat)", "ST",
         ".ok (Gen.oversample_piecewise_constant self_a num, self_n * num)"),
]
SPEC_OF = {}
for _s in SPECS:
    SPEC_OF.setdefault(_s.py, _s)


def sig(spec):
    b = f" {spec.binders}" if spec.binders else ""
    return f"def Gen.{spec.gen} (self_a : Vec K) (self_n : Nat){b} : Except Err ({LEAN_TY[spec.ret]}) :="


if True:  # ia_init has no instance state yet
    def _sig_init(spec):
        return f"def Gen.{spec.gen} {spec.binders} : Except Err ({LEAN_TY[spec.ret]}) :="


class Ctx:
    """what the module and the class look like: imports, methods, the callee signatures"""

    def __init__(self, tree: ast.Module, sau_tree):
        self.imported = {}      # local name -> function of sorted_array_utils
        self.module_names = set()
        self.numpy_names = set()   # local names bound to the numpy module
        self.math_names = set()
        for node in tree.body:
            if isinstance(node, ast.ImportFrom):
                for al in node.names:
                    local = al.asname or al.name
                    self.module_names.add(local)
                    self.numpy_names.discard(local)
                    self.math_names.discard(local)
                    if node.level == 1 and node.module == "sorted_array_utils" and al.name in EXTERN:
                        self.imported[local] = al.name
                    elif local in self.imported:
                        del self.imported[local]
            elif isinstance(node, ast.Import):
                for al in node.names:
                    local = (al.asname or al.name).split(".")[0]
                    self.module_names.add(local)
                    self.numpy_names.discard(local)
                    self.math_names.discard(local)
                    if al.name == "numpy":
                        self.numpy_names.add(local)
                    if al.name == "math":
                        self.math_names.add(local)
            elif isinstance(node, (ast.FunctionDef, ast.ClassDef)):
                self.module_names.add(node.name)
                self.imported.pop(node.name, None)
                self.numpy_names.discard(node.name)
                self.math_names.discard(node.name)
            elif isinstance(node, (ast.Assign, ast.AnnAssign, ast.AugAssign)):
                for n in ast.walk(node):
                    if isinstance(n, ast.Name) and isinstance(n.ctx, ast.Store):
                        self.module_names.add(n.id)
                        self.imported.pop(n.id, None)
                        self.numpy_names.discard(n.id)
                        self.math_names.discard(n.id)
        classes = [n for n in tree.body if isinstance(n, ast.ClassDef) and n.name == CLASS]
        self.cls = classes[0] if len(classes) == 1 else None
        self.methods = {}
        self.dup = set()
        self.cls_problem = None
        if self.cls is not None:
            if self.cls.decorator_list or self.cls.bases or self.cls.keywords:
                self.cls_problem = f"class {CLASS} has decorators / base classes"
            for n in self.cls.body:
                if isinstance(n, ast.FunctionDef):
                    if n.name in self.methods:
                        self.dup.add(n.name)
                    self.methods[n.name] = n
                elif isinstance(n, ast.Expr) and isinstance(n.value, ast.Constant):
                    continue
                else:  # a class-level statement may rebind a method / install `__getattr__` hooks
                    self.cls_problem = f"class-level statement at interval.py:{n.lineno}"
            for node in tree.body:  # the class patched from outside (`IntervalArray.__getitem__ = …`, `setattr`)
                if node is self.cls or isinstance(node, (ast.Import, ast.ImportFrom)):
                    continue
                if any(isinstance(x, ast.Name) and x.id == CLASS for x in ast.walk(node)):
                    self.cls_problem = f"module-level use of {CLASS} at interval.py:{node.lineno}"
        self.sau = {}
        self.sau_problem = None
        if sau_tree is None:
            self.sau_problem = "sorted_array_utils.py cannot be read"
        else:
            for n in sau_tree.body:
                if isinstance(n, ast.FunctionDef) and n.name in EXTERN:
                    self.sau[n.name] = n

    def extern_problem(self, name):
        """None when `name` of sorted_array_utils has the parameter list T8 translates"""
        if self.sau_problem:
            return self.sau_problem
        fn = self.sau.get(name)
        if fn is None:
            return f"{name} is not defined in sorted_array_utils.py"
        a = fn.args
        if a.vararg or a.kwarg or a.kwonlyargs or a.posonlyargs:
            return f"signature of sorted_array_utils.{name}"
        names = [p.arg for p in a.args]
        defaults = [None] * (len(names) - len(a.defaults)) + [ast.unparse(d) for d in a.defaults]
        want = EXTERN[name]
        if names != [w[0] for w in want] or defaults != [w[2] for w in want]:
            return f"parameter list of sorted_array_utils.{name} changed"
        return None


class FnTranslator:
    def __init__(self, spec: Spec, fn: ast.FunctionDef, ctx: Ctx):
        self.spec, self.fn, self.ctx = spec, fn, ctx
        self.fresh = 0
        self.sink = None       # (lines, ind) receiving the binds of fallible sub-expressions
        self.no_bind = 0

    # -- diagnostics ---------------------------------------------------------------------------
    def where(self, node):
        return f"interval.py:{getattr(node, 'lineno', '?')}"

    def bad(self, what, node):
        return Unsupported(f"{what} at {self.where(node)}")

    def fallible(self, code, kind, node):
        if self.no_bind or self.sink is None:
            raise self.bad("an operation that can raise inside a conditional expression", node)
        self.fresh += 1
        t = f"t'{self.fresh}"
        lines, ind = self.sink
        lines.append(f"{ind}let {t} ← {code}")
        return Val(kind, t)

    # -- coercions -----------------------------------------------------------------------------
    def to_S(self, v, node):
        if v.kind == S:
            return v.code
        if v.kind == N:
            return lit(v.literal) if v.literal is not None else f"(({v.code} : Nat) : K)"
        raise self.bad("a real number is expected", node)

    def to_SO(self, v, node):
        if v.kind == SO:
            return v.code
        return f"(some {self.to_S(v, node)})"

    def to_I(self, v, node):
        if v.kind == I:
            return v.code
        if v.kind == N:
            return f"({v.code} : Int)" if v.literal is not None else f"(({v.code} : Nat) : Int)"
        raise self.bad("an integer is expected", node)

    def to_N(self, v, node, what="count"):
        if v.kind == N:
            return v.code
        if v.kind == I:
            raise self.bad(f"{what} that may be negative", node)
        raise self.bad(f"{what} is not an integer", node)

    def to_V(self, v, node):
        if v.kind == V:
            return v.code
        raise self.bad("a 1-D array is expected", node)

    def to_VO(self, v, node):
        if v.kind == VO:
            return v.code
        if v.kind == V:
            return f"(Iv.someVec {v.code})"
        raise self.bad("a 1-D array is expected", node)

    def to_MO(self, v, node):
        if v.kind == MO:
            return v.code
        raise self.bad("a 2-D array is expected", node)

    def to_B(self, v, node):
        if v.kind == B:
            return v.code
        raise self.bad("a flag is expected", node)

    # -- tests -----------------------------------------------------------------------------------
    def static(self, e, env):
        if isinstance(e, ast.Constant) and isinstance(e.value, bool):
            return e.value
        if isinstance(e, ast.UnaryOp) and isinstance(e.op, ast.Not):
            return not self.static(e.operand, env)
        if isinstance(e, ast.BoolOp):
            vals = []
            for v in e.values:  # short circuit like Python
                r = self.static(v, env)
                vals.append(r)
                if isinstance(e.op, ast.And) and not r:
                    return False
                if isinstance(e.op, ast.Or) and r:
                    return True
            return all(vals) if isinstance(e.op, ast.And) else any(vals)
        if isinstance(e, ast.Call) and isinstance(e.func, ast.Name) and e.func.id == "isinstance" \
                and "isinstance" not in env and len(e.args) == 2 and not e.keywords \
                and isinstance(e.args[0], ast.Name) and e.args[0].id in env and isinstance(e.args[1], ast.Name):
            k = env[e.args[0].id].kind
            ty = e.args[1].id
            if k in (I, TUP) and ty in ("int", "tuple") and ty not in env:
                return (k == I) == (ty == "int")
            raise Dynamic()
        if isinstance(e, ast.Compare) and len(e.ops) == 1:
            ops = {ast.Eq: lambda a, b: a == b, ast.NotEq: lambda a, b: a != b, ast.Lt: lambda a, b: a < b,
                   ast.LtE: lambda a, b: a <= b, ast.Gt: lambda a, b: a > b, ast.GtE: lambda a, b: a >= b}
            if type(e.ops[0]) in ops:
                vals = []
                for x in (e.left, e.comparators[0]):
                    if isinstance(x, ast.Constant) and isinstance(x.value, str):
                        vals.append(x.value)
                        continue
                    if isinstance(x, ast.Name) and x.id in env and env[x.id].kind == C:
                        vals.append(env[x.id].value)
                        continue
                    if not self.is_static_int(x, env):
                        raise Dynamic()
                    vals.append(self.static_int(x, env))
                if isinstance(vals[0], str) != isinstance(vals[1], str):
                    raise Dynamic()
                return ops[type(e.ops[0])](vals[0], vals[1])
            if isinstance(e.ops[0], (ast.In, ast.NotIn)) and isinstance(e.comparators[0], (ast.List, ast.Tuple, ast.Set)):
                x = e.left
                if isinstance(x, ast.Name) and x.id in env and env[x.id].kind == C and all(
                        isinstance(c, ast.Constant) and isinstance(c.value, str) for c in e.comparators[0].elts):
                    r = env[x.id].value in [c.value for c in e.comparators[0].elts]
                    return r if isinstance(e.ops[0], ast.In) else not r
        raise Dynamic()

    def is_static_int(self, x, env):
        if int_const(x) is not None:
            return True
        return isinstance(x, ast.Call) and isinstance(x.func, ast.Name) and x.func.id == "len" and "len" not in env \
            and len(x.args) == 1 and not x.keywords and isinstance(x.args[0], ast.Name) \
            and x.args[0].id in env and env[x.args[0].id].kind == TUP

    def static_int(self, x, env):
        k = int_const(x)
        return k if k is not None else len(env[x.args[0].id].elts)

    def cond(self, e, env):
        try:
            return "True" if self.static(e, env) else "False"
        except Dynamic:
            pass
        if isinstance(e, ast.UnaryOp) and isinstance(e.op, ast.Not):
            return f"(¬ {self.cond(e.operand, env)})"
        if isinstance(e, ast.BoolOp):
            op = " ∧ " if isinstance(e.op, ast.And) else " ∨ "
            return "(" + op.join(self.cond(v, env) for v in e.values) + ")"
        if isinstance(e, ast.Compare) and len(e.ops) == 1:
            op, left, right = e.ops[0], e.left, e.comparators[0]
            ops = {ast.Eq: "=", ast.NotEq: "≠", ast.Lt: "<", ast.LtE: "≤", ast.Gt: ">", ast.GtE: "≥"}
            if type(op) in ops:
                self.no_bind += 1
                try:
                    a, b = self.ex(left, env), self.ex(right, env)
                finally:
                    self.no_bind -= 1
                sym = ops[type(op)]
                if a.kind == N and b.kind == N:
                    return f"({a.code} {sym} {b.code})"
                if a.kind in (N, I) and b.kind in (N, I):
                    return f"({self.to_I(a, e)} {sym} {self.to_I(b, e)})"
                if a.kind in (S, N) and b.kind in (S, N):
                    return f"({self.to_S(a, e)} {sym} {self.to_S(b, e)})"
                if a.kind == B and b.kind == B and isinstance(op, (ast.Eq, ast.NotEq)):
                    return f"({a.code} {sym} {b.code})"
            if isinstance(op, (ast.Is, ast.IsNot)):
                raise self.bad("identity comparison", e)
            raise self.bad(f"test `{ast.unparse(e)[:48]}`", e)
        self.no_bind += 1
        try:
            v = self.ex(e, env)
        finally:
            self.no_bind -= 1
        if v.kind == B:
            return f"({v.code} = true)"
        if v.kind == N:
            return f"({v.code} ≠ 0)"
        if v.kind == I:
            return f"({v.code} ≠ (0 : Int))"
        raise self.bad(f"truth value of `{ast.unparse(e)[:40]}`", e)

    # -- expressions -----------------------------------------------------------------------------
    def binop(self, op, a, b, node):
        if isinstance(op, (ast.FloorDiv, ast.Mod)):
            if a.kind == N and b.kind == N:
                return Val(N, f"({a.code} {'/' if isinstance(op, ast.FloorDiv) else '%'} {b.code})")
            raise self.bad("`//` / `%` outside counts", node)
        sym = {ast.Add: "+", ast.Sub: "-", ast.Mult: "*", ast.Div: "/"}.get(type(op))
        if sym is None:
            raise self.bad(f"operator {type(op).__name__}", node)
        if a.kind == N and b.kind == N:
            if sym in "+*":
                return Val(N, f"({a.code} {sym} {b.code})")
            if sym == "-":
                return Val(I, f"({self.to_I(a, node)} - {self.to_I(b, node)})")
            return Val(S, f"({self.to_S(a, node)} / {self.to_S(b, node)})")
        if a.kind in (N, I) and b.kind in (N, I):
            if sym == "/":
                raise self.bad("true division of integers", node)
            return Val(I, f"({self.to_I(a, node)} {sym} {self.to_I(b, node)})")
        if a.kind in (S, N) and b.kind in (S, N):
            return Val(S, f"({self.to_S(a, node)} {sym} {self.to_S(b, node)})")
        raise self.bad("arithmetic on values of these kinds", node)

    def bound(self, e, env):
        if e is None:
            return "none"
        return f"(some {self.to_I(self.ex(e, env), e)})"

    def slice_bounds(self, sl, env, node):
        if not isinstance(sl, ast.Slice):
            raise self.bad("an index where a slice is expected", node)
        if sl.step is not None:
            raise self.bad("slice step", node)
        return self.bound(sl.lower, env), self.bound(sl.upper, env)

    def subscript(self, e, env):
        if isinstance(e.value, ast.Attribute) and e.value.attr == "shape" and int_const(e.slice) is not None:
            v = self.ex(e.value.value, env)
            k = int_const(e.slice)
            if v.kind in (V, VO) and k == 0:
                return Val(N, f"{v.code}.len")
            if v.kind == MO and k in (0, 1):
                return Val(N, f"{v.code}.{'rows' if k == 0 else 'cols'}")
            raise self.bad("shape component", e)
        v = self.ex(e.value, env)
        sl = e.slice
        if v.kind == TUP:
            k = int_const(sl)
            if k is None or not -len(v.elts) <= k < len(v.elts):
                raise self.bad("component of a tuple that is not a literal in range", e)
            return v.elts[k]
        if isinstance(sl, ast.Slice):
            lo, hi = self.slice_bounds(sl, env, e)
            if v.kind in (V, VO):
                return Val(v.kind, f"(Np.slice {v.code} {lo} {hi})")
            if v.kind == MO:
                return Val(MO, f"(Np.sliceRows {v.code} {lo} {hi})")
            raise self.bad("slice of a value that is not an array", e)
        if isinstance(sl, ast.Tuple):
            if v.kind != MO or len(sl.elts) != 2:
                raise self.bad("multi-dimensional index", e)
            lo, hi = self.slice_bounds(sl.elts[0], env, e)
            lo2, hi2 = self.slice_bounds(sl.elts[1], env, e)
            return Val(MO, f"(Iv.sliceCols (Np.sliceRows {v.code} {lo} {hi}) {lo2} {hi2})")
        k = self.to_I(self.ex(sl, env), e)
        if v.kind == V:
            return self.fallible(f"Iv.getE {v.code} {k}", S, e)
        if v.kind == VO:
            return self.fallible(f"Iv.getE {v.code} {k}", SO, e)
        raise self.bad("index into a value that is not a 1-D array", e)

    def kwargs(self, call, allowed):
        out = {}
        for kw in call.keywords:
            if kw.arg is None or kw.arg not in allowed:
                raise self.bad(f"keyword argument `{kw.arg}`", call)
            out[kw.arg] = kw.value
        return out

    def bind_args(self, call, names, defaults, what):
        """arguments of `call` bound to the parameter names (defaults: name -> ast | None)"""
        if len(call.args) > len(names) or any(isinstance(a, ast.Starred) for a in call.args):
            raise self.bad(f"argument count of {what}", call)
        given = dict(zip(names, call.args))
        for kw in call.keywords:
            if kw.arg is None or kw.arg not in names or kw.arg in given:
                raise self.bad(f"keyword argument `{kw.arg}` of {what}", call)
            given[kw.arg] = kw.value
        for n in names:
            if n not in given:
                if defaults.get(n) is None:
                    raise self.bad(f"missing argument `{n}` of {what}", call)
                given[n] = defaults[n]
        return given

    def is_nan(self, v):
        return v.kind == SO and v.code == "none"

    def ceil_of(self, e, env):
        """`a / b` for counts a, b -> ceilDiv"""
        if isinstance(e, ast.BinOp) and isinstance(e.op, ast.Div):
            a, b = self.ex(e.left, env), self.ex(e.right, env)
            if a.kind == N and b.kind == N:
                return Val(N, f"(Iv.ceilDiv {a.code} {b.code})")
        raise self.bad("ceil of something that is not a quotient of counts", e)

    def concat(self, e, seq, axis, env):
        if not isinstance(seq, (ast.List, ast.Tuple)) or not seq.elts:
            raise self.bad("a literal sequence of arrays is expected", e)
        vals = [self.ex(x, env) for x in seq.elts]
        if all(v.kind == MO for v in vals):
            if axis not in (0, 1):
                raise self.bad("concatenate axis", e)
            acc = vals[0]
            for v in vals[1:]:
                acc = self.fallible(f"Iv.{'vcatE' if axis == 0 else 'hcatE'} {acc.code} {v.code}", MO, e)
            return acc
        if any(v.kind == MO for v in vals):
            raise self.bad("concatenation of arrays of different dimensions", e)
        if axis not in (None, 0):
            raise self.bad("concatenate axis of 1-D arrays", e)
        if all(v.kind == V for v in vals):
            code = vals[0].code
            for v in vals[1:]:
                code = f"(Np.concat {code} {v.code})"
            return Val(V, code)
        code = self.to_VO(vals[0], e)
        for v in vals[1:]:
            code = f"(Iv.concatO {code} {self.to_VO(v, e)})"
        return Val(VO, code)

    def axis_of(self, call, default):
        kw = self.kwargs(call, ("axis",))
        if "axis" not in kw:
            return default
        k = int_const(kw["axis"])
        if k is None:
            raise self.bad("axis that is not a literal", call)
        return k

    def np_call(self, attr, e, env):
        args = e.args
        if attr in IDENTITY_CALLS:
            self.kwargs(e, ("dtype", "copy", "order"))
            if len(args) != 1:
                raise self.bad("argument count", e)
            v = self.ex(args[0], env)
            if v.kind not in (V, VO, MO):
                raise self.bad("array of a value that is not an array", e)
            return v
        if attr == "pad":
            given = self.bind_args(e, ["array", "pad_width", "mode", "constant_values"],
                                   {"mode": ast.Constant(value="constant"), "constant_values": ast.Constant(value=0)},
                                   "np.pad")
            arr = self.ex(given["array"], env)
            mode = given["mode"]
            if not (isinstance(mode, ast.Constant) and mode.value == "constant"):
                raise self.bad("np.pad mode", e)
            if not self.is_nan(self.ex(given["constant_values"], env)):
                raise self.bad("np.pad with a padding value that is not np.nan", e)
            w = given["pad_width"]
            if isinstance(w, (ast.Tuple, ast.List)) and len(w.elts) == 2:
                b, a = (self.to_I(self.ex(x, env), e) for x in w.elts)
            else:
                b = a = self.to_I(self.ex(w, env), e)
            return self.fallible(f"Iv.padNaN {self.to_V(arr, e)} {b} {a}", VO, e)
        if attr == "full":
            self.kwargs(e, ("dtype",))
            if len(args) != 2:
                raise self.bad("argument count", e)
            k, v = self.to_N(self.ex(args[0], env), e), self.ex(args[1], env)
            if self.is_nan(v):
                return Val(VO, f"(Iv.fullNaN {k})")
            return Val(V, f"(Np.full {k} {self.to_S(v, e)})")
        if attr in ("concatenate", "vstack", "hstack", "append"):
            if attr == "append":
                axis = self.axis_of(e, None)
                if len(args) != 2:
                    raise self.bad("argument count", e)
                seq = ast.copy_location(ast.List(elts=list(args), ctx=ast.Load()), e)
                return self.concat(e, seq, axis, env)
            if len(args) != 1:
                raise self.bad("argument count", e)
            if attr == "concatenate":
                return self.concat(e, args[0], self.axis_of(e, 0), env)
            self.kwargs(e, ())
            vals_2d = isinstance(args[0], (ast.List, ast.Tuple)) and args[0].elts and \
                self.peek_kind(args[0].elts[0], env) == MO
            return self.concat(e, args[0], (0 if attr == "vstack" else 1) if vals_2d else
                               (None if attr == "hstack" else 99), env)
        if attr == "ceil":
            self.kwargs(e, ())
            if len(args) != 1:
                raise self.bad("argument count", e)
            return self.ceil_of(args[0], env)
        if attr == "transpose":
            self.kwargs(e, ())
            if len(args) != 1:
                raise self.bad("argument count", e)
            return Val(MO, f"(Np.transpose {self.to_MO(self.ex(args[0], env), e)})")
        raise self.bad(f"call of np.{attr}", e)

    def peek_kind(self, e, env):
        save, self.no_bind = self.no_bind, 1
        try:
            return self.ex(e, env).kind
        except Unsupported:
            return None
        finally:
            self.no_bind = save

    def reshape(self, v, call, env):
        args = call.args
        if call.keywords:
            raise self.bad("keyword argument of reshape", call)
        if len(args) == 1 and isinstance(args[0], (ast.Tuple, ast.List)):
            args = args[0].elts
        if len(args) != 2:
            raise self.bad("reshape to a shape that is not 2-D", call)
        vo = self.to_VO(v, call)
        k0, k1 = int_const(args[0]), int_const(args[1])
        if k0 == -1 and k1 == -1:
            raise self.bad("reshape(-1, -1)", call)
        if k0 == -1:
            return self.fallible(f"Iv.reshapeRowsE {vo} {self.to_N(self.ex(args[1], env), call)}", MO, call)
        if k1 == -1:
            return self.fallible(f"Iv.reshapeColsE {vo} {self.to_N(self.ex(args[0], env), call)}", MO, call)
        r, c = self.to_N(self.ex(args[0], env), call), self.to_N(self.ex(args[1], env), call)
        return self.fallible(f"Iv.reshapeE {vo} {r} {c}", MO, call)

    def extern_call(self, py, e, env):
        problem = self.ctx.extern_problem(py)
        if problem:
            raise self.bad(problem, e)
        want = EXTERN[py]
        defaults = {n: (ast.parse(d, mode="eval").body if d is not None else None) for n, _, d in want}
        given = self.bind_args(e, [w[0] for w in want], defaults, py)
        parts, name = [], py
        for n, kind, _ in want:
            x = given[n]
            if kind == "STATIC":
                if isinstance(x, ast.Constant) and isinstance(x.value, str):
                    d = x.value
                elif isinstance(x, ast.Name) and x.id in env and env[x.id].kind == C:
                    d = env[x.id].value
                else:
                    raise self.bad(f"`{n}` of {py} is not decided by the specialisation", e)
                if d not in DIRECTIONS:
                    raise self.bad(f"{py} with direction {d!r} (raises ValueError)", e)
                name = f"{py}_{d}"
            elif kind == "O":
                if isinstance(x, ast.Constant) and x.value is None:
                    parts.append("none")
                else:
                    parts.append(f"(some {self.to_S(self.ex(x, env), e)})")
            elif kind == V:
                parts.append(self.to_V(self.ex(x, env), e))
            else:
                parts.append(self.to_N(self.ex(x, env), e, f"`{n}` of {py}"))
        return Val(V, f"(Gen.{name} {' '.join(parts)})")

    def self_call(self, name, e, env):
        if name not in PURE_SELF_METHODS or name not in self.ctx.methods or name in self.ctx.dup:
            raise self.bad(f"call of self.{name}()", e)
        spec = SPEC_OF[name]
        if spec.gen == self.spec.gen or SPECS.index(spec) >= SPECS.index(self.spec):
            raise self.bad(f"call of self.{name}() (recursion / definition order)", e)
        fn = self.ctx.methods[name]
        a = fn.args
        if a.vararg or a.kwarg or a.kwonlyargs or a.posonlyargs or fn.decorator_list:
            raise self.bad(f"signature of {name}", e)
        names = [p.arg for p in a.args][1:]
        if names != list(spec.params):
            raise self.bad(f"parameter list of {name} changed", e)
        dl = [None] * (len(names) - len(a.defaults)) + list(a.defaults) if len(a.defaults) <= len(names) else None
        if dl is None:
            raise self.bad(f"defaults of {name}", e)
        given = self.bind_args(e, names, dict(zip(names, dl)), f"self.{name}")
        parts = []
        for n in names:
            kind = spec.params[n]
            v = self.ex(given[n], {} if given[n] in dl else env)
            if kind == N:
                parts.append(self.to_N(v, e))
            elif kind == B:
                parts.append(self.to_B(v, e))
            elif kind == F:
                if v.kind != F:
                    raise self.bad("a callable is expected", e)
                parts.append(v.code)
            else:
                raise self.bad(f"argument kind of {name}", e)
        code = f"Gen.{spec.gen} {env['self.a'].code} {env['self.n'].code}" + "".join(f" {p}" for p in parts)
        kind = {"MO": MO, "N": N, "ST": IA, "V": V, "S": S}[spec.ret]
        return self.fallible(code, kind, e)

    def call(self, e, env):
        f = e.func
        if isinstance(f, ast.Attribute) and isinstance(f.value, ast.Name) and f.value.id in self.ctx.numpy_names \
                and f.value.id not in env:
            return self.np_call(f.attr, e, env)
        if isinstance(f, ast.Attribute) and isinstance(f.value, ast.Name) and f.value.id in self.ctx.math_names \
                and f.value.id not in env and f.attr == "ceil" and len(e.args) == 1 and not e.keywords:
            return self.ceil_of(e.args[0], env)
        if isinstance(f, ast.Attribute) and isinstance(f.value, ast.Name) and f.value.id == self.self_name \
                and f.attr in self.ctx.methods:
            return self.self_call(f.attr, e, env)
        if isinstance(f, ast.Attribute):
            v = self.ex(f.value, env)
            if f.attr == "reshape":
                return self.reshape(v, e, env)
            if f.attr == "transpose" and not e.args and not e.keywords and v.kind == MO:
                return Val(MO, f"(Np.transpose {v.code})")
            if f.attr == "copy" and not e.args and not e.keywords and v.kind in (V, VO, MO):
                return v
            if f.attr == "astype" and len(e.args) == 1 and not e.keywords and v.kind in (V, VO, MO):
                return v
            raise self.bad(f"method .{f.attr}()", e)
        if isinstance(f, ast.Name) and f.id in env:
            fv = env[f.id]
            if fv.kind == F and len(e.args) == 2 and not e.keywords:
                a, k = self.ex(e.args[0], env), self.ex(e.args[1], env)
                return Val(V, f"({fv.code} {self.to_V(a, e)} {self.to_N(k, e)})")
            raise self.bad(f"call of `{f.id}`", e)
        if isinstance(f, ast.Name):
            if f.id in self.ctx.imported:
                return self.extern_call(self.ctx.imported[f.id], e, env)
            if f.id == CLASS and CLASS in self.ctx.module_names:
                init = self.ctx.methods.get("__init__")
                if init is None or "__init__" in self.ctx.dup:
                    raise self.bad("IntervalArray(..) without a unique __init__", e)
                names = [p.arg for p in init.args.args][1:]
                dflt = init.args.defaults
                dl = [None] * (len(names) - len(dflt)) + list(dflt)
                if names != ["a", "n"]:
                    raise self.bad("parameter list of __init__ changed", e)
                given = self.bind_args(e, names, dict(zip(names, dl)), CLASS)
                a = self.to_V(self.ex(given["a"], env), e)
                n = self.to_N(self.ex(given["n"], {} if given["n"] in dl else env), e)
                return self.fallible(f"Gen.ia_init {a} {n}", IA, e)
            if f.id in self.ctx.module_names:
                raise self.bad(f"call of `{f.id}`", e)
            if f.id == "len" and len(e.args) == 1 and not e.keywords:
                x = e.args[0]
                if isinstance(x, ast.Name) and x.id == self.self_name:
                    if "__len__" not in self.ctx.methods:
                        raise self.bad("len(self) without __len__", e)
                    return self.self_call("__len__", ast.copy_location(ast.Call(func=f, args=[], keywords=[]), e), env)
                v = self.ex(x, env)
                if v.kind in (V, VO):
                    return Val(N, f"{v.code}.len")
                if v.kind == MO:
                    return Val(N, f"{v.code}.rows")
                if v.kind == TUP:
                    return Val(N, str(len(v.elts)), literal=len(v.elts))
                raise self.bad("len of a scalar", e)
            if f.id == "iter" and len(e.args) == 1 and not e.keywords:
                v = self.ex(e.args[0], env)
                if v.kind == V:
                    return v
                raise self.bad("iter of a value that is not a 1-D array", e)
            if f.id == "int" and len(e.args) == 1 and not e.keywords:
                v = self.ex(e.args[0], env)
                if v.kind in (N, I):
                    return v
                raise self.bad("int of a real number", e)
            if f.id == "float" and len(e.args) == 1 and not e.keywords:
                x = e.args[0]
                if isinstance(x, ast.Constant) and isinstance(x.value, str) and x.value.strip().lower() == "nan":
                    return Val(SO, "none")
                return Val(S, self.to_S(self.ex(x, env), e))
            raise self.bad(f"call of {f.id}", e)
        raise self.bad("call", e)

    def ex(self, e, env) -> Val:
        if isinstance(e, ast.Constant):
            if isinstance(e.value, bool):
                return Val(B, "true" if e.value else "false")
            if isinstance(e.value, int):
                return Val(N, str(e.value), literal=e.value)
            if isinstance(e.value, float):
                if e.value != e.value:
                    return Val(SO, "none")
                return Val(S, lit(e.value))
            if e.value is None or isinstance(e.value, str):
                return Val(C, value=e.value)
            raise self.bad("literal", e)
        if isinstance(e, ast.Name):
            if e.id == self.self_name:
                raise self.bad("`self` used as a value", e)
            if e.id in env:
                return env[e.id]
            if e.id in self.ctx.imported and self.ctx.imported[e.id] in ("oversample_linspace",
                                                                        "oversample_piecewise_constant"):
                py = self.ctx.imported[e.id]
                problem = self.ctx.extern_problem(py)
                if problem:
                    raise self.bad(problem, e)
                return Val(F, f"Gen.{py}")
            raise self.bad(f"unknown name `{e.id}`", e)
        if isinstance(e, ast.UnaryOp) and isinstance(e.op, ast.USub):
            o = e.operand
            if isinstance(o, ast.BinOp) and isinstance(o.op, ast.FloorDiv) and isinstance(o.left, ast.UnaryOp) \
                    and isinstance(o.left.op, ast.USub):
                a, b = self.ex(o.left.operand, env), self.ex(o.right, env)
                if a.kind == N and b.kind == N:
                    return Val(N, f"(Iv.ceilDiv {a.code} {b.code})")
            v = self.ex(o, env)
            if v.kind == N and v.literal is not None:
                return Val(I, f"(-{v.literal})", literal=-v.literal) if v.literal else v
            if v.kind in (N, I):
                return Val(I, f"(-{self.to_I(v, e)})")
            if v.kind == S:
                return Val(S, f"(-{v.code})")
            raise self.bad("negation", e)
        if isinstance(e, ast.UnaryOp) and isinstance(e.op, ast.UAdd):
            return self.ex(e.operand, env)
        if isinstance(e, ast.UnaryOp) and isinstance(e.op, ast.Not):
            v = self.ex(e.operand, env)
            if v.kind == B:
                return Val(B, f"(!{v.code})")
            raise self.bad("`not` of a value that is not a flag", e)
        if isinstance(e, ast.BinOp):
            return self.binop(e.op, self.ex(e.left, env), self.ex(e.right, env), e)
        if isinstance(e, ast.Subscript):
            return self.subscript(e, env)
        if isinstance(e, ast.Attribute):
            if isinstance(e.value, ast.Name) and e.value.id == self.self_name:
                key = f"self.{e.attr}"
                if key in env:
                    return env[key]
                if e.attr == "array" and "array" in self.ctx.methods and SPEC_OF["array"].gen != self.spec.gen:
                    return env["self.a"] if self.array_is_a() else self.bad_attr(e)
                raise self.bad(f"attribute self.{e.attr}", e)
            if isinstance(e.value, ast.Name) and e.value.id in self.ctx.numpy_names and e.value.id not in env \
                    and e.attr in ("nan", "NaN", "NAN"):
                return Val(SO, "none")
            v = self.ex(e.value, env)
            if e.attr == "T" and v.kind == MO:
                return Val(MO, f"(Np.transpose {v.code})")
            if e.attr == "size":
                if v.kind in (V, VO):
                    return Val(N, f"{v.code}.len")
                if v.kind == MO:
                    return Val(N, f"({v.code}.rows * {v.code}.cols)")
            raise self.bad(f"attribute .{e.attr}", e)
        if isinstance(e, ast.Call):
            return self.call(e, env)
        if isinstance(e, ast.List):
            if len(e.elts) == 1 and isinstance(e.elts[0], ast.List) and len(e.elts[0].elts) == 1:
                x = self.ex(e.elts[0].elts[0], env)
                return Val(MO, f"(Iv.mat11 {self.to_SO(x, e)})")
            raise self.bad("list literal", e)
        if isinstance(e, ast.Tuple):
            raise self.bad("tuple value", e)
        if isinstance(e, ast.IfExp):
            c = self.cond(e.test, env)
            if c in ("True", "False"):
                return self.ex(e.body if c == "True" else e.orelse, env)
            self.no_bind += 1
            try:
                a, b = self.ex(e.body, env), self.ex(e.orelse, env)
            finally:
                self.no_bind -= 1
            a, b = self.unify(a, b, e)
            return Val(a.kind, f"(if {c} then {a.code} else {b.code})")
        raise self.bad(f"expression {type(e).__name__}", e)

    def array_is_a(self):
        fn = self.ctx.methods["array"]
        body = [s for s in fn.body if not (isinstance(s, ast.Expr) and isinstance(s.value, ast.Constant))]
        return len(body) == 1 and isinstance(body[0], ast.Return) and isinstance(body[0].value, ast.Attribute) \
            and isinstance(body[0].value.value, ast.Name) and body[0].value.value.id == fn.args.args[0].arg \
            and body[0].value.attr == "a"

    def bad_attr(self, e):
        raise self.bad("self.array that is not self.a", e)

    def unify(self, a, b, node):
        if a.kind == b.kind and a.kind in (S, V, N, I, VO, MO, B, SO):
            return a, b
        if {a.kind, b.kind} == {N, I}:
            return Val(I, self.to_I(a, node)), Val(I, self.to_I(b, node))
        if {a.kind, b.kind} == {S, N}:
            return Val(S, self.to_S(a, node)), Val(S, self.to_S(b, node))
        if {a.kind, b.kind} == {V, VO}:
            return Val(VO, self.to_VO(a, node)), Val(VO, self.to_VO(b, node))
        raise self.bad("branches of different kinds", node)

    # -- statements ------------------------------------------------------------------------------
    def lean_name(self, key):
        return {"self.a": "self_a", "self.n": "self_n"}.get(key) or ident(key)

    def assign(self, st, env, lines, ind):
        """one assignment statement: appends the `let` lines, returns the new environment"""
        self.sink = (lines, ind)
        if isinstance(st, ast.Assign) and len(st.targets) == 1:
            tgt, value = st.targets[0], st.value
        elif isinstance(st, ast.AnnAssign) and st.value is not None:
            tgt, value = st.target, st.value
        elif isinstance(st, ast.AugAssign):
            tgt = st.target
            load = ast.copy_location(ast.Name(id=tgt.id, ctx=ast.Load()), st) if isinstance(tgt, ast.Name) else None
            if load is None:
                raise self.bad("augmented assignment target", st)
            value = ast.copy_location(ast.BinOp(left=load, op=st.op, right=st.value), st)
        else:
            raise self.bad(f"statement {type(st).__name__}", st)
        env = dict(env)
        if isinstance(tgt, ast.Tuple):
            if not (isinstance(value, ast.Tuple) and len(value.elts) == len(tgt.elts)
                    and all(isinstance(t, ast.Name) for t in tgt.elts)):
                raise self.bad("tuple assignment", st)
            vals = [self.ex(x, env) for x in value.elts]
            for t, v in zip(tgt.elts, vals):
                self.check_local(t.id, v, st)
            names = [ident(t.id) for t in tgt.elts]
            if len(set(names)) != len(names):
                raise self.bad("tuple assignment to the same name twice", st)
            lines.append(f"{ind}let ({', '.join(names)}) := ({', '.join(v.code for v in vals)})")
            for t, v in zip(tgt.elts, vals):
                env[t.id] = Val(v.kind, ident(t.id))
            return env
        if isinstance(tgt, ast.Name):
            v = self.ex(value, env)
            self.check_local(tgt.id, v, st)
            if v.kind == C:
                env[tgt.id] = v
                return env
            if v.kind == TUP:
                raise self.bad("assignment of a tuple", st)
            lines.append(f"{ind}let {ident(tgt.id)} := {v.code}")
            env[tgt.id] = Val(v.kind, ident(tgt.id))
            return env
        if isinstance(tgt, ast.Attribute) and isinstance(tgt.value, ast.Name) and tgt.value.id == self.self_name:
            key = f"self.{tgt.attr}"
            want = {"self.a": V, "self.n": N}.get(key)
            if want is None:
                raise self.bad(f"assignment to self.{tgt.attr}", st)
            if self.spec.ret != "ST":
                raise self.bad(f"assignment to self.{tgt.attr} in a method that is not state-changing", st)
            v = self.ex(value, env)
            if v.kind != want:
                raise self.bad(f"self.{tgt.attr} assigned a value of another kind", st)
            lines.append(f"{ind}let {self.lean_name(key)} := {v.code}")
            env[key] = Val(want, self.lean_name(key))
            return env
        if isinstance(tgt, ast.Subscript) and isinstance(tgt.value, ast.Attribute) \
                and isinstance(tgt.value.value, ast.Name) and tgt.value.value.id == self.self_name \
                and tgt.value.attr == "a" and "self.a" in env:
            if self.spec.ret != "ST":
                raise self.bad("write into self.a in a method that is not state-changing", st)
            if isinstance(tgt.slice, (ast.Slice, ast.Tuple)):
                raise self.bad("slice / multi-dimensional write", st)
            k = self.to_I(self.ex(tgt.slice, env), st)
            v = self.to_S(self.ex(value, env), st)
            lines.append(f"{ind}let self_a ← Iv.setE {env['self.a'].code} {k} {v}")
            env["self.a"] = Val(V, "self_a")
            return env
        raise self.bad("assignment target", st)

    def check_local(self, name, v, node):
        if name == self.self_name:
            raise self.bad("assignment to self", node)
        if name in self.spec.params and self.spec.params[name] in ("STATIC", F, B) or \
                name in self.spec.params and isinstance(self.spec.params[name], tuple):
            raise self.bad(f"assignment to parameter `{name}`", node)
        if v.kind in (IA, F):
            raise self.bad("assignment of this kind", node)
        if v.kind not in (C, TUP):
            ident(name)

    def simple(self, stmts):
        return all(isinstance(st, (ast.Pass, ast.Assign, ast.AnnAssign, ast.AugAssign)) for st in stmts)

    def branch(self, stmts, env):
        """a branch that only assigns pure values: key -> Val with inlined terms"""
        env, out = dict(env), {}
        scratch = []
        for st in stmts:
            if isinstance(st, ast.Pass):
                continue
            n0 = len(scratch)
            new = self.assign(st, env, scratch, "")
            if any("←" in l for l in scratch[n0:]) or any(l.startswith("let (") for l in scratch[n0:]):
                raise Dynamic()
            for key, v in new.items():
                if env.get(key) is not v:
                    # inline: the term of the `let` just emitted
                    term = scratch[-1].split(":=", 1)[1].strip() if v.kind != C else None
                    if term is None:
                        raise Dynamic()
                    out[key] = Val(v.kind, term)
                    env = dict(env)
                    env[key] = Val(v.kind, f"({term})")
        return out

    def merged_if(self, st, env, lines, ind):
        c = self.cond(st.test, env)
        a, b = self.branch(st.body, env), self.branch(st.orelse, env)
        env = dict(env)
        for key in list(a) + [k for k in b if k not in a]:
            va, vb = a.get(key) or env.get(key), b.get(key) or env.get(key)
            if va is None or vb is None:
                raise self.bad(f"`{key}` is not assigned on every path", st)
            va, vb = self.unify(va, vb, st)
            lines.append(f"{ind}let {self.lean_name(key)} := (if {c} then {va.code} else {vb.code})")
            env[key] = Val(va.kind, self.lean_name(key))
        return env

    def ret(self, v, node):
        want = self.spec.ret
        if want == "ST":
            if v.kind != IA:
                raise self.bad(f"{self.spec.py} does not return an IntervalArray", node)
            return v.code
        if want == "S":
            return self.to_S(v, node) if v.kind in (S,) else self.bad_ret(node)
        if want == "V":
            return self.to_V(v, node)
        if want == "N":
            return self.to_N(v, node, "returned count")
        if want == "MO":
            return self.to_MO(v, node)
        raise self.bad("return kind", node)

    def bad_ret(self, node):
        raise self.bad(f"{self.spec.py} does not return a scalar", node)

    def state(self, env):
        return f"({env['self.a'].code}, {env['self.n'].code})"

    def block(self, stmts, env, lines, ind):
        for k, st in enumerate(stmts):
            rest = stmts[k + 1:]
            self.sink = (lines, ind)
            if isinstance(st, ast.Expr) and isinstance(st.value, ast.Constant) and isinstance(st.value.value, str):
                continue
            if isinstance(st, ast.Pass):
                continue
            if isinstance(st, ast.Return):
                if st.value is None or (isinstance(st.value, ast.Constant) and st.value.value is None):
                    if self.spec.ret != "ST" or self.returns_value:
                        raise self.bad("bare return", st)
                    lines.append(f"{ind}pure {self.state(env)}")
                    return
                if self.spec.ret == "ST" and not self.returns_value:
                    raise self.bad("a value returned from a state-changing method", st)
                lines.append(f"{ind}pure {self.ret(self.ex(st.value, env), st)}")
                return
            if isinstance(st, ast.Raise):
                exc = st.exc
                name = exc.func.id if isinstance(exc, ast.Call) and isinstance(exc.func, ast.Name) else (
                    exc.id if isinstance(exc, ast.Name) else None)
                if name not in ERRORS or name in self.ctx.module_names or name in env or st.cause is not None:
                    raise self.bad("raise of this exception", st)
                lines.append(f"{ind}Except.error {ERRORS[name]}")
                return
            if isinstance(st, ast.If):
                c = self.cond(st.test, env)
                if c in ("True", "False"):
                    self.block(list(st.body if c == "True" else st.orelse) + list(rest), env, lines, ind)
                    return
                if self.simple(st.body) and self.simple(st.orelse):
                    try:
                        env = self.merged_if(st, env, lines, ind)
                        continue
                    except Dynamic:
                        pass
                lines.append(f"{ind}if {c} then")
                self.block(list(st.body) + list(rest), env, lines, ind + "  ")
                lines.append(f"{ind}else")
                self.block(list(st.orelse) + list(rest), env, lines, ind + "  ")
                return
            env = self.assign(st, env, lines, ind)
        if self.spec.ret == "ST" and not self.returns_value:
            lines.append(f"{ind}pure {self.state(env)}")
            return
        raise Unsupported(f"no return reached in {self.spec.py}")

    def translate(self):
        fn, spec = self.fn, self.spec
        a = fn.args
        if a.vararg or a.kwarg or a.kwonlyargs or a.posonlyargs or not a.args:
            raise Unsupported(f"signature of {spec.py} at {self.where(fn)}")
        decos = [ast.unparse(d) for d in fn.decorator_list]
        if decos != (["property"] if spec.prop else []):
            raise Unsupported(f"decorators of {spec.py} at {self.where(fn)}")
        self.self_name = a.args[0].arg
        names = [p.arg for p in a.args][1:]
        if names != list(spec.params):
            raise Unsupported(f"parameter list of {spec.py} changed at {self.where(fn)}")
        if spec.py in self.ctx.dup:
            raise Unsupported(f"{spec.py} is defined twice")
        self.returns_value = any(isinstance(n, ast.Return) and n.value is not None
                                 and not (isinstance(n.value, ast.Constant) and n.value.value is None)
                                 for n in ast.walk(fn))
        if any(isinstance(n, (ast.Yield, ast.YieldFrom, ast.Await, ast.Global, ast.Nonlocal, ast.Lambda,
                              ast.FunctionDef, ast.ClassDef, ast.Try, ast.With, ast.While, ast.For, ast.Delete))
               for n in ast.walk(fn) if n is not fn):
            raise Unsupported(f"statement form in {spec.py}")
        env = {}
        if spec.py != "__init__":
            env["self.a"], env["self.n"] = Val(V, "self_a"), Val(N, "self_n")
        for name, kind in spec.params.items():
            if kind == "STATIC":
                env[name] = Val(C, value=spec.static[name])
            elif isinstance(kind, tuple):
                env[name] = Val(TUP, elts=[Val(I, f"{ident(name)}_{k}") for k in range(kind[1])])
            else:
                env[name] = Val(kind, ident(name))
        lines = []
        if spec.py == "__init__":
            # the state does not exist yet: `self.a = …`, `self.n = …` create it
            self.block_init(fn.body, env, lines, "  ")
            head = _sig_init(spec)
        else:
            self.block(fn.body, env, lines, "  ")
            head = sig(spec)
        return "\n".join([head + " do"] + lines)

    def block_init(self, stmts, env, lines, ind):
        for st in stmts:
            self.sink = (lines, ind)
            if isinstance(st, ast.Expr) and isinstance(st.value, ast.Constant) and isinstance(st.value.value, str):
                continue
            if isinstance(st, ast.Pass):
                continue
            if isinstance(st, (ast.Assign, ast.AnnAssign)):
                tgt = st.targets[0] if isinstance(st, ast.Assign) and len(st.targets) == 1 else getattr(st, "target", None)
                if isinstance(tgt, ast.Attribute) and isinstance(tgt.value, ast.Name) and tgt.value.id == self.self_name \
                        and tgt.attr in ("a", "n"):
                    v = self.ex(st.value, env)
                    want = V if tgt.attr == "a" else N
                    if v.kind != want:
                        raise self.bad(f"self.{tgt.attr} assigned a value of another kind", st)
                    env = dict(env)
                    lines.append(f"{ind}let self_{tgt.attr} := {v.code}")
                    env[f"self.{tgt.attr}"] = Val(want, f"self_{tgt.attr}")
                    continue
                env = self.assign(st, env, lines, ind)
                continue
            raise self.bad(f"statement {type(st).__name__} in __init__", st)
        if "self.a" not in env or "self.n" not in env:
            raise Unsupported("__init__ does not set self.a and self.n")
        lines.append(f"{ind}pure {self.state(env)}")


# ---------------------------------------------------------------------------------------------
# driver
# ---------------------------------------------------------------------------------------------

HEADER = [
    "import TWV.Model.IntervalVocab", "import TWV.Model.Interval", "import TWV.Generated.ArrayHelpers", "",
    "/-! GENERATED by harness/t13_interval.py from src/traffic_weaver/interval.py (class IntervalArray; the callee"
    " signatures from sorted_array_utils.py) — do not edit. -/", "",
    "set_option linter.unusedVariables false", "",
    "namespace TWV", "",
    "variable {K : Type} [Add K] [Sub K] [Mul K] [Div K] [Neg K] [Zero K] [One K] [NatCast K]",
    "  [LT K] [LE K] [DecidableLT K] [DecidableLE K] [DecidableEq K]", "",
]

DEFAULT_METHODS = ("__init__", "extend_linspace", "extend_constant", "to_2d_array_closed_intervals", "oversample",
                   "oversample_linspace", "oversample_piecewise")
EXPECTED_DEFAULTS = [("__init__", "n", "1"), ("extend_linspace", "direction", "'both'"),
                     ("extend_constant", "direction", "'both'"), ("to_2d_array_closed_intervals", "drop_last", "True")]


def lean_str(s):
    return '"' + s.replace("\\", "\\\\").replace('"', '\\"') + '"'


def defaults_def(ctx: Ctx):
    """the default values of the public methods' parameters, as text (method, parameter, `ast.unparse`)"""
    rows = []
    for m in DEFAULT_METHODS:
        fn = ctx.methods.get(m)
        if fn is None:
            continue
        a = fn.args
        names = [p.arg for p in a.args]
        for p, d in zip(names[len(names) - len(a.defaults):], a.defaults):
            rows.append((m, p, ast.unparse(d).replace('"', "'")))
    body = ", ".join(f"({lean_str(m)}, {lean_str(p)}, {lean_str(d)})" for m, p, d in rows)
    return f"def Gen.ia_defaults : List (String × String × String) :=\n  [{body}]"


def read_sources(src_dir=None):
    out = {}
    for f in FILES:
        text = None
        for d in ([Path(src_dir)] if src_dir is not None else []) + ([SRC_DIR] if (src_dir is None or f != FILES[0]) else []):
            try:
                text = (d / f).read_text()
                break
            except OSError:
                continue
        out[f] = text
    return out


def generate(text_interval=None, text_sau=None):
    texts = read_sources()
    if text_interval is not None:
        texts["interval.py"] = text_interval
    if text_sau is not None:
        texts["sorted_array_utils.py"] = text_sau
    out, notes = list(HEADER), []
    tree = sau_tree = None
    broken = None
    if texts["interval.py"] is None:
        broken = "interval.py is missing"
    else:
        try:
            tree = ast.parse(texts["interval.py"])
        except SyntaxError as e:
            broken = f"syntax error at interval.py:{e.lineno}"
    if texts["sorted_array_utils.py"] is not None:
        try:
            sau_tree = ast.parse(texts["sorted_array_utils.py"])
        except SyntaxError:
            sau_tree = None
    ctx = Ctx(tree, sau_tree) if tree is not None else None
    if ctx is not None and ctx.cls is None:
        broken = f"class {CLASS} is not defined exactly once in interval.py"
    elif ctx is not None and ctx.cls_problem:
        broken = ctx.cls_problem
    if broken is None:
        out += [defaults_def(ctx), ""]
    else:
        body = ", ".join(f"({lean_str(m)}, {lean_str(p)}, {lean_str(d)})" for m, p, d in EXPECTED_DEFAULTS)
        out += [f"def Gen.ia_defaults : List (String × String × String) :=\n  [{body}]", ""]
        notes.append(f"UNSUPPORTED ia_defaults: {broken}")
    for spec in SPECS:
        reason = broken
        if reason is None:
            fn = ctx.methods.get(spec.py)
            if fn is None:
                reason = f"{spec.py} is not a method of {CLASS}"
            else:
                try:
                    out.append(FnTranslator(spec, fn, ctx).translate())
                except Unsupported as e:
                    reason = str(e)
                except RecursionError:
                    reason = "expression too deep"
        if reason is not None:
            notes.append(f"UNSUPPORTED {spec.gen}: {reason}")
            head = _sig_init(spec) if spec.py == "__init__" else sig(spec)
            out.append(f"/- T13 cannot translate `{spec.gen}` ({reason}); alias of the hand model, the tie falls back"
                       f" to the correspondence. -/\n{head}\n  {spec.fallback}")
        out.append("")
    out += ["end TWV", ""]
    return "\n".join(out), notes


def regenerate(text_interval=None, text_sau=None, out=None):
    text, notes = generate(text_interval, text_sau)
    out = Path(out) if out is not None else OUT
    out.parent.mkdir(parents=True, exist_ok=True)
    changed = (not out.exists()) or out.read_text() != text
    if changed:
        out.write_text(text)
    note = "; ".join(notes) if notes else f"all {len(SPECS)} IntervalArray definitions translated"
    if notes:
        note += " (aliased to the hand model: their ties hold trivially)"
    return f"{note} ({'rewritten' if changed else 'unchanged'})"


def main(argv):
    """python -m harness.t13_interval [--src-dir DIR] [--stdout] [--out FILE]   (DIR holds interval.py and,
    optionally, sorted_array_utils.py; a missing sorted_array_utils.py is read from /repo)"""
    src_dir, to_stdout, out = None, False, None
    it = iter(argv)
    for a in it:
        if a == "--src-dir":
            src_dir = next(it)
        elif a == "--stdout":
            to_stdout = True
        elif a == "--out":
            out = next(it)
        else:
            print(main.__doc__)
            return 2
    texts = read_sources(src_dir) if src_dir is not None else {}
    args = (texts.get("interval.py"), texts.get("sorted_array_utils.py"))
    if src_dir is not None and args[0] is None:
        print(f"interval.py not found in {src_dir}")
        return 2
    if to_stdout:
        text, notes = generate(*args)
        print(text)
        for n in notes:
            print("--", n)
    else:
        print(regenerate(*args, out=out))
    return 0


if __name__ == "__main__":
    sys.exit(main(sys.argv[1:]))
