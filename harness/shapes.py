"""Input dimensions that the values of a case do not show: memory layout, object identity and call history.

A series handed to the library is an *object* as well as a list of numbers.  Two series with the same numbers
can differ in

* **layout** - a fresh contiguous array, a column of a table (what `Weaver.from_2d_array`, csv readers and
  `x, y = data.T` hand on), every second element of a longer buffer, a view with a negative stride;
* **identity and history** - the same array object may have been handed in before with other contents
  (a reused buffer refilled in place), or an equal-looking series (same values in another dtype, same bytes
  in another dtype, values with colliding hashes) may have been processed just before.

The model knows only the numbers, so every property must hold whatever the layout and the history are; the
helpers below let the generators vary them.  All of them keep the numbers of the case unchanged.
"""
from __future__ import annotations

import threading

import numpy as np

LAYOUTS = ("contig", "column", "strided", "reversed")


def pick_layout(rng, p_plain=0.55):
    r = rng.random()
    if r < p_plain:
        return "contig"
    return LAYOUTS[1 + int((r - p_plain) / (1 - p_plain) * 3) % 3]


def _filler(n, dtype):
    """values that are not in any case: read by code that walks the buffer instead of the view"""
    f = np.arange(n, dtype=float) * 977.0 + 7777.25
    return f.astype(dtype)


HISTORIES = ("none", "refill", "hash_twin", "bytes_twin", "dtype_twin", "repeat", "scribble", "options", "alias", "debuglog", "dashO", "threads",
             "preempt")


class _State(threading.local):
    """per-case state, set by the runner (`begin`) around every `run_impl`; one per thread"""

    def __init__(self):
        self.layouts = ("contig",)
        self.hist = "none"
        self.pas = 0
        self.bufs = []
        self.made = []
        self.i = 0


_ST = _State()


def decorate(case, rng, allow_dash_o=True, allow_threads=False):
    """add the layout / history dimensions to a generated case (kept in the case, so that a replay repeats them)"""
    if not isinstance(case, dict) or "layout" in case:
        return case
    case["layout"] = ",".join(pick_layout(rng) + ("!" if rng.random() < 0.15 else "") for _ in range(3))     # "!": read-only
    r = rng.random()
    table = [(0.40, "none"), (0.14, "refill"), (0.04, "hash_twin"), (0.04, "bytes_twin"), (0.04, "dtype_twin"),
             (0.04, "repeat"), (0.04, "scribble"), (0.04, "options"), (0.05, "alias"), (0.04, "debuglog"), (0.04, "dashO"), (0.05, "threads"), (0.04, "preempt")]
    h, acc = "none", 0.0
    for p, name in table:
        acc += p
        if r < acc:
            h = name
            break
    if h == "dashO" and not allow_dash_o:
        h = "repeat"
    if h in ("threads", "preempt") and not allow_threads:
        h = "none"
    case["hist"] = h
    return case


def begin(case, pass_):
    lay = case.get("layout") if isinstance(case, dict) else None
    _ST.layouts = tuple(lay.split(",")) if lay else ("contig",)
    _ST.hist = (case.get("hist") if isinstance(case, dict) else None) or "none"
    _ST.pas = pass_
    _ST.i = 0
    _ST.made = []
    if pass_ <= 1:
        _ST.bufs = []


def end():
    _ST.layouts, _ST.hist, _ST.pas, _ST.bufs, _ST.made, _ST.i = ("contig",), "none", 0, [], [], 0


class _debug_logging:
    """the application has switched debug logging on (for every logger, records dropped by a null handler)"""

    def __enter__(self):
        import logging
        self.root = logging.getLogger()
        self.lib = logging.getLogger("traffic_weaver")
        self.old = (self.root.level, self.lib.level, logging.root.manager.disable)
        self.h = logging.NullHandler()
        self.root.addHandler(self.h)
        self.root.setLevel(logging.DEBUG)
        self.lib.setLevel(logging.DEBUG)
        logging.disable(logging.NOTSET)

    def __exit__(self, *a):
        import logging
        self.root.removeHandler(self.h)
        self.root.setLevel(self.old[0])
        self.lib.setLevel(self.old[1])
        logging.disable(self.old[2])
        return False


def run_with_history(run_impl, case):
    """run the implementation on a case the way its `hist` says: possibly after a prelude that hands the library
    the same array objects with other contents (refill), or look-alike series (twins), or the same call (repeat);
    with equal arguments being one object (alias); with debug logging switched on (debuglog)"""
    h = (case.get("hist") if isinstance(case, dict) else None) or "none"
    try:
        if h == "debuglog":
            begin(case, 0)
            with _debug_logging():
                return run_impl(case)
        if h in ("none", "dashO", "threads", "preempt", "alias"):
            begin(case, 0)
            return run_impl(case)
        if h == "options":
            options_prelude()
            begin(case, 0)
            return run_impl(case)
        begin(case, 1)
        rec = _ResultRecorder() if h == "scribble" else None
        try:
            import copy
            if rec is not None:
                rec.install()
            run_impl(copy.deepcopy(case))       # whatever the prelude leaves in its case is dropped
        except Exception:  # noqa: the prelude's outcome is irrelevant
            pass
        finally:
            if rec is not None:
                rec.uninstall()
                rec.scribble()
        begin(case, 2)
        return run_impl(case)
    finally:
        end()


def options_prelude():
    """history `options`: earlier in the same process the application used the library on another series with NON-default
    values of the optional / pass-through arguments (a periodic or weighted spline, a periodic linear interpolation, fill
    values, other rules / exponents / strategies / window parameters).  None of that may stick: the case that follows
    must give what it gives alone."""
    import warnings
    x = np.arange(8.0)
    y = np.array([1.0, 3.0, 2.0, 5.0, 4.0, 2.0, 3.0, 1.0])
    g = np.linspace(0.0, 7.0, 15)
    try:
        from traffic_weaver import process, Weaver
        from traffic_weaver import rfa as _rfa
    except Exception:  # noqa
        return
    calls = [
        lambda: process.interpolate(x, y, g, method="spline", s=0, per=True),
        lambda: process.interpolate(x, y, g, method="spline", w=np.full(8, 2.0), s=1.0, k=2),
        lambda: process.interpolate(x, y, g, method="cubic", bc_type="periodic"),
        lambda: process.interpolate(x, y, g, method="linear", period=7.0),
        lambda: process.interpolate(x, y, g - 1.0, method="linear", left=-1.0, right=-2.0),
        lambda: process.interpolate(x, y, g - 1.0, method="constant", left=-5.0),
        lambda: Weaver(x, y).interpolate(n=15, method="spline", s=0, per=True),
        lambda: Weaver(x, y).interpolate(n=15, method="cubic", bc_type="clamped"),
        lambda: Weaver(x, y).recreate_from_average(3, rfa_class=_rfa.ExpFixedRFA, alpha=0.5, beta=0.25, exp=3.0)
                            .integral_match(alpha=3.0, fixed_points_finding_strategy="higher",
                                            target_function_integral_method="rectangle",
                                            reference_function_integral_method="trapezoid"),
        lambda: Weaver(x, y).recreate_from_average(4, rfa_class=_rfa.LinearAdaptiveRFA, a=3, adaptive_smooth=0.5),
        lambda: process.truncate(x, y, 0.25, 0.75, x_left_as_ratio=True, x_right_as_ratio=True),
        lambda: process.trend(x, y, lambda t: 2.0 * t, normalized=True),
        lambda: process.normalize(y, -3.0, 9.0),
        lambda: process.spline_smooth(x, y, s=2.0),
    ]
    with warnings.catch_warnings():
        warnings.simplefilter("ignore")
        for f in calls:
            try:
                f()
            except Exception:  # noqa: whether the pinned code accepts an option is not the point
                pass


class _ResultRecorder:
    """history `scribble`: the same call is made twice; every array the library's public functions handed out the first
    time is edited in place by the application in between (`idx += 1`, `np.clip(..., out=idx)`, `y[k] = nan`: results are
    the caller's to do with as it likes).  The second call must give what it gives alone - a result served again from a
    memo without a copy would not."""

    MODULES = ("traffic_weaver.sorted_array_utils", "traffic_weaver.process", "traffic_weaver.match")
    _lock = threading.Lock()

    def __init__(self):
        self.saved = []
        self.results = []
        self.owner = threading.get_ident()

    def _keep(self, r):
        if threading.get_ident() != self.owner:
            return
        if isinstance(r, np.ndarray):
            self.results.append(r)
        elif isinstance(r, (tuple, list)):
            for t in r:
                if isinstance(t, np.ndarray):
                    self.results.append(t)

    def install(self):
        import importlib
        import functools
        import types
        if not _ResultRecorder._lock.acquire(blocking=False):
            return          # another thread is recording: this case runs as a plain repeat
        self.locked = True
        for name in self.MODULES:
            try:
                mod = importlib.import_module(name)
            except Exception:  # noqa
                continue
            for attr, f in list(vars(mod).items()):
                if isinstance(f, types.FunctionType) and f.__module__ == name and not attr.startswith("__"):
                    def wrap(f=f):
                        @functools.wraps(f)
                        def g(*a, **k):
                            r = f(*a, **k)
                            self._keep(r)
                            return r
                        return g
                    self.saved.append((mod, attr, f))
                    setattr(mod, attr, wrap())

    def uninstall(self):
        for mod, attr, f in self.saved:
            setattr(mod, attr, f)
        self.saved = []
        if getattr(self, "locked", False):
            self.locked = False
            _ResultRecorder._lock.release()

    def scribble(self):
        for r in self.results:
            try:
                if r.flags.writeable and r.size:
                    if r.dtype.kind in "iu":
                        r += 1
                    elif r.dtype.kind == "f":
                        r[...] = r * -3.0 + 1.5
                        r[r.size // 2] = np.nan
            except Exception:  # noqa
                pass
        self.results = []


def run_decoy(run_impl, case):
    """run the implementation on a look-alike of the case: every array has the same length, dtype, layout and end
    points as the case's, and another interior (used as the *other* threads' work in the schedule dimension)"""
    import copy
    c = copy.deepcopy(case)
    if isinstance(c, dict):
        c["hist"] = "refill"
    try:
        begin(c, 1)
        try:
            return run_impl(c)
        except Exception as e:  # noqa
            return {"decoy_exception": type(e).__name__}
    finally:
        end()


def arr(values, dtype=None, layout=None):
    """the ndarray handed to the implementation: the numbers `values`, in the memory layout and with the object
    history of the current case"""
    a = np.array(values) if dtype is None else np.array(values, dtype=dtype)
    i = _ST.i
    _ST.i = i + 1
    if layout is None:
        layout = _ST.layouts[i % len(_ST.layouts)]
    h, ps = _ST.hist, _ST.pas
    if a.ndim != 1 or a.dtype.kind not in "fiu":
        return a
    if h == "alias":
        # two arguments with the same numbers are ONE object (resampling at the original points, a series matched
        # against its own grid, ...)
        for m in _ST.made:
            if m.dtype == a.dtype and m.shape == a.shape and np.array_equal(m, a):
                return m
        v = _lay(a, layout)
        _ST.made.append(v)
        return v
    if ps == 1:
        if h == "refill":
            buf = _lay(interior_decoy(a), layout)
            _ST.bufs.append(buf)
            return buf
        tw = {"hash_twin": hash_twin, "bytes_twin": bytes_twin, "dtype_twin": dtype_twin}.get(h)
        t = tw(a) if tw else None
        return _lay(a if t is None else t, layout)
    if ps == 2 and h == "refill":
        bufs = _ST.bufs
        if i < len(bufs) and bufs[i].shape == a.shape and bufs[i].dtype == a.dtype:
            bufs[i][...] = a
            return bufs[i]
    return _lay(a, layout)


def _lay(a, layout):
    ro = layout.endswith("!")
    v = _lay0(a, layout.rstrip("!"))
    if ro and _ST.hist != "refill":
        # the caller's array is read-only (memory-mapped data, a frozen configuration): nobody has to write into it
        if v is a and not a.flags.owndata:
            v = a.copy()
        v.flags.writeable = False
    return v


def _lay0(a, layout):
    if layout == "contig" or a.ndim != 1:
        return a
    n = len(a)
    if layout == "column":
        t = _filler(n * 3, a.dtype).reshape(n, 3)
        t[:, 1] = a
        v = t[:, 1]
    elif layout == "strided":
        b = _filler(2 * n + 1, a.dtype)
        b[1:2 * n:2] = a
        v = b[1:2 * n:2]
    elif layout == "reversed":
        b = a[::-1].copy()
        v = b[::-1]
    else:
        raise ValueError(layout)
    return v


def interior_decoy(a, rng=None):
    """an array of the same length, dtype, first and last element as `a` with another interior"""
    d = np.array(a, copy=True)
    if len(d) > 2:
        lo, hi = (d[0], d[-1]) if d[0] <= d[-1] else (d[-1], d[0])
        inner = np.linspace(float(lo), float(hi), len(d))[1:-1]
        if np.array_equal(inner.astype(d.dtype), d[1:-1]):
            inner = inner + (float(hi) - float(lo)) / (3.0 * len(d)) if hi != lo else inner + 1.0
        d[1:-1] = inner.astype(d.dtype)
    return d


def value_decoy(a):
    """same length and dtype, other values (shifted and scaled), for arrays that need not keep their ends"""
    d = np.array(a, copy=True)
    if d.dtype.kind == "f":
        return d * 1.5 + 3.0
    return d * 2 + 3


def refill(buf, a):
    """overwrite `buf` in place with the numbers of `a` (same length)"""
    buf[...] = a
    return buf


def hash_twin(a):
    """a series that differs from `a` but has the same `hash(tuple(...))`: CPython hashes -1 and -2 alike.
    None when `a` contains neither."""
    d = np.array(a, copy=True)
    m1, m2 = d == -1, d == -2
    if not (m1.any() or m2.any()):
        return None
    d[m1], d[m2] = -2, -1
    return d


def bytes_twin(a):
    """an array of another dtype with exactly the same buffer contents (and length), or None"""
    a = np.ascontiguousarray(a)
    other = {"float64": "int64", "int64": "float64", "float32": "int32", "int32": "float32"}.get(a.dtype.name)
    if other is None:
        return None
    t = a.view(other)
    if t.dtype.kind == "f" and not np.all(np.isfinite(t)):
        return None
    return t.copy()


def dtype_twin(a):
    """the same numbers in another dtype (int <-> float), or None when that is not exact"""
    a = np.asarray(a)
    if a.dtype.kind == "f":
        if np.all(a == np.floor(a)) and np.all(np.abs(a) < 2 ** 40):
            return a.astype(np.int64)
        return None
    return a.astype(float)


# ---------------------------------------------------------------------------------------------------------------------
# the same parameter VALUE in another Python type: flags computed with NumPy are numpy.bool_, counts read from a file
# are numpy integers of some width or 0-d arrays, names read from a configuration are not the interned literals, ...
# ---------------------------------------------------------------------------------------------------------------------

ARGREPS = ("plain", "np", "0d", "alt")


def pick_argrep(rng, p_plain=0.6):
    r = rng.random()
    if r < p_plain:
        return "plain"
    return ARGREPS[1 + int((r - p_plain) / (1 - p_plain) * 3) % 3]


def flag(b, rep="plain"):
    """a boolean parameter: the literal, numpy.bool_ (what a NumPy comparison yields), a 0-d bool array, or 0 / 1"""
    b = bool(b)
    return {"plain": b, "np": np.bool_(b), "0d": np.array(b), "alt": int(b)}[rep]


def count(n, rep="plain", narrow=True):
    """an integer parameter: int, the narrowest NumPy integer type that holds it (or int64), a 0-d array, int32"""
    n = int(n)
    if rep == "plain":
        return n
    if rep == "np":
        if narrow:
            for t in (np.int8, np.int16, np.int32):
                if np.iinfo(t).min <= n <= np.iinfo(t).max:
                    return t(n)
        return np.int64(n)
    if rep == "0d":
        return np.array(n)
    return np.int32(n)


def real(v, rep="plain"):
    """a real parameter: float, numpy.float64, a 0-d float array (mutable!), a one-element view squeezed to 0-d"""
    v = float(v)
    if rep == "plain":
        return v
    if rep == "np":
        return np.float64(v)
    if rep == "0d":
        return np.array(v)
    return np.array([v, 0.0])[:1].squeeze()


def text(s, rep="plain"):
    """a name: the literal, numpy.str_, an equal string that is not the interned literal (read from a file), a str subclass"""
    if rep == "plain":
        return s
    if rep == "np":
        return np.str_(s)
    if rep == "0d":
        return "".join(list(s))
    return str(bytes(s, "ascii"), "ascii")


class LabelSeries:
    """A column of a data frame after `sort_values`: positional for `len`, iteration, slices and `numpy.asarray`, but an
    integer subscript looks the row up by its LABEL (pandas.Series semantics); the labels are a permutation of 0..n-1."""

    def __init__(self, values, labels=None):
        self._v = np.array(values)
        n = len(self._v)
        self._lab = list(labels) if labels is not None else [(7 * i + 3) % n if n % 7 else (n - 1 - i) for i in range(n)]
        if sorted(self._lab) != list(range(n)):
            self._lab = list(range(n - 1, -1, -1))

    def __len__(self):
        return len(self._v)

    def __iter__(self):
        return iter(self._v)

    def __array__(self, dtype=None, copy=None):
        return np.array(self._v, dtype=dtype)

    def __getitem__(self, k):
        if isinstance(k, slice):
            out = LabelSeries.__new__(LabelSeries)
            out._v, out._lab = self._v[k], self._lab[k]
            return out
        if isinstance(k, (int, np.integer)):
            return self._v[self._lab.index(int(k))]          # by label; KeyError-like ValueError when absent
        return self._v[np.asarray(k)]

    def copy(self):
        out = LabelSeries.__new__(LabelSeries)
        out._v, out._lab = self._v.copy(), list(self._lab)
        return out

    @property
    def shape(self):
        return self._v.shape

    @property
    def dtype(self):
        return self._v.dtype


def interval_container(values, n, hist, integral=False):
    """The library's own array-like (`traffic_weaver.interval.IntervalArray`) holding `values`, reached through a history:
    `fresh` - built from the values; `corrected` - built from other values (same length / dtype), looked at once
    (`to_2d_array()`, `len`, iteration, `numpy.asarray`: everything a conversion cache could hang on), then corrected
    sample by sample with `ia[k, i] = v` / `ia[j] = v` to the values of the case.  Integer backing when `integral`
    (a float view of it is then a copy, not the array itself)."""
    from traffic_weaver.interval import IntervalArray
    vals = [int(v) for v in values] if integral else [float(v) for v in values]
    dt = np.int64 if integral else np.float64
    if hist == "fresh":
        return IntervalArray(np.array(vals, dtype=dt), n)
    decoy = list(vals)
    idx = [j for j in range(len(vals)) if j % 3 != 1] or [0]
    for j in idx:
        decoy[j] = decoy[j] + (j % 5) + 1
    ia = IntervalArray(np.array(decoy, dtype=dt), n)
    ia.to_2d_array()
    len(ia)
    list(iter(ia))
    np.asarray(ia, dtype=float)
    for t, j in enumerate(idx):
        if t % 2:
            ia[j] = vals[j]
        else:
            ia[j // n, j % n] = vals[j]
    return ia
