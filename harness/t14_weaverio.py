"""Translator T14: accessors, factories and value slicing of `class Weaver`
(/repo/src/traffic_weaver/weaver.py, Python AST) -> lean/TWV/Generated/WeaverIO.lean

T9 (`t9_weaver.py`) translates every state-changing method and `slice_by_index`.  T14 translates the rest of the
public surface: `slice_by_value`, `from_2d_array`, `from_csv`, `get`, `get_original`, `get_reference`, `__len__`,
`to_2d_array`, `to_function`.  None of them assigns an attribute, so a definition is `GenIO.<m> [self] <arguments> :
Except Err <result>`; `TWV/Tie/WeaverIO.lean` proves each equal to its hand model (`Weaver.sliceByValue`,
`Weaver.from2dArr` / `Weaver.from2d`, `Weaver.fromCsv`, `Weaver.get…`, `Weaver.len`, `Weaver.to2dArray`,
`Weaver.toFunction`: `TWV/Model/Weaver.lean`, `TWV/Model/WeaverIO.lean`) for ALL states and arguments.

The expression / test translation of T9 is reused (class `MethodTranslator`); what is added:
  `p is None` for an optional VALUE parameter  -> `match p with | none => … | some p => …` (one definition covers the
                                                  four call shapes of `slice_by_value`)
  `np.where(a == v)[0]`                        -> `Wio.whereEq a v : List Nat`;  `len(l)`, `l[k]` of it / of a shape
                                                  (`l[k]` is `Wio.bindX (Wio.getIdx l k)`: IndexError when out of range)
  `if A or B:` / `if A and B:` with an index in a later operand -> nested `if`s (Python's short circuit, exactly)
  `xy.shape`, `xy[:, k]`                       -> `Wio.shape xy`, `Wio.bindX (Wio.col xy k)`
  `self.slice_by_index(…)`                     -> `GenW.slice_by_index self …` (T9's definition), arguments bound
                                                  against the signature of `slice_by_index` read from the same text
  `Weaver(a, b)`                               -> `Wio.construct (GenW.init_x_given a b)` (T9's `__init__`; `None`
                                                  for `x`: `init_x_none`), bound against `__init__`'s signature
  `Weaver.from_2d_array(e)`                    -> `GenIO.from_2d_array e`
  `np.loadtxt(f, delimiter=d, dtype=t)`        -> `Wio.bindX (Wio.loadtxt loadtxt f d t)`: an oracle of exactly these
  `np.column_stack((a, b, …))`                 -> `Wio.column_stack [a, b, …]`
  `spline_smooth(x, y, s=e)`                   -> `Wio.spline_smooth spline_smooth x y (some e)` (`none` when omitted)
  `return e` / `return e1, e2`                 -> `.ok …`, or the failing expression itself in tail position
  `raise E(…)`                                 -> `.error .e`
Parameter defaults of the translated methods are emitted as the table `GenIO.defaults`; the literal `delimiter` /
`dtype` of `from_csv` as `GenIO.from_csv_delimiter` / `GenIO.from_csv_dtype` (facts checked in the tie).
Anything else: the method is emitted as an alias of the hand model with the note `UNSUPPORTED <fn>: <reason>`.

NOT seen: object identity (the arrays `get()` hands out ARE the object's), dtype, the container type, what
`np.loadtxt` / `spline_smooth` do, `from_dataframe`.
"""
from __future__ import annotations

import ast
import sys
from pathlib import Path

from . import t9_weaver as T9
from .core import LEAN
from .t3_vector import Unsupported
from .t9_weaver import (B, C, I, N, S, STR, V, T, CLASS, ERRS, SRC_DIR, SRCNAME, MethodTranslator, State, Val,
                        import_aliases, is_docstring, lean_str)

OUT = LEAN / "TWV" / "Generated" / "WeaverIO.lean"
REQUIRED = False

# additional kinds
OPTS, IV, SH, M, ROWS, FN = "OPTS", "IV", "SH", "M", "ROWS", "FN"
E_XVV, E_OBJ, E_ROWS, E_M = "E:XVV", "E:OBJ", "E:ROWS", "E:M"
EXTRA_CLASH = {"Wio", "GenIO", "loadtxt", "spline_smooth"}
RET = {
    "XVV": "Except Err (List K × List K)",
    "OBJ": "Except Err (Weaver.State K)",
    "NAT": "Except Err Nat",
    "ROWS": "Except Err (List (List K))",
    "FN": "Except Err (List K → List K)",
}
TY = {V: "List K", S: "K", N: "Nat", I: "Int", B: "Bool", STR: "String", IV: "List Nat", SH: "List Nat",
      M: "Weaver.NdArr K", ROWS: "List (List K)", FN: "List K → List K"}
FN4 = "List K → List K → Option K → List K → List K"
LOADTXT = "String → String → String → Except Err (Weaver.NdArr K)"


class Spec:
    def __init__(self, gen, py, params, binders, ret, fallback, static=False, oracles=()):
        self.gen, self.py, self.params, self.binders, self.ret, self.fallback = gen, py, params, binders, ret, fallback
        self.static, self.oracles = static, oracles
        # read by T9's MethodTranslator
        self.kwargs, self.rfa, self.init = False, None, None


SPECS = [
    Spec("slice_by_value", "slice_by_value", {"start": OPTS, "stop": OPTS, "step": N},
         "(start stop : Option K) (step : Nat)", "XVV", "Weaver.sliceByValue self.toState start stop step"),
    Spec("from_2d_array", "from_2d_array", {"xy": M}, "(xy : Weaver.NdArr K)", "OBJ", "Weaver.from2dArr xy", static=True),
    Spec("from_csv", "from_csv", {"file_name": STR}, f"(file_name : String) (loadtxt : {LOADTXT})", "OBJ",
         'Weaver.fromCsv (loadtxt file_name "," "float64")', static=True, oracles=("loadtxt",)),
    Spec("get", "get", {}, "", "XVV", ".ok (Weaver.get self.toState)"),
    Spec("get_original", "get_original", {}, "", "XVV", ".ok (Weaver.getOriginal self.toState)"),
    Spec("get_reference", "get_reference", {}, "", "XVV", ".ok (Weaver.getReference self.toState)"),
    Spec("len", "__len__", {}, "", "NAT", ".ok (Weaver.len self.toState)"),
    Spec("to_2d_array", "to_2d_array", {}, "", "ROWS",
         "if self.x.length = self.y.length then .ok (Weaver.to2dArray self.toState) else .error .valueError"),
    Spec("to_function", "to_function", {"s": S}, f"(s : K) (spline_smooth : {FN4})", "FN",
         ".ok (Weaver.toFunction spline_smooth self.toState s)", oracles=("spline_smooth",)),
]
# methods of the object a translated method may delegate to: T9's definition, parameter kinds in order
DELEGATES = {"slice_by_index": ("GenW.slice_by_index", [("start", I), ("stop", T9.OPTI), ("step", N)], E_XVV)}
INIT_PARAMS = ["x", "y"]
DTYPES = {"numpy.float64": "float64", "numpy.float32": "float32", "numpy.int64": "int64", "numpy.int32": "int32",
          "float": "float64", "int": "int64"}


def ident(name):
    if name in EXTRA_CLASH:
        raise Unsupported(f"variable name `{name}` clashes with the generated vocabulary")
    return T9.ident(name)


def has_index(e):
    return any(isinstance(n, ast.Subscript) for n in ast.walk(e))


class IOTranslator(MethodTranslator):
    def __init__(self, spec, fn, aliases, methods):
        super().__init__(spec, fn, aliases)
        self.methods = methods
        self.used_now = set()

    # -- guards / binds: the methods return `Except`, no attribute record ---------------------------
    def guard(self, code, k):
        key = (code, "nonempty" if k in (0, -1) else k)
        if key in self.guards:
            return
        self.guards.add(key)
        self.pre.append(f"Wio.bindX (Wv.checkIdx {code} ({k})) fun _ =>")

    def bind(self, code, kind):
        r = self.fresh()
        self.pre.append(f"Wio.bindX ({code}) fun {r} =>")
        return Val(kind, r)

    def emit_call(self, lean, args, oracles, ret, node):
        raise self.bad("a library call of T9's table in a read-only method", node)

    def unwrap(self, v: Val):
        """a value that can fail, used as an operand: bound first"""
        if v.kind == E_M:
            return self.bind(v.code, M)
        if v.kind == E_ROWS:
            return self.bind(v.code, ROWS)
        if v.kind == E_XVV:
            r = self.bind(v.code, T)
            r.elts = [Val(V, f"{r.code}.1"), Val(V, f"{r.code}.2")]
            return r
        return v

    # -- tests -------------------------------------------------------------------------------------
    def test(self, e, st):
        if isinstance(e, ast.Compare) and len(e.ops) == 1 and isinstance(e.ops[0], (ast.Is, ast.IsNot)) \
                and isinstance(e.left, ast.Name) and e.left.id in st.env and st.env[e.left.id].kind == OPTS:
            raise self.bad(f"`{e.left.id} is None` inside a compound test", e)
        # truthiness of a count: `if len(a):` / `if not len(a):`
        if isinstance(e, ast.Call) and isinstance(e.func, ast.Name) and e.func.id == "len":
            v = self.ex(e, st)
            if v.kind == N:
                return f"({v.code} ≠ 0)"
        return super().test(e, st)

    # -- expressions -------------------------------------------------------------------------------
    def is_class(self, e, st):
        return isinstance(e, ast.Name) and e.id == CLASS and e.id not in st.env and e.id not in self.locals \
            and e.id not in self.aliases

    def where_eq(self, e, st):
        """`np.where(a == v)` -> (array term, value term) or None"""
        if not (isinstance(e, ast.Call) and self.resolve(e.func, st) == "numpy.where"):
            return None
        if len(e.args) != 1 or e.keywords:
            raise self.bad("np.where with other than one argument", e)
        c = e.args[0]
        if not (isinstance(c, ast.Compare) and len(c.ops) == 1 and isinstance(c.ops[0], ast.Eq)):
            raise self.bad("np.where of something that is not `array == value`", e)
        a, b = self.ex(c.left, st), self.ex(c.comparators[0], st)
        if a.kind != V:
            a, b = b, a
        if a.kind != V or b.kind not in (S, N):
            raise self.bad("np.where(array == value): an array and a value are expected", e)
        return a.code, self.to_S(b, e)

    def subscript(self, e, st):
        sl = e.slice
        w = self.where_eq(e.value, st)
        if w is not None:
            if self.int_lit(sl) != 0:
                raise self.bad("np.where(…) of a 1-D array has one component: `[0]` is expected", e)
            return Val(IV, f"(Wio.whereEq {w[0]} {w[1]})")
        if isinstance(sl, ast.Tuple):
            v = self.ex(e.value, st)
            if v.kind != M:
                raise self.bad("2-D index of a value that is not a 2-D array parameter", e)
            if len(sl.elts) != 2:
                raise self.bad("index with other than two components", e)
            r, c = sl.elts
            if not (isinstance(r, ast.Slice) and r.lower is None and r.upper is None and r.step is None):
                raise self.bad("row index that is not `:`", e)
            k = self.int_lit(c)
            if k is None:
                raise self.bad("column index that is not an integer literal", e)
            return self.bind(f"Wio.col {v.code} ({k})", V)
        if isinstance(e.value, (ast.Name, ast.Attribute, ast.Call)):
            v = self.ex(e.value, st)
            if v.kind in (IV, SH):
                k = self.int_lit(sl)
                if k is None:
                    raise self.bad("index that is not an integer literal", e)
                return self.bind(f"Wio.getIdx {v.code} ({k})", N)
            if v.kind == V:
                pass
            else:
                raise self.bad("index / slice of a value of this kind", e)
        return super().subscript(e, st)

    def bind_args(self, call, names, st, what):
        given, star = self.map_args(call, [(n, None, None) for n in names], st, what)
        if star:
            raise self.bad(f"{what}: `**kwargs`", call)
        return given

    def default_of(self, fn_name, pname, call):
        fns = self.methods.get(fn_name, [])
        if len(fns) != 1:
            raise self.bad(f"{fn_name} is not defined exactly once", call)
        a = fns[0].args
        if a.vararg or a.kwonlyargs or a.posonlyargs or a.kwarg:
            raise self.bad(f"signature of {fn_name}", call)
        names = [p.arg for p in a.args]
        defaults = dict(zip(names[len(names) - len(a.defaults):], a.defaults))
        return names, defaults.get(pname)

    def call(self, e, st):
        f = e.func
        # self.slice_by_index(...)
        if isinstance(f, ast.Attribute) and self.is_self(f.value):
            if f.attr not in DELEGATES:
                raise self.bad(f"call of self.{f.attr}", e)
            lean, params, kind = DELEGATES[f.attr]
            names, _ = self.default_of(f.attr, None, e)
            if names[1:] != [p[0] for p in params]:
                raise self.bad(f"parameter list of {f.attr} changed", e)
            given = self.bind_args(e, names[1:], st, f"self.{f.attr}")
            args = []
            for pname, pk in params:
                node = given.get(pname)
                if node is None:
                    node = self.default_of(f.attr, pname, e)[1]
                    if node is None:
                        raise self.bad(f"self.{f.attr}: argument `{pname}` is missing", e)
                v = self.ex(node, st)
                if pk == T9.OPTI:
                    args.append("none" if v.kind == C and v.value is None else f"(some {self.to_I(v, node)})")
                else:
                    args.append(self.to_kind(v, pk, node, f"self.{f.attr}: argument `{pname}`"))
            return Val(kind, f"{lean} self " + " ".join(args))
        # Weaver(x, y)
        if self.is_class(f, st):
            names, _ = self.default_of("__init__", None, e)
            if names[1:] != INIT_PARAMS:
                raise self.bad("parameter list of __init__ changed", e)
            given = self.bind_args(e, names[1:], st, CLASS)
            vals = {}
            for pname in INIT_PARAMS:
                node = given.get(pname) or self.default_of("__init__", pname, e)[1]
                if node is None:
                    raise self.bad(f"{CLASS}: argument `{pname}` is missing", e)
                vals[pname] = self.ex(node, st)
            if vals["y"].kind != V:
                raise self.bad(f"{CLASS}: `y` is not a 1-D array", e)
            if vals["x"].kind == C and vals["x"].value is None:
                return Val(E_OBJ, f"Wio.construct (GenW.init_x_none {vals['y'].code})")
            if vals["x"].kind != V:
                raise self.bad(f"{CLASS}: `x` is not a 1-D array", e)
            return Val(E_OBJ, f"Wio.construct (GenW.init_x_given {vals['x'].code} {vals['y'].code})")
        # Weaver.from_2d_array(e)
        if isinstance(f, ast.Attribute) and self.is_class(f.value, st):
            if f.attr != "from_2d_array":
                raise self.bad(f"call of {CLASS}.{f.attr}", e)
            fns = self.methods.get(f.attr, [])
            if len(fns) != 1 or [ast.unparse(d) for d in fns[0].decorator_list] != ["staticmethod"]:
                raise self.bad(f"{CLASS}.{f.attr} is not a static method defined once", e)
            names = [p.arg for p in fns[0].args.args]
            if names != ["xy"]:
                raise self.bad(f"parameter list of {f.attr} changed", e)
            given = self.bind_args(e, names, st, f"{CLASS}.{f.attr}")
            if "xy" not in given:
                raise self.bad(f"{CLASS}.{f.attr}: argument `xy` is missing", e)
            v = self.unwrap(self.ex(given["xy"], st))
            if v.kind != M:
                raise self.bad(f"{CLASS}.{f.attr}: the argument is not an n-d array", e)
            return Val(E_OBJ, f"GenIO.from_2d_array {v.code}")
        name = self.resolve(f, st)
        if name == "numpy.loadtxt":
            given = self.bind_args(e, ["fname", "dtype", "comments", "delimiter"], st, "np.loadtxt")
            if set(given) - {"fname", "dtype", "delimiter"} or "fname" not in given:
                raise self.bad("np.loadtxt: fname, delimiter, dtype are expected", e)
            fname = self.ex(given["fname"], st)
            if fname.kind != STR:
                raise self.bad("np.loadtxt: the file name is not a string", e)
            delim = '" "'
            if "delimiter" in given:
                d = self.ex(given["delimiter"], st)
                if d.kind != STR:
                    raise self.bad("np.loadtxt: delimiter is not a string literal", e)
                delim = d.code
            dtype = "float64"
            if "dtype" in given:
                dn = self.resolve(given["dtype"], st) or (given["dtype"].id if isinstance(given["dtype"], ast.Name)
                                                          and given["dtype"].id not in st.env else None)
                if dn not in DTYPES:
                    raise self.bad("np.loadtxt: dtype", e)
                dtype = DTYPES[dn]
            self.oracle("loadtxt", e)
            self.facts = {"delimiter": delim, "dtype": lean_str(dtype)}
            return Val(E_M, f"Wio.loadtxt loadtxt {fname.code} {delim} {lean_str(dtype)}")
        if name == "numpy.column_stack":
            if len(e.args) != 1 or e.keywords or not isinstance(e.args[0], (ast.Tuple, ast.List)):
                raise self.bad("np.column_stack of something that is not a tuple of arrays", e)
            cols = [self.ex(x, st) for x in e.args[0].elts]
            if any(c.kind != V for c in cols):
                raise self.bad("np.column_stack of values that are not 1-D arrays", e)
            return Val(E_ROWS, f"Wio.column_stack [{', '.join(c.code for c in cols)}]")
        if name == "process.spline_smooth":
            given = self.bind_args(e, ["x", "y", "s"], st, name)
            if "x" not in given or "y" not in given:
                raise self.bad(f"{name}: x and y are expected", e)
            x, y = self.ex(given["x"], st), self.ex(given["y"], st)
            if x.kind != V or y.kind != V:
                raise self.bad(f"{name}: x and y must be 1-D arrays", e)
            s = "none"
            if "s" in given:
                sv = self.ex(given["s"], st)
                s = "none" if sv.kind == C and sv.value is None else f"(some {self.to_S(sv, e)})"
            self.oracle("spline_smooth", e)
            return Val(FN, f"(Wio.spline_smooth spline_smooth {x.code} {y.code} {s})")
        if isinstance(f, ast.Name) and f.id == "len" and f.id not in st.env and f.id not in self.aliases \
                and len(e.args) == 1 and not e.keywords:
            v = self.ex(e.args[0], st)
            if v.kind in (IV, SH):
                return Val(N, f"{v.code}.length")
            if v.kind == V:
                return Val(N, f"{v.code}.length")
            raise self.bad("len of a value that is not an array", e)
        if name is not None and name in T9.CALLEES:
            raise self.bad(f"call of {name} in a read-only method", e)
        return super().call(e, st)

    def oracle(self, o, node):
        if o not in self.spec.oracles:
            raise self.bad(f"needs the oracle `{o}`, which this method does not have", node)
        if o in self.used_now:
            raise self.bad(f"the oracle `{o}` would be used twice", node)
        self.used_now.add(o)

    def ex(self, e, st):
        if isinstance(e, ast.Name) and e.id in st.env and st.env[e.id].kind == OPTS:
            raise self.bad(f"optional parameter `{e.id}` used before `{e.id} is None` is decided", e)
        if isinstance(e, ast.Attribute) and e.attr == "shape" and not self.is_self(e.value):
            v = self.ex(e.value, st)
            if v.kind != M:
                raise self.bad(".shape of a value that is not an n-d array", e)
            return Val(SH, f"(Wio.shape {v.code})")
        if self.spec.static and isinstance(e, ast.Attribute) and self.is_self(e.value):
            raise self.bad("a static method has no object", e)
        return super().ex(e, st)

    # -- statements --------------------------------------------------------------------------------
    def opts_test(self, t, st):
        """`p is None` / `p is not None` for an optional value parameter -> (name, branch taken when None)"""
        if isinstance(t, ast.UnaryOp) and isinstance(t.op, ast.Not):
            r = self.opts_test(t.operand, st)
            return None if r is None else (r[0], not r[1])
        if isinstance(t, ast.Compare) and len(t.ops) == 1 and isinstance(t.ops[0], (ast.Is, ast.IsNot)) \
                and isinstance(t.left, ast.Name) and isinstance(t.comparators[0], ast.Constant) \
                and t.comparators[0].value is None and t.left.id in st.env and st.env[t.left.id].kind == OPTS:
            return t.left.id, isinstance(t.ops[0], ast.Is)
        return None

    def sub(self, stmts, st, ind):
        lines = []
        self.block(stmts, st, lines, ind)
        return lines

    def block(self, stmts, st, lines, ind):
        for k, s in enumerate(stmts):
            rest = stmts[k + 1:]
            if is_docstring(s) or isinstance(s, ast.Pass):
                continue
            self.begin(st)
            if isinstance(s, ast.Return):
                return self.ret(s, st, lines, ind)
            if isinstance(s, ast.Raise):
                return self.raise_(s, st, lines, ind)
            if isinstance(s, ast.If):
                o = self.opts_test(s.test, st)
                if o is not None:
                    name, none_first = o
                    b_none, b_some = (s.body, s.orelse) if none_first else (s.orelse, s.body)
                    env_n, env_s = dict(st.env), dict(st.env)
                    env_n[name] = Val(C, value=None)
                    env_s[name] = Val(S, ident(name))
                    ln = self.sub(list(b_none) + list(rest), st.with_(env=env_n), ind + "    ")
                    ls = self.sub(list(b_some) + list(rest), st.with_(env=env_s), ind + "    ")
                    lines.append(f"{ind}match {ident(name)} with")
                    lines.append(f"{ind}| none => (")
                    lines += ln[:-1] + [ln[-1] + ")"]
                    lines.append(f"{ind}| some {ident(name)} => (")
                    lines += ls[:-1] + [ls[-1] + ")"]
                    return
                t = s.test
                if isinstance(t, ast.BoolOp) and len(t.values) > 1 and any(has_index(v) for v in t.values[1:]):
                    # Python's short circuit, as nested ifs
                    first = t.values[0]
                    more = t.values[1] if len(t.values) == 2 else ast.copy_location(ast.BoolOp(op=t.op, values=t.values[1:]), t)
                    inner = ast.copy_location(ast.If(test=more, body=s.body, orelse=s.orelse), s)
                    if isinstance(t.op, ast.Or):
                        new = ast.copy_location(ast.If(test=first, body=s.body, orelse=[inner]), s)
                    else:
                        new = ast.copy_location(ast.If(test=first, body=[inner], orelse=s.orelse), s)
                    return self.block([new] + list(rest), st, lines, ind)
                c = self.test(t, st)
                if isinstance(c, bool):
                    if self.pre:
                        raise self.bad("a decided test with an index in it", s)
                    return self.block(list(s.body if c else s.orelse) + list(rest), st, lines, ind)
                self.flush(lines, ind)
                lines.append(f"{ind}if {c} then")
                self.block(list(s.body) + list(rest), st, lines, ind + "  ")
                lines.append(f"{ind}else")
                self.block(list(s.orelse) + list(rest), st, lines, ind + "  ")
                return
            if isinstance(s, (ast.Assign, ast.AnnAssign)):
                if isinstance(s, ast.Assign):
                    if len(s.targets) != 1:
                        raise self.bad("chained assignment", s)
                    tgt = s.targets[0]
                else:
                    if s.value is None:
                        continue
                    tgt = s.target
                targets = list(tgt.elts) if isinstance(tgt, (ast.Tuple, ast.List)) else [tgt]
                st = self.assign(targets, self.unwrap(self.ex(s.value, st)), st, lines, ind, s)
                continue
            raise self.bad(f"statement {type(s).__name__}", s)
        raise Unsupported(f"{self.spec.py} can end without `return` ({self.where(self.fn)})")

    def assign(self, targets, value, st, lines, ind, node):
        if len(targets) == 1:
            comps = [value]
        else:
            if value.kind != T or len(value.elts) != len(targets):
                raise self.bad("tuple assignment from a value that is not a tuple of that many parts", node)
            comps = value.elts
        self.flush(lines, ind)
        env = dict(st.env)
        for tgt, c in zip(targets, comps):
            if not isinstance(tgt, ast.Name):
                raise self.bad("a read-only method assigns to something that is not a local variable", node)
            if tgt.id == self.recv:
                raise self.bad("assignment to the object itself", node)
            if tgt.id in self.spec.params:
                raise self.bad(f"assignment to parameter `{tgt.id}`", node)
            ty = TY.get(c.kind)
            if ty is None or c.code is None:
                raise self.bad("assignment of a value of this kind to a local", node)
            code = f"({c.literal} : Int)" if c.kind == I and c.literal is not None else c.code
            name = ident(tgt.id)
            lines.append(f"{ind}let {name} : {ty} := {code}")
            env[tgt.id] = Val(c.kind, name)
        return st.with_(env=env, used=frozenset(self.used_now))

    def raise_(self, s, st, lines, ind):
        exc = s.exc
        name = None
        if isinstance(exc, ast.Call) and isinstance(exc.func, ast.Name):
            name = exc.func.id
            for a in list(exc.args) + [k.value for k in exc.keywords]:
                if any(isinstance(n, ast.Call) for n in ast.walk(a)):
                    raise self.bad("a call inside the exception's arguments", s)
        elif isinstance(exc, ast.Name):
            name = exc.id
        if name is None or name not in ERRS or name in st.env or name in self.aliases or s.cause is not None:
            raise self.bad(f"raise of `{ast.unparse(exc)[:40] if exc is not None else ''}`", s)
        lines.append(f"{ind}.error {ERRS[name]}")

    def ret(self, s, st, lines, ind):
        if s.value is None:
            raise self.bad("bare return", s)
        v = self.ex(s.value, st)
        want = self.spec.ret
        if want == "XVV" and v.kind == T and len(v.elts) == 2 and all(x.kind == V for x in v.elts):
            out = f".ok ({v.elts[0].code}, {v.elts[1].code})"
        elif v.kind == "E:" + want:
            out = v.code
        elif want == "NAT" and v.kind == N:
            out = f".ok {v.code}"
        elif want == "ROWS" and v.kind == ROWS:
            out = f".ok {v.code}"
        elif want == "FN" and v.kind == FN:
            out = f".ok {v.code}"
        else:
            raise self.bad(f"the method does not return a value of the expected kind ({want})", s)
        self.flush(lines, ind)
        lines.append(ind + out)

    # -- the method --------------------------------------------------------------------------------
    def translate(self):
        a = self.fn.args
        if a.vararg or a.kwonlyargs or a.posonlyargs or a.kwarg:
            raise Unsupported(f"signature of {self.spec.py} at {self.where(self.fn)}")
        decos = [ast.unparse(d) for d in self.fn.decorator_list]
        if decos != (["staticmethod"] if self.spec.static else []):
            raise Unsupported(f"decorators of {self.spec.py} changed")
        names = [p.arg for p in a.args]
        if self.spec.static:
            self.recv = None
        else:
            if not names:
                raise Unsupported(f"{self.spec.py} has no receiver")
            self.recv, names = names[0], names[1:]
            if self.recv != "self":
                raise Unsupported(f"the receiver of {self.spec.py} is not called `self`")
        if names != list(self.spec.params):
            raise Unsupported(f"parameter list of {self.spec.py} changed at {self.where(self.fn)}")
        for n in ast.walk(self.fn):
            if isinstance(n, ast.Name) and isinstance(n.ctx, ast.Store):
                self.locals.add(n.id)
        env = {name: Val(kind, ident(name)) for name, kind in self.spec.params.items()}
        self.facts = {}
        lines = []
        self.block(list(self.fn.body), State(env), lines, "  ")
        return "\n".join([head(self.spec)] + lines)

    def is_self(self, e):
        return self.recv is not None and isinstance(e, ast.Name) and e.id == self.recv


def head(spec: Spec):
    recv = "" if spec.static else "(self : Wv.Attrs K) "
    return f"def GenIO.{spec.gen} {recv}{spec.binders}".rstrip() + f" : {RET[spec.ret]} :="


HEADER = [
    "import TWV.Model.WeaverIOVocab", "import TWV.Generated.WeaverStep", "",
    "/-! GENERATED by harness/t14_weaverio.py from src/traffic_weaver/weaver.py (class Weaver) — do not edit.",
    "",
    "The methods of `class Weaver` that do not change the object: value slicing, the factories, the accessors",
    "(vocabulary: `TWV/Model/WeaverIOVocab.lean`, `TWV/Model/WeaverVocab.lean`; `GenW.*` are T9's definitions).",
    "`TWV/Tie/WeaverIO.lean` proves each equal to its hand model. -/", "",
    "set_option linter.unusedVariables false", "",
    "namespace TWV", "",
    "variable {K : Type} [Add K] [Sub K] [Mul K] [Div K] [Neg K] [Zero K] [One K] [NatCast K]",
    "  [LT K] [LE K] [DecidableLT K] [DecidableLE K] [DecidableEq K]", "",
]
PINNED_DEFAULTS = [("slice_by_value", "start", "None"), ("slice_by_value", "stop", "None"), ("slice_by_value", "step", "1"),
                   ("to_function", "s", "0")]


def defaults_of(fn):
    a = fn.args
    names = [p.arg for p in a.args]
    out = []
    for n, d in zip(names[len(names) - len(a.defaults):], a.defaults):
        out.append((n, ast.unparse(d)))
    return out


def generate(text=None):
    """-> (Lean text, notes); the text of weaver.py is read from /repo's working tree when not given"""
    broken = None
    if text is None:
        try:
            text = (SRC_DIR / SRCNAME).read_text()
        except OSError:
            broken = "source file is missing"
    methods, aliases = {}, {}
    if broken is None:
        try:
            tree = ast.parse(text)
        except SyntaxError as e:
            broken = f"syntax error at {SRCNAME}:{e.lineno}"
    if broken is None:
        aliases = import_aliases(tree)
        classes = [n for n in tree.body if isinstance(n, ast.ClassDef) and n.name == CLASS]
        if len(classes) != 1:
            broken = f"{len(classes)} definitions of class {CLASS}"
        else:
            cls = classes[0]
            odd = [type(st).__name__ for i, st in enumerate(cls.body)
                   if not ((i == 0 and is_docstring(st)) or isinstance(st, (ast.Pass, ast.FunctionDef)))]
            if odd or cls.decorator_list or cls.keywords or \
                    [b for b in cls.bases if not (isinstance(b, ast.Name) and b.id == "object")]:
                broken = f"class {CLASS} has class-level statements / bases / decorators ({', '.join(odd) or 'header'})"
            for st in cls.body:
                if isinstance(st, ast.FunctionDef):
                    methods.setdefault(st.name, []).append(st)
            for st in tree.body:
                for n in ast.walk(st) if not isinstance(st, (ast.ClassDef, ast.FunctionDef)) else []:
                    if isinstance(n, ast.Attribute) and isinstance(n.ctx, ast.Store) \
                            and isinstance(n.value, ast.Name) and n.value.id == CLASS:
                        broken = f"module-level assignment to {CLASS}.{n.attr}"
    out = list(HEADER)
    notes = []
    defaults = []
    facts = {"delimiter": '","', "dtype": '"float64"'}
    for spec in SPECS:
        reason = broken
        if reason is None:
            fns = methods.get(spec.py, [])
            if len(fns) != 1:
                reason = f"{spec.py} is not defined exactly once in class {CLASS}"
            else:
                try:
                    tr = IOTranslator(spec, fns[0], aliases, methods)
                    code = tr.translate()
                    for o in spec.oracles:
                        if o not in tr.used_now:
                            raise Unsupported(f"{spec.py} does not call the external routine `{o}`")
                    out.append(code)
                    defaults += [(spec.py, n, d) for n, d in defaults_of(fns[0])]
                    if spec.gen == "from_csv":
                        facts = tr.facts
                except Unsupported as e:
                    reason = str(e)
                except RecursionError:
                    reason = "expression too deep"
        if reason is not None:
            notes.append(f"UNSUPPORTED {spec.gen}: {reason}")
            out.append(f"/- T14 cannot translate `{spec.gen}` ({reason}); alias of the hand model, the tie holds"
                       f" trivially. -/\n{head(spec)}\n  {spec.fallback}")
            defaults += [d for d in PINNED_DEFAULTS if d[0] == spec.py]
        out.append("")
    try:
        rows = ", ".join(f"({lean_str(a)}, {lean_str(b)}, {lean_str(c)})" for a, b, c in defaults)
    except Unsupported as e:
        notes.append(f"UNSUPPORTED defaults: {e}")
        rows = ", ".join(f"({lean_str(a)}, {lean_str(b)}, {lean_str(c)})" for a, b, c in PINNED_DEFAULTS)
    out += ["/-- the parameter defaults of the translated methods: (method, parameter, default as written) -/",
            f"def GenIO.defaults : List (String × String × String) :=\n  [{rows}]", "",
            "/-- the literal `delimiter=` / `dtype=` that `from_csv` hands to `np.loadtxt` -/",
            f"def GenIO.from_csv_delimiter : String := {facts.get('delimiter', '\"\"')}",
            f"def GenIO.from_csv_dtype : String := {facts.get('dtype', '\"\"')}", ""]
    out += ["end TWV", ""]
    return "\n".join(out), notes


def regenerate(text=None, out=None):
    lean, notes = generate(text)
    out = Path(out) if out is not None else OUT
    out.parent.mkdir(parents=True, exist_ok=True)
    changed = (not out.exists()) or out.read_text() != lean
    if changed:
        out.write_text(lean)
    note = "; ".join(notes) if notes else f"all {len(SPECS)} Weaver accessor / factory definitions translated"
    if notes:
        note += " (aliased to the hand model: their ties hold trivially)"
    return f"{note} ({'rewritten' if changed else 'unchanged'})"


def main(argv):
    """python -m harness.t14_weaverio [--src-dir DIR] [--out FILE] [--stdout]   (DIR holds weaver.py)"""
    src_dir, to_stdout, out = None, False, None
    it = iter(argv)
    for a in it:
        if a == "--src-dir":
            src_dir = next(it)
        elif a == "--out":
            out = next(it)
        elif a == "--stdout":
            to_stdout = True
        else:
            print(main.__doc__)
            return 2
    text = None
    if src_dir is not None:
        try:
            text = (Path(src_dir) / SRCNAME).read_text()
        except OSError:
            text = "def ("   # reported as a syntax error: every method is aliased
    if to_stdout:
        lean, notes = generate(text)
        print(lean)
        for n in notes:
            print("--", n)
    else:
        print(regenerate(text, out))
    return 0


if __name__ == "__main__":
    sys.exit(main(sys.argv[1:]))
