"""Session correspondence for the Weaver façade (C08, C09, C20, C11, C02).

A case is a program: constructor arguments plus a list of operations.  `run_impl` executes it on a
real `Weaver`, recording after every step the three series, the caller's arrays, container types
and alias facts, and at the same time builds the request lines for the model driver (operations
that involve external routines carry the implementation's own result as data)."""
from __future__ import annotations

import math
import threading
import warnings
from fractions import Fraction

import numpy as np

from . import shapes as S

from . import rfa_common as R
from .core import fmt, fmt_list, fmt_ints, fmt_opt, parse_rats, frac, err_kind, close, vclose, exact, floats

DOMAIN = ["append", "shift_x", "shift_y", "scale_x", "scale_y", "norm_x", "norm_y", "repeat", "trunc_v", "trunc_i"]
RESHAPE = ["recreate", "match", "interp", "smooth", "trend", "noise"]
STRATS = ["pc", "linfixed", "linadaptive", "expfixed", "expadaptive", "cubic"]


# ---------------------------------------------------------------------------------------------
# generation
# ---------------------------------------------------------------------------------------------

def gen_init(rng, lo=4, hi=12):
    m = rng.randint(lo, hi)
    x = rng.increasing(m)
    y = rng.values(m)
    if len(set(y)) == 1:
        y[0] += 1
    if rng.random() < 0.1:
        y = [v / 2 ** rng.choice([20, 30]) for v in y]       # small units
    int_y = rng.random() < 0.12
    if int_y:
        y = [Fraction(int(v)) for v in y]                     # integer dtype (counts)
        if len(set(y)) == 1:
            y[0] += 1
    int_x = rng.random() < 0.12 and all(v.denominator == 1 for v in x)
    if not int_y and m >= 4 and rng.random() < 0.06:
        # one reading many orders of magnitude above the rest, early in the series (a fill value, a burst)
        y[rng.choice([0, 1])] = Fraction(rng.choice([6 * 10 ** 17, 3 * 10 ** 18, -2 * 10 ** 17]))
    return {"x": [str(v) for v in x], "y": [str(v) for v in y],
            "as_list": rng.random() < 0.25, "int_x": int_x, "int_y": int_y, "x_none": rng.random() < 0.05,
            # the application treats warnings as errors (python -W error, pytest filterwarnings=error)
            "werror": rng.random() < 0.15,
            # parameters as Python literals or in another type (numpy.bool_ flags, NumPy integer counts, 0-d array
            # bounds, names that are not the interned literals)
            "argrep": S.pick_argrep(rng, 0.7)}


def gen_domain_op(rng, allow=DOMAIN):
    k = rng.choice(allow)
    if k == "append":
        return {"op": k, "periodic": rng.random() < 0.5}
    if k in ("shift_x", "shift_y"):
        return {"op": k, "v": str(rng.dyadic(-32, 32, 4))}
    if k == "scale_x":
        return {"op": k, "v": str(rng.choice([Fraction(1, 2), Fraction(2), Fraction(3), Fraction(1, 4), Fraction(3, 2)]))}
    if k == "scale_y":
        return {"op": k, "v": str(rng.choice([Fraction(1, 2), Fraction(2), Fraction(-3), Fraction(-1, 4), Fraction(3, 2)]))}
    if k in ("norm_x", "norm_y"):
        lo = rng.dyadic(-16, 16, 4)
        return {"op": k, "lo": str(lo), "hi": str(lo + rng.choice([1, 2, Fraction(1, 2), 10]))}
    if k == "repeat":
        return {"op": k, "r": rng.randint(1, 3)}
    if k == "trunc_v":
        # bounds are resolved at run time against the current series: each is a position index
        # fraction plus a kind: 'mid' (between two samples), 'on' (exactly a sample, sent as @i),
        # 'out' (outside the range); ratio flags only with 'mid' / the exact ratios 0 and 1
        lk = rng.choice(["mid", "mid", "on", "out"])
        rk = rng.choice(["mid", "mid", "on", "out"])
        lr = rng.random() < 0.35
        rr = rng.random() < 0.35
        if lr and lk == "on":
            lk = rng.choice(["mid", "end"])
        if rr and rk == "on":
            rk = rng.choice(["mid", "end"])
        return {"op": k, "fa": str(Fraction(rng.randint(0, 6), 16)), "fb": str(Fraction(rng.randint(9, 16), 16)),
                "lk": lk, "rk": rk, "lr": lr, "rr": rr}
    if k == "trunc_i":
        return {"op": k, "fa": str(Fraction(rng.randint(0, 4), 16)), "fb": str(Fraction(rng.randint(10, 16), 16)),
                "stop_none": rng.random() < 0.2}
    raise ValueError(k)


def gen_reshape_op(rng, allow=RESHAPE):
    k = rng.choice(allow)
    if k == "recreate":
        s = rng.choice(STRATS)
        d = {"op": k, "strategy": s, "n": rng.randint(2, 5)}
        if s in R.WINDOW:
            d["alpha"] = str(Fraction(rng.randint(4, 16), 16))
            if s.startswith("exp"):
                d["beta"] = str(Fraction(rng.randint(0, 8), 8))
                d["exp"] = rng.choice([1, 2, 3])
            if s.endswith("adaptive"):
                d["smooth"] = rng.choice([1, 1, 2])
        return d
    if k == "match":
        d = {"op": k, "target": rng.choice(["trapezoid", "rectangle"]), "ref": rng.choice(["trapezoid", "rectangle"]),
             "alpha": rng.choice([1, 2, 3]), "strategy": rng.choice(["closest", "closest", "lower", "higher"])}
        if rng.random() < 0.2:
            d["fp_kind"] = "sorted_repeat"
        elif rng.random() < 0.15:
            d["s"] = rng.choice([0.0, 0.5, 2.0])      # the optional final spline smoothing (external; its result is data)
        return d
    if k == "interp":
        d = {"op": k, "method": rng.choice(["linear", "constant", "cubic", "spline"])}
        if rng.random() < 0.5:
            d["n"] = rng.randint(2, 30)
        else:
            d["grid"] = [str(Fraction(rng.randint(1, 63), 64)) for _ in range(rng.randint(0, 12))]
            d["as_list"] = rng.random() < 0.5
        return d
    if k == "smooth":
        return {"op": k, "s": rng.choice([0.0, 0.5, 1.0, 10.0])}
    if k == "trend":
        if rng.random() < 0.2:
            return {"op": k, "coef": ["0", "1"], "normalized": rng.random() < 0.3, "view": True}
        return {"op": k, "coef": [str(rng.dyadic(-8, 8, 4)) for _ in range(rng.randint(1, 3))],
                "normalized": rng.random() < 0.5}
    if k == "noise":
        return {"op": k, "snr": rng.choice([10, 20, 3.0]), "db": rng.random() < 0.5, "seed": rng.randint(0, 10 ** 6)}
    raise ValueError(k)


FAIL_KINDS = ["recreate_bad_kwarg", "recreate_small_n", "interp_bad_method", "match_bad_rule", "match_bad_strategy",
              "interp_grid_period", "interp_grid_ends", "interp_grid_ulp", "trunc_inverted", "trunci_bounds"]


def gen_fail_op(rng):
    """a request that must be refused; the program goes on afterwards (an application that catches the error)"""
    return {"op": "fail", "kind": rng.choice(FAIL_KINDS), "n": rng.randint(2, 4), "small": rng.randrange(9)}


def gen_poke_op(rng):
    """the caller edits the arrays `get()` handed out in place (same object, new contents)"""
    return {"op": rng.choice(["poke_x", "poke_x", "poke_y"]), "v": str(rng.dyadic(-8, 8, 2) or 1)}


def sprinkle(rng, ops, p_fail=0.25, p_poke=0.15):
    """insert failing requests and in-place edits at random places of a program"""
    out = []
    for op in ops:
        if rng.random() < p_fail:
            out.append(gen_fail_op(rng))
        if rng.random() < p_poke:
            out.append(gen_poke_op(rng))
        if rng.random() < 0.08:
            # the application hands the object on as a copy (copy.copy, copy.deepcopy, a pickle round trip to a worker):
            # the copy is the same Weaver - working, reference and original series
            out.append({"op": "clone", "how": rng.choice(["pickle", "pickle", "deepcopy", "copy"])})
        out.append(op)
    if rng.random() < p_fail:
        out.insert(rng.randint(0, len(out)), gen_fail_op(rng))
    return out


# ---------------------------------------------------------------------------------------------
# execution on the real object
# ---------------------------------------------------------------------------------------------

def snap(w, caller):
    def arr(a):
        try:
            return [float(v) for v in np.asarray(a, dtype=float).ravel()]
        except Exception:
            return None
    x, y = w.get()
    rx, ry = w.get_reference()
    ox, oy = w.get_original()
    series = {"x": x, "y": y, "rx": rx, "ry": ry, "ox": ox, "oy": oy}
    out = {k: arr(v) for k, v in series.items()}
    out["types"] = {k: type(v).__name__ for k, v in series.items()}
    out["ndim"] = {k: (int(np.ndim(v)) if v is not None else -1) for k, v in series.items()}
    out["caller"] = [None if c is None else [float(v) for v in np.asarray(c, dtype=float).ravel()] for c in caller]
    al = []
    for k, v in series.items():
        for j, c in enumerate(caller):
            if isinstance(c, np.ndarray) and isinstance(v, np.ndarray) and np.shares_memory(v, c):
                al.append(f"{k}~caller{j}")
    for k in ("x", "y", "rx", "ry"):
        for o in ("ox", "oy"):
            if isinstance(series[k], np.ndarray) and isinstance(series[o], np.ndarray) and np.shares_memory(series[k], series[o]):
                al.append(f"{k}~{o}")
    out["alias"] = sorted(al)
    # arrays handed in later (e.g. the grid given to interpolate) must stay what the caller passed
    extra = getattr(w, "_verif_handed_in", [])
    out["handed_in_intact"] = [bool(np.array_equal(a, orig)) for (a, orig) in extra]
    return out


def build(c):
    from traffic_weaver import Weaver
    x = [Fraction(v) for v in c["x"]]
    y = [Fraction(v) for v in c["y"]]
    if c.get("bad_len"):
        x = x[:-1]
    if c.get("from2d"):
        rows = [[float(a), float(b)] for a, b in zip(x, y)]
        if c.get("bad_shape"):
            arr = np.array([r + [0.0] for r in rows]) if c["bad_shape"] == "cols" else np.array(floats(y))
        else:
            arr = np.array(rows)
        line = "wfrom2d " + (";".join(fmt_list([frac(v) for v in r]) for r in arr.tolist()) if arr.ndim == 2 else "0")
        return (lambda: Weaver.from_2d_array(arr)), [arr], line
    if c["as_list"]:
        cx, cy = floats(x), floats(y)
        if c.get("int_y"):
            cy = [int(v) for v in y]
    else:
        cx, cy = S.arr(floats(x)), S.arr(floats(y))
        if c.get("int_y"):
            cy = S.arr([int(v) for v in y])
        if c.get("int_x"):
            cx = S.arr([int(v) for v in x])
    if c.get("x_none"):
        cx = None
    line = f"winit {fmt_opt(None if cx is None else x)} {fmt_list(y)}"
    return (lambda: Weaver(cx, cy)), [cx, cy], line


_TL = threading.local()
_DISPATCH = {"installed": False}


def _install_normal_dispatcher():
    """np.random.normal is replaced once by a dispatcher that serves the scripted draw of the CURRENT thread and is the
    original generator for everybody else (programs run in several threads at once in the schedule dimension)"""
    if _DISPATCH["installed"] and getattr(np.random.normal, "_twv_dispatcher", False):
        return
    orig = np.random.normal

    def normal(loc=0.0, scale=1.0, size=None):
        d = getattr(_TL, "draw", None)
        if d is None:
            return orig(loc, scale, size)
        return d.reshape(size)
    normal._twv_dispatcher = True
    np.random.normal = normal
    _DISPATCH["installed"] = True


def _quiet():
    """inside an operation whose NumPy / SciPy arithmetic legitimately warns (0/0 on constant data, ...): silence
    everything - or, when the program runs with warnings as errors, only the arithmetic (RuntimeWarning) category"""
    if getattr(_TL, "werror", False):
        warnings.filterwarnings("ignore", category=RuntimeWarning)
    else:
        warnings.simplefilter("ignore")


class Skip(Exception):
    """the operation's documented precondition is not met in the current state: drop it"""


def apply_op(w, op, rng_state=None):
    """apply one operation to the real object; returns the model request line"""
    from traffic_weaver import rfa as rfamod
    k = op["op"]
    x = np.asarray(w.x, dtype=float)
    if not op.get("force"):
        if k in ("trunc_v", "append", "match", "repeat") and len(np.asarray(w.reference_x)) < 2:
            raise Skip()          # an earlier cut by index emptied the reference: these operations need one
        if k == "trunc_v" and len(x) < 2:
            raise Skip()
        needs_spline = k == "smooth" or (k == "interp" and op["method"] in ("cubic", "spline")) or (k == "match" and "s" in op)
        if needs_spline and len(x) < 5:
            raise Skip()
        if k in ("recreate", "repeat") and len(x) * (op.get("n", 1) * op.get("r", 1)) > 4000:
            raise Skip()
        if k in ("norm_x", "norm_y"):
            # normalising a series in which one reading lies ~1e17 above the rest squeezes the rest into a few units in
            # the last place of each other; what later operations make of those is rounding, not comparable with the
            # exact model (a limit of the float-vs-exact correspondence, not of the library)
            for a_ in (w.y, w.reference_y, w.original_y) if k == "norm_y" else (w.x, w.reference_x, w.original_x):
                v_ = np.unique(np.asarray(a_, dtype=float))
                if len(v_) > 2 and np.all(np.isfinite(v_)) and (v_[-1] - v_[0]) > 1e10 * np.min(np.diff(v_)):
                    raise Skip()
    if k == "fail":
        from traffic_weaver.rfa import LinearFixedRFA
        kind = op["kind"]
        xs_ = [float(v) for v in x]
        op["_raised"] = None
        try:
            with warnings.catch_warnings():
                _quiet()
                if kind == "recreate_bad_kwarg":
                    w.recreate_from_average(op.get("n", 2), rfa_class=LinearFixedRFA, beta=0.5)
                elif kind == "recreate_small_n":
                    # below 2 in every spelling: integers, and fractional factors that would round up to 2 (450 / 300)
                    w.recreate_from_average([1, 1, 0, -3, 1.5, 1.75, np.float64(1.6), float(np.nextafter(2.0, 0.0)), 450 / 300][op.get("small", 0) % 9])
                elif kind == "interp_bad_method":
                    w.interpolate(n=7, method="quadratic")
                elif kind == "match_bad_rule":
                    # the reference rule is looked at before anything else (the target rule only once a window exists)
                    w.integral_match(reference_function_integral_method="simpson")
                elif kind == "match_bad_strategy":
                    w.integral_match(fixed_points_finding_strategy="nearest")
                elif kind == "interp_grid_period":
                    lo, hi = (xs_[0], xs_[-1]) if len(xs_) >= 2 else (0.0, 1.0)
                    w.interpolate(new_x=np.linspace(lo - 3.0, hi + (hi - lo) + 1.0, 2 * len(xs_) + 1), period=(hi - lo) or 1.0)
                elif kind == "interp_grid_ends":
                    lo, hi = (xs_[0], xs_[-1]) if len(xs_) >= 2 else (0.0, 1.0)
                    w.interpolate(new_x=np.linspace(lo + (hi - lo) / 4 + 0.25, hi, len(xs_) + 2))
                elif kind == "interp_grid_ulp":
                    # the caller's own grid, its last point one unit in the last place beyond the series' (a range
                    # recomputed by the caller): refused - and the caller's array is the caller's
                    g = np.array(xs_ if len(xs_) >= 2 else [0.0, 1.0])
                    g[-1] = math.nextafter(g[-1], math.inf)
                    keep = g.copy()
                    try:
                        w.interpolate(new_x=g)
                    finally:
                        op["_grid_modified"] = not np.array_equal(g, keep)
                elif kind == "trunc_inverted":
                    lo, hi = (xs_[0], xs_[-1]) if len(xs_) >= 2 else (0.0, 1.0)
                    w.truncate_by_value(hi + 1.0, lo - 1.0)
                elif kind == "trunci_bounds":
                    w.truncate_by_index(0, 10 ** 6)
                else:
                    raise ValueError(kind)
        except Exception as e:  # noqa
            op["_raised"] = err_kind(e)
        return "wop shiftx 0"       # the model's state must be what it was
    if k in ("poke_x", "poke_y"):
        v = Fraction(op["v"])
        name = k[-1]
        gx, gy = w.get()
        tgt = gx if name == "x" else gy
        others = [w.reference_x, w.reference_y, w.original_x, w.original_y, gy if name == "x" else gx]
        others += list(getattr(w, "_verif_caller", [])) + [g for (g, _) in getattr(w, "_verif_handed_in", [])]
        in_place = (isinstance(tgt, np.ndarray) and tgt.dtype == np.float64 and tgt.flags.writeable
                    and not any(isinstance(o, np.ndarray) and np.shares_memory(tgt, o) for o in others))
        op["_in_place"] = bool(in_place)
        if in_place:
            tgt += float(v)            # the very array object the Weaver holds now has other contents
        else:
            setattr(w, name, np.asarray(tgt, dtype=float) + float(v))     # the public field is assigned a new array
        return f"wpoke {fmt(v)} 0" if name == "x" else f"wpoke 0 {fmt(v)}"
    rep = getattr(_TL, "argrep", "plain")
    if k == "append":
        w.append_one_sample(make_periodic=S.flag(op["periodic"], rep))
        return f"wop append {1 if op['periodic'] else 0}"
    if k in ("shift_x", "shift_y", "scale_x", "scale_y"):
        v = Fraction(op["v"])
        getattr(w, k)(float(v))
        return f"wop {k.replace('_', '')} {fmt(v)}"
    if k in ("norm_x", "norm_y"):
        lo, hi = Fraction(op["lo"]), Fraction(op["hi"])
        with warnings.catch_warnings():
            _quiet()
            getattr(w, "normalize_" + k[-1])(float(lo), float(hi))
        return f"wop {k.replace('_', '')} {fmt(lo)} {fmt(hi)}"
    if k == "repeat":
        w.repeat(S.count(op["r"], rep, narrow=False))
        return f"wop repeat {op['r']}"
    if k == "trunc_v":
        n = len(x)
        span = float(x[-1]) - float(x[0])

        def bound(fr, kind, ratio, left):
            """returns (python value, protocol token)"""
            i = min(int(Fraction(fr) * (n - 1)), n - 2) if n >= 2 else 0
            if kind in ("raw", "rawratio"):       # explicit value given by the generator (malformed stream)
                v = Fraction(fr)
                return float(v), fmt(v)
            if kind == "on" and not ratio:
                j = i if left else min(i + 1, n - 1)
                return float(x[j]), f"@{j}"
            if kind == "out":
                v = (float(x[0]) - 1.5) if left else (float(x[-1]) + 2.5)
            elif kind == "end":
                return (0.0, "0") if left else (1.0, "1")
            else:
                v = (float(x[i]) + float(x[i + 1])) / 2 if n >= 2 else float(x[0])
            if ratio:
                v = (v - float(x[0])) / span if span else 0.0
            return v, fmt(Fraction(v))
        lv, lt = bound(op["fa"], op["lk"], op["lr"], True)
        rv, rt = bound(op["fb"], op["rk"], op["rr"], False)
        if op.get("swap") and lv < rv:
            (lv, lt), (rv, rt) = (rv, rt), (lv, lt)
        la = lv * span + float(x[0]) if op["lr"] else lv
        ra = rv * span + float(x[0]) if op["rr"] else rv
        if not la < ra and not op.get("force"):
            raise Skip()      # empty / inverted range: not a valid request (exercised by the malformed stream)
        if not op.get("force"):
            # the reference is cut with the same arguments but its own samples / span: keep clear of its samples too
            rxs = np.asarray(w.reference_x, dtype=float)
            rspan = float(rxs[-1] - rxs[0]) if len(rxs) else 0.0
            for v, ratio, tok in ((lv, op["lr"], lt), (rv, op["rr"], rt)):
                if tok.startswith("@"):
                    continue
                t = v * rspan + float(rxs[0]) if ratio else v
                if len(rxs) and np.min(np.abs(rxs - t)) <= 1e-9 * max(abs(rspan), 1e-300):
                    raise Skip()
            lra = lv * rspan + float(rxs[0]) if op["lr"] else lv
            rra = rv * rspan + float(rxs[0]) if op["rr"] else rv
            if not lra < rra:
                raise Skip()
        line = f"wop truncv {lt} {rt} {1 if op['lr'] else 0} {1 if op['rr'] else 0}"
        op["_line"] = line
        op["_args"] = [lv, rv]
        # the bounds as floats, NumPy scalars or 0-d arrays (which a callee could write to)
        bl, br = S.real(lv, rep), S.real(rv, rep)
        w.truncate_by_value(bl, br, x_left_as_ratio=S.flag(op["lr"], rep), x_right_as_ratio=S.flag(op["rr"], rep))
        if float(bl) != lv or float(br) != rv:
            raise AssertionError("truncate_by_value wrote into the bound objects handed in by the caller")
        return line
    if k == "trunc_i":
        if "a" in op:
            a, b = op["a"], op["b"]
        else:
            n = len(x)
            if op.get("safe"):      # keep the reference non-trivial too (its length may differ after reshaping)
                n = max(2, min(n, len(w.reference_x)))
            a = int(Fraction(op["fa"]) * n)
            b = None if op["stop_none"] else max(a + 2, int(Fraction(op["fb"]) * n))
            if b is not None and b > n:
                b = n
        line = f"wop trunci {a} {'none' if b is None else b}"
        op["_line"] = line
        w.truncate_by_index(a, b)
        return line
    if k == "recreate":
        s, n = op["strategy"], op["n"]
        c = {"strategy": s, "n": n}
        for key in ("alpha", "beta", "exp", "smooth", "a", "supplier"):
            if key in op:
                c[key] = op[key]
        kw = R.kwargs_of({**c, "a": op.get("a")})
        cls = R.cls_of(s)
        if s in R.WINDOW and n >= 2:
            # read the windows the strategy will use from an identical object
            c2 = {**c, "x": [str(frac(v)) for v in w.x], "y": [str(frac(v)) for v in w.y], "int_x": False}
            io = R.run_impl(c2)
            line = (f"wop recreate {s} {op.get('exp', 1)} {n} {fmt_ints(io['aL'])} {fmt_ints(io['aR'])} "
                    f"{fmt_ints(io['bL'])} {fmt_ints(io['bR'])}") if "err" not in io else f"wop recreate {s} 1 {n} - - - -"
            op["_line"] = line
            w.recreate_from_average(n, rfa_class=cls, **kw)
            return line
        if s == "pc" or n < 2:
            line = f"wop recreate {s if s in R.WINDOW or s == 'pc' else 'pc'} 1 {math.floor(n)} - - - -"   # a fractional factor below 2 is below 2
            op["_line"] = line
            w.recreate_from_average(n, rfa_class=cls, **kw)
            return line
        op["_line"] = f"wop recreateext {n} -"
        w.recreate_from_average(n, rfa_class=cls, **kw)
        return f"wop recreateext {n} {fmt_list([frac(v) for v in np.asarray(w.y, dtype=float).ravel()])}"
    if k == "match":
        if op.get("fp_kind") == "sorted_repeat" and "fpi" not in op and len(x) >= 7:
            n_ = len(x)
            op["fpi"] = [0, 0, n_ - 1, n_ - 1]       # in increasing order, both fixed points named twice
        fpx = op.get("fpx")
        fpi = op.get("fpi")
        line = (f"wop match {op['alpha']} {fmt_opt(None if fpx is None else [Fraction(v) for v in fpx])} "
                f"{fmt_opt(fpi, fmt_ints)} {op['strategy']} {op['target']} {op['ref']}")
        op["_line"] = line
        kw = {}
        if "s" in op:
            kw["s"] = op["s"]
            op["_line"] = "wop smooth -"
        if fpx is not None:
            kw["fixed_points_in_x"] = [float(Fraction(v)) for v in fpx]
        if fpi is not None:
            kw["fixed_points_indices_in_x"] = list(fpi)
        with warnings.catch_warnings():
            _quiet()
            w.integral_match(target_function_integral_method=S.text(op["target"], rep),
                             reference_function_integral_method=S.text(op["ref"], rep),
                             alpha=op["alpha"], fixed_points_finding_strategy=S.text(op["strategy"], rep), **kw)
        if "s" in op:
            # matching followed by the spline through the matched values: for the model the values are external data
            return f"wop smooth {fmt_list([frac(v) for v in w.y])}"
        return line
    if k == "interp":
        m = op["method"]
        if "n" in op:
            op["_line"] = f"wop interpn {op['n']} {m} -"
            w.interpolate(n=op["n"], method=m)
            ext = "-" if m in ("linear", "constant") else fmt_list([frac(v) for v in w.y])
            return f"wop interpn {op['n']} {m} {ext}"
        n = len(x)
        toks, vals = [], []
        if op.get("ref_ends"):
            r0 = float(np.asarray(w.reference_x, dtype=float)[0])
            toks.append(fmt(Fraction(r0)))
            vals.append(r0)
        elif op.get("bad_ends") == "ulp":
            v0 = math.nextafter(float(x[0]), -math.inf)
            toks.append(fmt(Fraction(v0)))
            vals.append(v0)
        elif op.get("bad_ends"):
            toks.append(fmt(Fraction(float(x[0]) - 1.0)))
            vals.append(float(x[0]) - 1.0)
        else:
            toks.append("@0")
            vals.append(float(x[0]))
        pos = sorted({min(int(Fraction(t) * (n - 1)), n - 2) for t in op["grid"]}) if n >= 2 else []
        if op.get("same_len") and n >= 3:
            # exactly n points: the two ends and the mid-points of the first n - 2 gaps
            pos = []
            for i in range(n - 2):
                mid = (float(x[i]) + float(x[i + 1])) / 2
                toks.append(fmt(Fraction(mid)))
                vals.append(mid)
        for i in pos:
            if i >= 1 and (i % 2 == 0):
                toks.append(f"@{i}")
                vals.append(float(x[i]))
            mid = (float(x[i]) + float(x[i + 1])) / 2
            if float(x[i]) < mid < float(x[i + 1]):
                toks.append(fmt(Fraction(mid)))
                vals.append(mid)
        if op.get("ref_ends"):
            r1 = float(np.asarray(w.reference_x, dtype=float)[-1])
            toks.append(fmt(Fraction(r1)))
            vals.append(r1)
        else:
            toks.append("@-1")
            vals.append(float(x[-1]))
        gl = ",".join(toks)
        op["_line"] = f"wop interpx {gl} {m} -"
        g = list(vals) if op.get("as_list") else np.array(vals)
        if isinstance(g, np.ndarray):
            if not hasattr(w, "_verif_handed_in"):
                w._verif_handed_in = []
            w._verif_handed_in.append((g, g.copy()))
        w.interpolate(new_x=g, method=m, **op.get("kwargs", {}))
        ext = "-" if m in ("linear", "constant") else fmt_list([frac(v) for v in w.y])
        return f"wop interpx {gl} {m} {ext}"
    if k == "smooth":
        op["_line"] = "wop smooth -"
        with warnings.catch_warnings():
            _quiet()
            w.smooth(op["s"])
        return f"wop smooth {fmt_list([frac(v) for v in w.y])}"
    if k == "trend":
        cs = [Fraction(v) for v in op["coef"]]
        line = f"wop trend {fmt_list(cs)} {1 if op['normalized'] else 0}"
        op["_line"] = line

        def f(t):
            acc = 0.0
            for cc in reversed(cs):
                acc = float(cc) + t * acc
            return acc
        if op.get("view") and cs == [Fraction(0), Fraction(1)]:
            # the identity trend, written so that it hands back a view of its argument when given an array
            w.trend(lambda t: np.asarray(t).reshape(np.shape(t)), normalized=op["normalized"])
        else:
            w.trend(f, normalized=S.flag(op["normalized"], rep))
        return line
    if k == "noise":
        n = len(w.y)
        st = np.random.RandomState(op["seed"])
        draw = [Fraction(int(v), 8) for v in st.randint(-40, 41, size=n)]
        op["_line"] = f"wop noise {fmt_list(draw)}"
        _install_normal_dispatcher()
        _TL.draw = np.array(floats(draw))
        try:
            w.noise(op["snr"], snr_in_db=op["db"])
        finally:
            _TL.draw = None
        return op["_line"]
    if k == "restore":
        w.restore_original()
        return "wop restore"
    raise ValueError(k)


def run_query(w, q):
    """a read-only slice request: returns (model line, recorded step)"""
    if q["q"] == "slice_i":
        line = f"wslicei {q['start']} {'none' if q['stop'] is None else q['stop']} {q['step']}"
    else:
        xs = np.asarray(w.x, dtype=float)

        def tok(v):
            if v is None:
                return None, "none"
            if isinstance(v, str) and v in ("nan", "inf", "-inf"):
                # no sample equals a NaN / an infinity: for the model any value that is not a sample
                far = (Fraction(float(xs[-1])) if len(xs) else Fraction(0)) + 12345
                return float(v), fmt(far)
            if isinstance(v, str) and v.startswith("~"):
                # a value a few units in the last place beside sample i (a bound recomputed by another route): it is not
                # a sample; for the model any value that is not a sample
                i, k_ = (int(t) for t in v[1:].split(":"))
                if len(xs) == 0:
                    return 0.5, "1/2"
                val = float(xs[i % len(xs)])
                for _ in range(abs(k_)):
                    val = math.nextafter(val, math.inf if k_ > 0 else -math.inf)
                far = Fraction(float(xs[-1])) + 12345
                return val, fmt(far)
            if isinstance(v, str) and v.startswith("@"):
                i = int(v[1:])
                if len(xs) == 0:
                    return 0.0, "0"
                if not -len(xs) <= i < len(xs):
                    i = len(xs) - 1          # the series became shorter than the request assumed: its last sample
                return float(xs[i]), f"@{i}"
            return float(Fraction(v)), fmt(Fraction(v))
        a, ta = tok(q["start"])
        b, tb = tok(q["stop"])
        memo = getattr(w, "_verif_bounds", None)
        if memo is None:
            memo = {}
            try:
                w._verif_bounds = memo
            except Exception:  # noqa
                pass
        key = (str(q["start"]), str(q["stop"]))
        q.pop("_lit", None)
        if q.get("again") and key in memo:
            # the very same NUMBERS as in the earlier request (not the same positions)
            a, b = memo[key]
            ta = "none" if a is None else fmt(Fraction(a))
            tb = "none" if b is None else fmt(Fraction(b))
            q["_lit"] = [a, b]
        else:
            memo[key] = (a, b)
        line = f"wslicev {ta} {tb} {q['step']}"
    try:
        if q["q"] == "slice_i":
            r = w.slice_by_index(q["start"], q["stop"], q["step"])
        else:
            r = w.slice_by_value(a, b, q["step"])
        return line, {"query": [[float(v) for v in r[0]], [float(v) for v in r[1]]]}
    except Exception as e:  # noqa
        return line, {"query_err": err_kind(e)}


def run_program(c):
    """returns {'steps': [...], 'lines': [...]}; each step: {'ok'| 'err', 'state'}"""
    ctor, caller, line0 = build(c)
    lines = [line0]
    steps = []
    try:
        w = ctor()
    except Exception as e:  # noqa
        return {"steps": [{"err": err_kind(e)}], "lines": lines}
    steps.append({"ok": True, "state": snap(w, caller)})
    try:
        w._verif_caller = [a for a in caller if isinstance(a, np.ndarray)]
    except Exception:  # noqa
        pass
    executed = []
    # the warnings filter is process-wide: programs that turn warnings into errors never run next to other threads
    werr = bool(c.get("werror")) and c.get("hist") not in ("threads", "preempt") \
        and threading.current_thread() is threading.main_thread()
    wctx = warnings.catch_warnings()
    wctx.__enter__()
    try:
        _TL.werror = werr
        _TL.argrep = c.get("argrep", "plain")
        if werr:
            warnings.simplefilter("error")
        for op in c["ops"]:
            op.pop("_line", None)
            if op["op"] == "query":
                line, step = run_query(w, op["query"])
                executed.append(op)
                lines.append(line)
                steps.append(step)
                continue
            try:
                try:
                    if op["op"] == "clone":
                        import copy as _copy
                        import pickle as _pickle
                        handed = getattr(w, "_verif_handed_in", None)
                        w = {"pickle": lambda o: _pickle.loads(_pickle.dumps(o)), "deepcopy": _copy.deepcopy,
                             "copy": _copy.copy}[op["how"]](w)
                        if handed is not None:
                            w._verif_handed_in = handed
                        line = "wop shiftx 0"          # for the model: nothing happens
                    else:
                        line = apply_op(w, op)
                except Skip:
                    continue
                finally:
                    pass
                executed.append(op)
                st = {"ok": True, "state": snap(w, caller)}
                if op["op"] == "fail":
                    st["fail"] = op["kind"]
                    st["raised"] = op.get("_raised")
                    if op.get("_grid_modified"):
                        st["grid_modified"] = True
                steps.append(st)
                lines.append(line)
            except Warning as e:  # noqa: only with warnings treated as errors
                # a warning that surfaces as an exception is a refused request: nothing may have changed
                executed.append(op)
                steps.append({"ok": True, "state": snap(w, caller), "warned": type(e).__name__})
                lines.append("wop shiftx 0")
            except Exception as e:  # noqa
                executed.append(op)
                steps.append({"err": err_kind(e), "state": snap(w, caller)})
                lines.append(op.get("_line", "wop bad"))
                break
    finally:
        _TL.werror = False
        _TL.argrep = "plain"
        wctx.__exit__(None, None, None)
    c["ops"] = executed + [o for o in c["ops"] if o not in executed and False]
    for q in c.get("queries", []):
        line, step = run_query(w, q)
        lines.append(line)
        steps.append(step)
    return {"steps": steps, "lines": lines}


# ---------------------------------------------------------------------------------------------
# comparison with the model
# ---------------------------------------------------------------------------------------------

KEYS = ["x", "y", "rx", "ry", "ox", "oy"]


def accepted_invalid(io):
    """oracle shared by the session properties: a request that must be refused went through"""
    for i, st in enumerate(io.get("steps", [])):
        if st.get("fail") and st.get("raised") is None:
            return f"step {i}: the invalid request '{st['fail']}' was accepted instead of being refused"
        if st.get("grid_modified"):
            return f"step {i}: the grid handed to interpolate by the caller was written to"
    return None


def parse_state(fields):
    vals = [parse_rats(f) for f in fields]
    return dict(zip(KEYS + ["cx", "cy"], vals))


def compare_program(c, io, mo):
    steps = io["steps"]
    for i, (st, ans) in enumerate(zip(steps, mo)):
        what = "constructor" if i == 0 else (c["ops"][i - 1]["op"] if i - 1 < len(c["ops"]) else "query")
        if "query" in st or "query_err" in st:
            if "query_err" in st:
                if ans != f"ERR {st['query_err']}":
                    return f"step {i} ({what}): impl raised {st['query_err']}, model says {ans[:60]}"
                continue
            if not ans.startswith("ok "):
                return f"step {i} (query): impl returned a slice, model says {ans[:60]}"
            f = ans[3:].split(" ")
            # relative to the magnitude of the series the slice was taken from (a one-sample slice whose value is 0 in
            # exact arithmetic carries the rounding of its neighbours)
            cur = next((s_["state"] for s_ in reversed(steps[:i]) if "state" in s_), None)
            refx = [v for v in (cur["x"] if cur else []) if v is not None and math.isfinite(v)]
            refy = [v for v in (cur["y"] if cur else []) if v is not None and math.isfinite(v)]
            if not (vclose(st["query"][0], parse_rats(f[0]), ref=refx) and vclose(st["query"][1], parse_rats(f[1]), ref=refy)):
                return f"step {i} (query): slices differ: impl {st['query'][0][:5]} model {f[0][:40]}"
            continue
        if st.get("fail") and st.get("raised") is None:
            return f"step {i}: the invalid request '{st['fail']}' was accepted"
        if ans == "unmodelled":
            return None      # windows outside the closed-form model (float artefact of the adaptive split): stop here
        if "err" in st:
            if not ans.startswith(f"ERR {st['err']}"):
                if ans.startswith("ERR ZeroDivisionError"):
                    return None
                return f"step {i} ({what}): impl raised {st['err']}, model says {ans[:60]}"
            fields = ans.split(" ")[2:]
        else:
            if ans.startswith("ERR ZeroDivisionError"):
                return None    # undefined in the model (zero denominator): the implementation produced inf/nan
            if not ans.startswith("ok "):
                return f"step {i} ({what}): impl succeeded, model says {ans[:60]}"
            fields = ans.split(" ")[1:]
        if "state" not in st:
            continue
        ms = parse_state(fields)
        for k in KEYS:
            iv = st["state"][k]
            if iv is None:
                return f"step {i} ({what}): {k} is not numeric ({st['state']['types'][k]})"
            if len(iv) != len(ms[k]):
                return f"step {i} ({what}): len({k}) impl {len(iv)} model {len(ms[k])}"
            if not all(math.isfinite(v) for v in iv):
                return None   # non-finite values (constant data normalised, ...): outside the model
            if not vclose(iv, ms[k], 1e-8):
                if k == "y" and i >= 1 and c["ops"][i - 1]["op"] == "interp" and c["ops"][i - 1]["method"] == "constant" \
                        and i - 1 >= 0 and "state" in steps[i - 1]:
                    # piecewise-constant interpolation is discontinuous at the samples: a grid point within rounding
                    # distance of a sample may legitimately fall on either side (comparison rule 4)
                    old = steps[i - 1]["state"]["x"]
                    sc = max([abs(float(b)) for b in ms[k]] + [1e-300])
                    bad = [j for j, (a, b) in enumerate(zip(iv, ms[k])) if abs(a - float(b)) > 1e-8 * sc]
                    newx = st["state"]["x"]
                    if all(any(abs(newx[j] - o) <= 1e-9 * max(1.0, abs(o)) for o in old) for j in bad):
                        return None
                if k == "y" and i >= 1 and c["ops"][i - 1]["op"] == "match" and "state" in steps[i - 1]:
                    # the fixed-point search is discontinuous: a reference position within rounding distance of a sample
                    # (lower / higher) or of the mid-point between two samples (closest) may select either neighbour
                    px = steps[i - 1]["state"]["x"]
                    prx = steps[i - 1]["state"]["rx"]
                    strat = c["ops"][i - 1].get("strategy", "closest")
                    crit = list(px) if strat in ("lower", "higher") else [(a + b) / 2 for a, b in zip(px[:-1], px[1:])]
                    span = max(abs(px[-1] - px[0]), 1e-300)
                    if any(abs(t - q) <= 1e-9 * span for t in prx for q in crit):
                        return None
                d = [(j, a, float(b)) for j, (a, b) in enumerate(zip(iv, ms[k])) if abs(a - float(b)) > 1e-8 * max(1, abs(float(b)))]
                return f"step {i} ({what}): {k} differs, first {d[:3]}"
        # caller arrays are never modified
        cal = st["state"]["caller"]
        want = [ms["cx"], ms["cy"]]
        if c.get("from2d"):
            continue
        for j, cv in enumerate(cal):
            if cv is None:
                continue
            if not exact(cv, want[j]):
                return f"step {i} ({what}): the caller's array {j} was modified: {cv[:5]}"
    if len(mo) != len(steps):
        return f"model answered {len(mo)} lines for {len(steps)} steps"
    return None
