"""Translator T3: vectorised NumPy arithmetic (Python AST) -> lean/TWV/Generated/Vector.lean

Sources (working tree of /repo unless the text is handed in):
  sorted_array_utils.py   rectangle_integral, trapezoid_integral, integral (specialised per method)
  process.py              normalize
  match.py                _integral_matching_stretch, specialised to `x` given, `s is None` and one
                          `integral_method` (two Lean definitions: stretch_trapezoid / stretch_rectangle)

Target vocabulary: `TWV.Vec` (lean/TWV/Model/Vec.lean).  The tie `TWV/Tie/Vector.lean` proves the
generated definitions equal to the hand models (`integralAt`, `Process.normalize`, `stretch`).

Supported subset
  statements   docstring, `pass`, `name = expr`, `name: T = expr`, `name op= expr`, `return expr`,
               `if` whose test is decided by the specialisation (`p is None`, `p == 'lit'`,
               `p in [...]`, `not`, `and`, `or`): only the live branch is translated (a `raise` in a
               dead branch is fine, statements after a live `return` are dead);
               `if` on a length test (`len(v) <cmp> k`): both branches must be plain assignments, each
               assigned name becomes `let n := if c then a else b`
  expressions  names, numeric literals (floats as exact rationals through NatCast), + - * /, unary
               minus, `e ** alpha` (-> `pw e` / `Vec.pow pw e`), `e ** k` for small literal k,
               `np.diff`, `np.abs`, `abs`, `np.sum(v)`, `v.sum()`, `sum(v)`, `v.min()`, `v.max()`,
               `np.min`, `np.max`, `np.asarray/np.array/np.asanyarray(v, ...)` and `v.copy()` (identity),
               `np.array([c0, c1, ...])`, `np.ones(k)`, `np.ones_like(v)`, `np.zeros(k)`,
               `np.zeros_like(v)`, `np.add/subtract/multiply/divide`, `float(s)`, slices `[:-1]`,
               `[1:]`, `[1:-1]`, `[:]`, indices `[k]`, `[-k]`, `a if c else b`, calls of
               `rectangle_integral`, `trapezoid_integral`, `integral(x, y, method=<static>)`
  kinds        every sub-expression is a scalar (S) or a vector (V); the kinds of the parameters are
               declared per function in SPECS; the Lean operator is chosen from the kinds
               (`Vec.add`, `Vec.adds` vector∘scalar, `Vec.sadd` scalar∘vector, ...)
Anything else: that function is emitted as an alias of the hand model with a note
`UNSUPPORTED <fn>: <reason>`; its tie theorem then holds trivially and the tie for it is the
differential correspondence only.
"""
from __future__ import annotations

import ast
import sys
from fractions import Fraction
from pathlib import Path

from .core import LEAN, REPO

OUT = LEAN / "TWV" / "Generated" / "Vector.lean"
SRC_DIR = REPO / "src" / "traffic_weaver"
FILES = ("sorted_array_utils.py", "process.py", "match.py")
REQUIRED = False

S, V, C = "S", "V", "C"  # scalar, vector, compile-time constant (string / None)


class Unsupported(Exception):
    pass


class Dynamic(Exception):
    """a test that the specialisation does not decide"""


# ---------------------------------------------------------------------------------------------
# what is translated
# ---------------------------------------------------------------------------------------------

class Spec:
    def __init__(self, gen, file, py, params, binders, fallback, static=None):
        self.gen = gen              # Lean name: Gen.<gen>
        self.file = file
        self.py = py                # Python function
        self.params = params        # ordered: name -> 'V' | 'S' | 'EXP' | 'STATIC' | 'UNUSED'
        self.binders = binders      # Lean binders (fixed: the tie theorems rely on them)
        self.fallback = fallback    # hand model, used when the function cannot be translated
        self.static = static or {}  # values of the STATIC parameters in this specialisation


def _stretch_spec(rule):
    return Spec(
        f"stretch_{rule}", "match.py", "_integral_matching_stretch",
        {"x": V, "y": V, "integral_value": S, "integral_method": "STATIC", "dx": "UNUSED", "alpha": "EXP",
         "s": "STATIC"},
        "(pw : K → K) (x y : Vec K) (integral_value : K)",
        f"Vec.ofFn y.len (stretch .{rule} pw (x.len - 1) x.get y.get integral_value)",
        {"integral_method": rule, "s": None})


SPECS = [
    Spec("rectangle_integral", "sorted_array_utils.py", "rectangle_integral", {"x": V, "y": V},
         "(x y : Vec K)", "Vec.ofFn (x.len - 1) (integralAt .rectangle x.get y.get)"),
    Spec("trapezoid_integral", "sorted_array_utils.py", "trapezoid_integral", {"x": V, "y": V},
         "(x y : Vec K)", "Vec.ofFn (x.len - 1) (integralAt .trapezoid x.get y.get)"),
    Spec("integral_trapezoid", "sorted_array_utils.py", "integral", {"x": V, "y": V, "method": "STATIC"},
         "(x y : Vec K)", "Vec.ofFn (x.len - 1) (integralAt .trapezoid x.get y.get)", {"method": "trapezoid"}),
    Spec("integral_rectangle", "sorted_array_utils.py", "integral", {"x": V, "y": V, "method": "STATIC"},
         "(x y : Vec K)", "Vec.ofFn (x.len - 1) (integralAt .rectangle x.get y.get)", {"method": "rectangle"}),
    Spec("normalize", "process.py", "normalize", {"a": V, "min_val": S, "max_val": S},
         "(a : Vec K) (min_val max_val : K)", "Vec.ofFn a.len (Process.normalize a.get a.len min_val max_val)"),
    _stretch_spec("trapezoid"),
    _stretch_spec("rectangle"),
]

# functions of sorted_array_utils.py that translated code may call (-> generated definitions)
INTEGRAL_RULES = ("trapezoid", "rectangle")
CALLABLE = {"rectangle_integral": "rectangle_integral", "trapezoid_integral": "trapezoid_integral"}

LEAN_RESERVED = {
    "at", "from", "fun", "end", "do", "then", "else", "if", "let", "have", "show", "in", "with", "match", "by",
    "open", "def", "theorem", "where", "section", "namespace", "variable", "instance", "structure", "class",
    "import", "export", "private", "protected", "mutual", "universe", "deriving", "extends", "for", "return",
    "using", "calc", "Type", "Prop", "Sort", "forall", "exists", "this", "nomatch", "nofun", "macro", "syntax",
    "infix", "infixl", "infixr", "notation", "prefix", "postfix", "set_option", "attribute", "local", "scoped",
    "partial", "noncomputable", "abbrev", "inductive", "example", "opaque", "try", "catch", "finally", "unless",
    "mut", "break", "continue", "suffices", "obtain", "true", "false",
}
CLASHING = {"pw", "K", "Vec", "Gen", "TWV"}


def lit(v):
    """numeric literal as an exact rational of `K` (same convention as T1)"""
    if isinstance(v, bool):
        raise Unsupported("bool literal")
    f = Fraction(v) if not isinstance(v, float) else Fraction(repr(v))
    if f < 0:
        return f"(-{lit(-f)})"
    if f.denominator == 1:
        if f.numerator == 0:
            return "(0 : K)"
        if f.numerator == 1:
            return "(1 : K)"
        return f"(({f.numerator} : Nat) : K)"
    return f"((({f.numerator} : Nat) : K) / (({f.denominator} : Nat) : K))"


def ident(name):
    if name in CLASHING:
        raise Unsupported(f"variable name `{name}` clashes with the generated vocabulary")
    if not name.isidentifier() or not name.isascii():
        raise Unsupported(f"variable name `{name}`")
    return f"«{name}»" if name in LEAN_RESERVED else name


def int_const(e):
    """value of an integer literal (also `-k`), else None"""
    if isinstance(e, ast.Constant) and isinstance(e.value, int) and not isinstance(e.value, bool):
        return e.value
    if isinstance(e, ast.UnaryOp) and isinstance(e.op, ast.USub):
        k = int_const(e.operand)
        return None if k is None else -k
    if isinstance(e, ast.UnaryOp) and isinstance(e.op, ast.UAdd):
        return int_const(e.operand)
    return None


class Val:
    def __init__(self, kind, code=None, value=None):
        self.kind = kind    # S | V | C | 'EXP' | 'UNUSED'
        self.code = code    # Lean term (S, V)
        self.value = value  # Python constant (C)


VV = {ast.Add: "add", ast.Sub: "sub", ast.Mult: "mul", ast.Div: "div"}
SYM = {ast.Add: "+", ast.Sub: "-", ast.Mult: "*", ast.Div: "/"}
NP_BIN = {"add": ast.Add, "subtract": ast.Sub, "multiply": ast.Mult, "divide": ast.Div, "true_divide": ast.Div}
NP = ("np", "numpy")


class FnTranslator:
    def __init__(self, spec: Spec, fn: ast.FunctionDef, known_callees):
        self.spec = spec
        self.fn = fn
        self.known_callees = known_callees  # names this module may call from sorted_array_utils
        self.env = {}
        self.lines = []
        self.ret = None

    # -- diagnostics ---------------------------------------------------------------------------
    def where(self, node):
        return f"{self.spec.file}:{getattr(node, 'lineno', '?')}"

    def bad(self, what, node):
        return Unsupported(f"{what} at {self.where(node)}")

    # -- specialisation: tests decided at translation time ----------------------------------------
    def const_of(self, e):
        """Python constant denoted by `e` under the specialisation, else Dynamic"""
        if isinstance(e, ast.Constant) and (e.value is None or isinstance(e.value, str)):
            return e.value
        if isinstance(e, ast.Name) and e.id in self.env and self.env[e.id].kind == C:
            return self.env[e.id].value
        raise Dynamic()

    def static(self, e):
        if isinstance(e, ast.Constant) and isinstance(e.value, bool):
            return e.value
        if isinstance(e, ast.UnaryOp) and isinstance(e.op, ast.Not):
            return not self.static(e.operand)
        if isinstance(e, ast.BoolOp):
            vals = [self.static(v) for v in e.values]
            return all(vals) if isinstance(e.op, ast.And) else any(vals)
        if isinstance(e, ast.Compare) and len(e.ops) == 1:
            op, left, right = e.ops[0], e.left, e.comparators[0]
            if isinstance(op, (ast.Is, ast.IsNot)):
                if not (isinstance(right, ast.Constant) and right.value is None):
                    raise Dynamic()
                if isinstance(left, ast.Name) and left.id in self.env and self.env[left.id].kind in (S, V):
                    is_none = False  # an array / a number handed in is not None
                else:
                    is_none = self.const_of(left) is None
                return is_none if isinstance(op, ast.Is) else not is_none
            if isinstance(op, (ast.Eq, ast.NotEq)):
                r = self.const_of(left) == self.const_of(right)
                return r if isinstance(op, ast.Eq) else not r
            if isinstance(op, (ast.In, ast.NotIn)):
                if not isinstance(right, (ast.List, ast.Tuple, ast.Set)):
                    raise Dynamic()
                r = self.const_of(left) in [self.const_of(x) for x in right.elts]
                return r if isinstance(op, ast.In) else not r
        raise Dynamic()

    # -- length tests -> decidable Lean propositions ------------------------------------------------
    def nat(self, e):
        k = int_const(e)
        if k is not None:
            if k < 0:
                raise self.bad("negative length", e)
            return str(k)
        if isinstance(e, ast.Call) and isinstance(e.func, ast.Name) and e.func.id == "len" and len(e.args) == 1 \
                and not e.keywords:
            v = self.ex(e.args[0])
            if v.kind != V:
                raise self.bad("len of a scalar", e)
            return f"{v.code}.len"
        if isinstance(e, ast.Attribute) and e.attr == "size":
            v = self.ex(e.value)
            if v.kind != V:
                raise self.bad("size of a scalar", e)
            return f"{v.code}.len"
        raise self.bad("length expression", e)

    def cond(self, e):
        if isinstance(e, ast.UnaryOp) and isinstance(e.op, ast.Not):
            return f"(¬ {self.cond(e.operand)})"
        if isinstance(e, ast.BoolOp):
            op = " ∧ " if isinstance(e.op, ast.And) else " ∨ "
            return "(" + op.join(self.cond(v) for v in e.values) + ")"
        if isinstance(e, ast.Compare) and len(e.ops) == 1:
            ops = {ast.Eq: "=", ast.NotEq: "≠", ast.Lt: "<", ast.LtE: "≤", ast.Gt: ">", ast.GtE: "≥"}
            if type(e.ops[0]) in ops:
                return f"({self.nat(e.left)} {ops[type(e.ops[0])]} {self.nat(e.comparators[0])})"
        raise self.bad("test", e)

    # -- expressions -----------------------------------------------------------------------------
    def binop(self, op, a: Val, b: Val, node):
        if a.kind not in (S, V) or b.kind not in (S, V):
            raise self.bad("arithmetic on a non-numeric value", node)
        if a.kind == S and b.kind == S:
            return Val(S, f"({a.code} {SYM[op]} {b.code})")
        name = VV[op]
        if a.kind == V and b.kind == V:
            return Val(V, f"(Vec.{name} {a.code} {b.code})")
        if a.kind == V:
            return Val(V, f"(Vec.{name}s {a.code} {b.code})")
        return Val(V, f"(Vec.s{name} {a.code} {b.code})")

    def power(self, e):
        base = self.ex(e.left)
        if base.kind not in (S, V):
            raise self.bad("power of a non-numeric value", e)
        r = e.right
        if isinstance(r, ast.Name) and r.id in self.env and self.env[r.id].kind == "EXP":
            return Val(base.kind, f"(pw {base.code})" if base.kind == S else f"(Vec.pow pw {base.code})")
        k = int_const(r)
        if k is None and isinstance(r, ast.Constant) and isinstance(r.value, float) and r.value == int(r.value):
            k = int(r.value)
        if k is not None and 1 <= k <= 8:
            out = base
            for _ in range(k - 1):
                out = self.binop(ast.Mult, out, base, e)
            return out
        if k == 0 and base.kind == S:
            return Val(S, "(1 : K)")
        raise self.bad("power", e)

    def subscript(self, e):
        v = self.ex(e.value)
        if v.kind != V:
            raise self.bad("subscript of a scalar", e)
        sl = e.slice
        if isinstance(sl, ast.Slice):
            if sl.step is not None:
                raise self.bad("slice step", e)
            lo = 0 if sl.lower is None else int_const(sl.lower)
            hi = 0 if sl.upper is None else int_const(sl.upper)
            code = v.code
            if lo is None or hi is None or lo < 0 or hi > 0 or lo > 4 or hi < -4:
                raise self.bad("slice", e)
            for _ in range(lo):
                code = f"(Vec.tail {code})"
            for _ in range(-hi):
                code = f"(Vec.init {code})"
            return Val(V, code)
        k = int_const(sl)
        if k is None:
            raise self.bad("index", e)
        if k == 0:
            return Val(S, f"(Vec.first {v.code})")
        if k == -1:
            return Val(S, f"(Vec.last {v.code})")
        if k > 0:
            return Val(S, f"({v.code}.get {k})")
        return Val(S, f"({v.code}.get ({v.code}.len - {-k}))")

    def vec_arg(self, call, n=1, allowed_kw=()):
        for kw in call.keywords:
            if kw.arg not in allowed_kw:
                raise self.bad(f"keyword argument `{kw.arg}`", call)
        if len(call.args) != n:
            raise self.bad("argument count", call)
        return [self.ex(a) for a in call.args]

    def reduction(self, name, v: Val, node):
        if v.kind != V:
            raise self.bad(f"{name} of a scalar", node)
        return Val(S, f"(Vec.{name} {v.code})")

    def length_arg(self, e):
        return self.nat(e)

    def np_call(self, attr, e):
        if attr == "diff":
            (v,) = self.vec_arg(e)
            if v.kind != V:
                raise self.bad("diff of a scalar", e)
            return Val(V, f"(Vec.diff {v.code})")
        if attr in ("abs", "absolute", "fabs"):
            (v,) = self.vec_arg(e)
            return self.absolute(v, e)
        if attr in ("sum", "min", "max", "amin", "amax"):
            (v,) = self.vec_arg(e)
            return self.reduction({"amin": "min", "amax": "max"}.get(attr, attr), v, e)
        if attr in ("asarray", "array", "asanyarray", "asfarray", "ascontiguousarray", "copy"):
            if len(e.args) != 1:
                raise self.bad("argument count", e)
            for kw in e.keywords:
                if kw.arg not in ("dtype", "copy", "order"):
                    raise self.bad(f"keyword argument `{kw.arg}`", e)
            a = e.args[0]
            if isinstance(a, (ast.List, ast.Tuple)):
                if not a.elts:
                    raise self.bad("empty array literal", e)
                elts = [self.ex(x) for x in a.elts]
                if any(x.kind != S for x in elts):
                    raise self.bad("array literal of non-scalars", e)
                return Val(V, "(Vec.ofList [" + ", ".join(x.code for x in elts) + "])")
            v = self.ex(a)
            if v.kind != V:
                raise self.bad("array of a scalar", e)
            return v
        if attr in ("ones", "zeros"):
            if len(e.args) != 1 or any(kw.arg != "dtype" for kw in e.keywords):
                raise self.bad("arguments", e)
            return Val(V, f"(Vec.const {self.length_arg(e.args[0])} ({'1' if attr == 'ones' else '0'} : K))")
        if attr in ("ones_like", "zeros_like"):
            if len(e.args) != 1 or any(kw.arg != "dtype" for kw in e.keywords):
                raise self.bad("arguments", e)
            v = self.ex(e.args[0])
            if v.kind != V:
                raise self.bad(f"{attr} of a scalar", e)
            return Val(V, f"(Vec.const {v.code}.len ({'1' if attr == 'ones_like' else '0'} : K))")
        if attr == "negative":
            (v,) = self.vec_arg(e)
            return self.negate(v, e)
        if attr in NP_BIN:
            a, b = self.vec_arg(e, 2)
            return self.binop(NP_BIN[attr], a, b, e)
        raise self.bad(f"call of np.{attr}", e)

    def absolute(self, v: Val, node):
        if v.kind == S:
            return Val(S, f"(absK {v.code})")
        if v.kind == V:
            return Val(V, f"(Vec.abs {v.code})")
        raise self.bad("abs of a non-numeric value", node)

    def negate(self, v: Val, node):
        if v.kind == S:
            return Val(S, f"(-{v.code})")
        if v.kind == V:
            return Val(V, f"(Vec.neg {v.code})")
        raise self.bad("negation of a non-numeric value", node)

    def integral_call(self, e):
        """`integral(x, y, method=<static>)` -> Gen.integral_<method> x y"""
        names = ["x", "y", "method"]
        given = dict(zip(names, e.args))
        if len(e.args) > 3:
            raise self.bad("argument count", e)
        for kw in e.keywords:
            if kw.arg not in names or kw.arg in given:
                raise self.bad(f"keyword argument `{kw.arg}`", e)
            given[kw.arg] = kw.value
        if "x" not in given or "y" not in given:
            raise self.bad("argument count", e)
        x, y = self.ex(given["x"]), self.ex(given["y"])
        if x.kind != V or y.kind != V:
            raise self.bad("integral of scalars", e)
        try:
            method = self.const_of(given["method"]) if "method" in given else "trapezoid"
        except Dynamic:
            raise self.bad("integral method is not fixed by the specialisation", e)
        if method not in INTEGRAL_RULES:
            raise self.bad(f"integral method {method!r}", e)
        return Val(V, f"(Gen.integral_{method} {x.code} {y.code})")

    def call(self, e):
        f = e.func
        if isinstance(f, ast.Attribute) and isinstance(f.value, ast.Name) and f.value.id in NP \
                and f.value.id not in self.env:
            return self.np_call(f.attr, e)
        if isinstance(f, ast.Attribute):
            if f.attr in ("sum", "min", "max") and not e.args and not e.keywords:
                return self.reduction(f.attr, self.ex(f.value), e)
            if f.attr == "copy" and not e.args and not e.keywords:
                v = self.ex(f.value)
                if v.kind != V:
                    raise self.bad("copy of a scalar", e)
                return v
            raise self.bad(f"method .{f.attr}()", e)
        if isinstance(f, ast.Name) and f.id not in self.env:
            if f.id == "abs":
                (v,) = self.vec_arg(e)
                return self.absolute(v, e)
            if f.id in ("sum", "min", "max") and len(e.args) == 1:
                (v,) = self.vec_arg(e)
                return self.reduction(f.id, v, e)
            if f.id == "float":
                (v,) = self.vec_arg(e)
                if v.kind != S:
                    raise self.bad("float of a vector", e)
                return v
            if f.id in self.known_callees:
                if f.id == "integral":
                    return self.integral_call(e)
                if f.id in CALLABLE:
                    a, b = self.vec_arg(e, 2)
                    if a.kind != V or b.kind != V:
                        raise self.bad(f"{f.id} of scalars", e)
                    return Val(V, f"(Gen.{CALLABLE[f.id]} {a.code} {b.code})")
            raise self.bad(f"call of {f.id}", e)
        raise self.bad("call", e)

    def ex(self, e) -> Val:
        if isinstance(e, ast.Constant):
            if isinstance(e.value, (int, float)) and not isinstance(e.value, bool):
                return Val(S, lit(e.value))
            if e.value is None or isinstance(e.value, str):
                return Val(C, value=e.value)
            raise self.bad("literal", e)
        if isinstance(e, ast.Name):
            if e.id not in self.env:
                raise self.bad(f"unknown name `{e.id}`", e)
            v = self.env[e.id]
            if v.kind == "EXP":
                raise self.bad(f"`{e.id}` used outside an exponent", e)
            if v.kind == "UNUSED":
                raise self.bad(f"parameter `{e.id}` is used (it is not in the specialised case)", e)
            return v
        if isinstance(e, ast.UnaryOp) and isinstance(e.op, ast.USub):
            k = e.operand
            if isinstance(k, ast.Constant) and isinstance(k.value, (int, float)) and not isinstance(k.value, bool):
                return Val(S, lit(-k.value) if k.value != 0 else lit(0))
            return self.negate(self.ex(e.operand), e)
        if isinstance(e, ast.UnaryOp) and isinstance(e.op, ast.UAdd):
            v = self.ex(e.operand)
            if v.kind not in (S, V):
                raise self.bad("unary plus", e)
            return v
        if isinstance(e, ast.BinOp):
            if isinstance(e.op, ast.Pow):
                return self.power(e)
            if type(e.op) not in VV:
                raise self.bad(f"operator {type(e.op).__name__}", e)
            return self.binop(type(e.op), self.ex(e.left), self.ex(e.right), e)
        if isinstance(e, ast.Subscript):
            return self.subscript(e)
        if isinstance(e, ast.Call):
            return self.call(e)
        if isinstance(e, ast.IfExp):
            try:
                return self.ex(e.body if self.static(e.test) else e.orelse)
            except Dynamic:
                pass
            c, a, b = self.cond(e.test), self.ex(e.body), self.ex(e.orelse)
            if a.kind != b.kind or a.kind not in (S, V):
                raise self.bad("branches of different kinds", e)
            return Val(a.kind, f"(if {c} then {a.code} else {b.code})")
        raise self.bad(f"expression {type(e).__name__}", e)

    # -- statements ------------------------------------------------------------------------------
    def assign_parts(self, st):
        """(name, value expression) of a plain assignment, else None"""
        if isinstance(st, ast.Assign) and len(st.targets) == 1 and isinstance(st.targets[0], ast.Name):
            return st.targets[0].id, st.value
        if isinstance(st, ast.AnnAssign) and isinstance(st.target, ast.Name) and st.value is not None:
            return st.target.id, st.value
        if isinstance(st, ast.AugAssign) and isinstance(st.target, ast.Name) and type(st.op) in VV or \
                isinstance(st, ast.AugAssign) and isinstance(st.target, ast.Name) and isinstance(st.op, ast.Pow):
            load = ast.copy_location(ast.Name(id=st.target.id, ctx=ast.Load()), st)
            return st.target.id, ast.copy_location(ast.BinOp(left=load, op=st.op, right=st.value), st)
        return None

    def bind(self, name, v: Val, node):
        if name in self.env and self.env[name].kind in ("EXP", "UNUSED"):
            raise self.bad(f"assignment to parameter `{name}`", node)
        if v.kind == C:
            self.env[name] = v
            return
        self.lines.append(f"  let {ident(name)} := {v.code}")
        self.env[name] = Val(v.kind, ident(name))

    def branch(self, stmts):
        """a branch of a length test: plain assignments only; returns name -> Val (inlined terms)"""
        saved = dict(self.env)
        out = {}
        try:
            for st in stmts:
                if isinstance(st, ast.Pass):
                    continue
                parts = self.assign_parts(st)
                if parts is None:
                    raise self.bad(f"statement {type(st).__name__} inside a length test", st)
                name, value = parts
                v = self.ex(value)
                if v.kind not in (S, V):
                    raise self.bad("non-numeric assignment inside a length test", st)
                if name in self.env and self.env[name].kind in ("EXP", "UNUSED"):
                    raise self.bad(f"assignment to parameter `{name}`", st)
                ident(name)
                out[name] = v
                self.env[name] = v
        finally:
            self.env = saved
        return out

    def block(self, stmts):
        """translate a statement list; True when a live `return` was reached"""
        for st in stmts:
            if isinstance(st, ast.Expr) and isinstance(st.value, ast.Constant) and isinstance(st.value.value, str):
                continue
            if isinstance(st, ast.Pass):
                continue
            parts = self.assign_parts(st)
            if parts is not None:
                self.bind(parts[0], self.ex(parts[1]), st)
                continue
            if isinstance(st, ast.Return) and st.value is not None:
                self.ret = self.ex(st.value)
                return True
            if isinstance(st, ast.If):
                try:
                    live = st.body if self.static(st.test) else st.orelse
                except Dynamic:
                    live = None
                if live is not None:
                    if self.block(live):
                        return True
                    continue
                c = self.cond(st.test)
                a, b = self.branch(st.body), self.branch(st.orelse)
                for name in list(a) + [n for n in b if n not in a]:
                    va = a.get(name) or self.env.get(name)
                    vb = b.get(name) or self.env.get(name)
                    if va is None or vb is None or va.kind not in (S, V) or vb.kind not in (S, V):
                        raise self.bad(f"`{name}` is not assigned on every path", st)
                    if va.kind != vb.kind:
                        raise self.bad(f"`{name}` is a scalar on one path and a vector on the other", st)
                    self.bind(name, Val(va.kind, f"if {c} then {va.code} else {vb.code}"), st)
                continue
            raise self.bad(f"statement {type(st).__name__}", st)
        return False

    def translate(self):
        a = self.fn.args
        if a.vararg or a.kwarg or a.kwonlyargs or a.posonlyargs:
            raise Unsupported(f"signature of {self.spec.py} at {self.where(self.fn)}")
        names = [p.arg for p in a.args]
        if names != list(self.spec.params):
            raise Unsupported(f"parameter list of {self.spec.py} changed at {self.where(self.fn)}")
        for name, kind in self.spec.params.items():
            if kind == "STATIC":
                self.env[name] = Val(C, value=self.spec.static[name])
            elif kind in (S, V):
                self.env[name] = Val(kind, ident(name))
            else:
                self.env[name] = Val(kind)
        if not self.block(self.fn.body) or self.ret is None:
            raise Unsupported(f"no return reached in {self.spec.py}")
        if self.ret.kind != V:
            raise Unsupported(f"{self.spec.py} does not return a vector")
        head = f"def Gen.{self.spec.gen} {self.spec.binders} : Vec K :="
        return "\n".join([head] + self.lines + [f"  {self.ret.code}"])


# ---------------------------------------------------------------------------------------------
# driver
# ---------------------------------------------------------------------------------------------

HEADER = [
    "import TWV.Model.Vec", "import TWV.Model.Arrays", "import TWV.Model.Process", "import TWV.Model.Match", "",
    "/-! GENERATED by harness/t3_vector.py from src/traffic_weaver/{sorted_array_utils,process,match}.py"
    " — do not edit. -/", "",
    "set_option linter.unusedVariables false", "",
    "namespace TWV", "",
    "variable {K : Type} [Add K] [Sub K] [Mul K] [Div K] [Neg K] [Zero K] [One K] [NatCast K]",
    "  [LT K] [LE K] [DecidableLT K] [DecidableLE K] [DecidableEq K]", "",
]


def read_sources(src_dir=None):
    d = Path(src_dir) if src_dir is not None else SRC_DIR
    out = {}
    for f in FILES:
        try:
            out[f] = (d / f).read_text()
        except OSError:
            out[f] = None
    return out


def callees_of(file, tree):
    """functions of sorted_array_utils.py that code of `file` can call by bare name"""
    wanted = set(CALLABLE) | {"integral"}
    if file == "sorted_array_utils.py":
        return {n.name for n in tree.body if isinstance(n, ast.FunctionDef)} & wanted
    out = set()
    for n in tree.body:
        if isinstance(n, ast.ImportFrom) and n.module is not None and n.module.split(".")[-1] == "sorted_array_utils":
            out |= {a.name for a in n.names if a.asname in (None, a.name)}
    return out & wanted


def generate(sources=None):
    """sources: {file name: text}; files not given are read from /repo's working tree"""
    texts = read_sources()
    if sources:
        texts.update(sources)
    trees, broken = {}, {}
    for f, text in texts.items():
        if text is None:
            broken[f] = "source file is missing"
            continue
        try:
            trees[f] = ast.parse(text)
        except SyntaxError as e:
            broken[f] = f"syntax error at {f}:{e.lineno}"
    out = list(HEADER)
    notes = []
    for spec in SPECS:
        reason = None
        if spec.file in broken:
            reason = broken[spec.file]
        else:
            tree = trees[spec.file]
            fns = [n for n in tree.body if isinstance(n, ast.FunctionDef) and n.name == spec.py]
            if len(fns) != 1:
                reason = f"{spec.py} is not defined exactly once in {spec.file}"
            else:
                try:
                    out.append(FnTranslator(spec, fns[0], callees_of(spec.file, tree)).translate())
                except Unsupported as e:
                    reason = str(e)
                except RecursionError:
                    reason = "expression too deep"
        if reason is not None:
            notes.append(f"UNSUPPORTED {spec.gen}: {reason}")
            out.append(f"/- T3 cannot translate `{spec.gen}` ({reason}); the tie falls back to the correspondence. -/\n"
                       f"def Gen.{spec.gen} {spec.binders} : Vec K :=\n  {spec.fallback}")
        out.append("")
    out += ["end TWV", ""]
    return "\n".join(out), notes


def regenerate(sources=None, out=None):
    text, notes = generate(sources)
    out = Path(out) if out is not None else OUT
    out.parent.mkdir(parents=True, exist_ok=True)
    changed = (not out.exists()) or out.read_text() != text
    if changed:
        out.write_text(text)
    note = "; ".join(notes) if notes else f"all {len(SPECS)} vector definitions translated"
    return f"{note} ({'rewritten' if changed else 'unchanged'})"


def main(argv):
    """python -m harness.t3_vector [--src-dir DIR] [--stdout]   (DIR holds the three source files)"""
    src_dir, to_stdout = None, False
    it = iter(argv)
    for a in it:
        if a == "--src-dir":
            src_dir = next(it)
        elif a == "--stdout":
            to_stdout = True
        else:
            print(main.__doc__)
            return 2
    sources = None
    if src_dir is not None:
        sources = {f: t for f, t in read_sources(src_dir).items() if t is not None}
    if to_stdout:
        text, notes = generate(sources)
        print(text)
        for n in notes:
            print("--", n)
    else:
        print(regenerate(sources))
    return 0


if __name__ == "__main__":
    sys.exit(main(sys.argv[1:]))
