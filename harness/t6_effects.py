"""Translator T6: the order of effects inside the methods of `class Weaver`
(/repo/src/traffic_weaver/weaver.py, Python AST) -> lean/TWV/Generated/WeaverEffects.lean

Source: `weaver.py` (working tree of /repo unless the text is handed in).  For EVERY method of `class Weaver`
(`__init__`, the static constructors and the read-only methods included) the translator emits the list of
*effect events* in program order, `generated : List (String × List Effect)` (methods in source order).  The
hand-written table of the pinned text is `TWV.WeaverEffects.expected` (`TWV/Model/WeaverEffects.lean`, where
`Effect` and the predicates `validatesFirst`, `noEffectBetweenAssigns`, `noAssignInAssert`,
`computesBeforeAssigning` live); the tie `TWV/Tie/WeaverEffects.lean` proves `generated = expected` by
`decide`, and the per-method theorems about the order.  So ANY change of the sequence of events of any method
(an assignment moved before a computation, a `warnings.warn` between two assignments, a state update hidden in
an `assert`, validation after assigning, a dropped or exchanged assignment, an added early `return`, a new
method) breaks the build, and a rewrite that keeps the sequence (locals renamed, comments, docstrings, a tuple
assignment split in the same order, `elif` for `else: if`) does not.

Events (program order = evaluation order: the right-hand side before the targets, arguments before the call)
  assign a        `self.a = …`, `self.a op= …`, `self.a: T = …`, `self.a[…] = …` (an in-place store into a field);
                  tuple / list / starred / chained targets give one event per attribute, in target order.
                  `self` is the first parameter of the method (`cls` of a classmethod).  A store through
                  another name is recorded as well: `other.a = …` -> `assign "other.a"`, `v[…] = …` ->
                  `assign "v[]"`.  An in-place NumPy method of a field (`self.x.sort()`, `.fill`, `.resize`,
                  `.put`, `.partition`, `.itemset`, `.setfield`) is `call self.x.sort` followed by `assign x`.
  call f          every call that is not a pure built-in (PURE below), the exception constructor of a `raise`
                  or a `warn`.  `f` is the callee as a dotted name with import aliases resolved against the
                  module's (and the method's own) `import` / `from … import` statements: a function imported
                  from `.process` is `process.<original name>` (likewise `match.`, `sorted_array_utils.`,
                  `rfa.`, `interval.`), `np.asarray` is `numpy.asarray`; a method of the object is
                  `self.<method>`, a method of a field `self.<field>.<method>`; a parameter / local / unknown
                  global keeps its name (`rfa_class`, `Weaver`); the call of a call result is `<f>()`
                  (`spline_smooth(…)(self.x)` -> `process.spline_smooth`, `process.spline_smooth()`), of a
                  subscript `<f>[]`, of anything else `<expr>`.  A name that is a parameter or is assigned in
                  the method shadows an import.
  raise E b       `raise E(…)` / `raise E` (`E` dotted, `""` for a bare `raise`); b: the statement is nested
                  in an `if` (either branch).  Calls in the constructor's arguments are events, the
                  constructor is not.
  warn            a call whose resolved name ends in `warn` / `warn_explicit` (`warnings.warn`, `warn`).
  assert b        `assert e[, msg]`; b: `e` / `msg` contain a call that is not a pure built-in.  Calls inside
                  an assert are NOT separate events (they do not happen under `python -O`).
  ret             `return`.
  mark s          branch structure, flattened: `if t: A else: B` -> events of `t`, mark "if", A, mark "else", B,
                  mark "end" (no "else" without an else branch; `elif` is an `if` inside the `else`);
                  `for` / `while` -> mark "for" / "while", body, [mark "else", …], mark "end"; `with` -> mark
                  "with", body, mark "end"; `try` -> mark "try", body, mark "except" + handler (each), mark
                  "else" …, mark "finally" …, mark "end"; `break`, `continue`; a decorator of the method ->
                  mark "@<dotted name>" (first events of the method).
  unsupported s   see below.

Supported subset
  module          docstring, `import` / `from … import` (no `*`), plain `name = …` assignments, other functions
                  and classes (not read: a call of them is `call <name>`), exactly one `class Weaver` without
                  bases (`object` allowed), keywords or decorators.  Anything else at module level (e.g.
                  `Weaver.interpolate = …`, a bare call) is reported.
  class body      docstring, `pass`, `def`s.  Anything else (class attributes, `__slots__`, nested classes,
                  `async def`) is reported.
  statements      expression statements, `=`, `op=`, annotated `=`, `return`, `raise`, `assert`, `if`, `for`,
                  `while`, `with`, `try`, `pass`, `break`, `continue`, `import` inside a method.
  expressions     everything; a `lambda` body is not entered (it does not run there), comprehensions are
                  (generators before the element).  The operands of `and` / `or` / `… if … else …` are
                  flattened in source order without marks.
NOT supported (each gives the event `unsupported "<what>"` in place, a table entry `<module>` / `<class>` for
things outside methods, and the note `UNSUPPORTED …`; the tie then fails, because `expected` has no such
event): nested `def` / `class` / `async def`, `yield` / `await`, `del`, `global` / `nonlocal`, `match`,
`async for` / `async with`, `from … import *`, class-level statements, module-level statements other than
the ones above.
NOT seen at all (limits of a syntactic reading): aliasing (`a = self.x; a += 1` is `assign "a[]"` only if
written as a subscript store), `setattr(self, …)` / `self.__dict__[…]` (they are `call setattr` / `assign
__dict__`, i.e. they change the table but are not recognised as the assignment they perform), operators that
can raise (`self.x * scale`), effects inside the callees.
"""
from __future__ import annotations

import ast
import sys
from pathlib import Path

from .core import LEAN, REPO

OUT = LEAN / "TWV" / "Generated" / "WeaverEffects.lean"
SRC = REPO / "src" / "traffic_weaver" / "weaver.py"
SRCNAME = "weaver.py"
CLASS = "Weaver"
PACKAGE = "traffic_weaver"
REQUIRED = False

# built-ins that compute without touching the object and are not worth an event
PURE = frozenset("""len isinstance issubclass int float bool str bytes complex range type tuple list dict set
frozenset min max abs repr id hasattr getattr callable enumerate zip sorted reversed sum any all round slice
iter next divmod pow hash format ord chr""".split())
# NumPy methods that change the array they are called on
INPLACE = frozenset("sort fill resize put partition itemset setfield byteswap".split())
WARN = ("warn", "warn_explicit")
WIDTH = 108


class Ev:
    """one event, rendered as a Lean term of type `Effect`"""

    def __init__(self, kind, *args):
        self.kind, self.args = kind, args

    def lean(self):
        parts = [f".{self.kind}"]
        for a in self.args:
            parts.append(("true" if a else "false") if isinstance(a, bool) else lean_str(a))
        return " ".join(parts)

    def short(self):
        k, a = self.kind, self.args
        if k == "raise":
            return f"raise {a[0]}{'?' if a[1] else '!'}"
        if k == "assert":
            return "assert(call)" if a[0] else "assert"
        if k == "mark":
            return {"if": "[", "else": "|", "end": "]"}.get(a[0], f"<{a[0]}>")
        return k if not a else f"{k} {a[0]}"


def lean_str(s):
    out = []
    for ch in str(s):
        if ch == "\\":
            out.append("\\\\")
        elif ch == '"':
            out.append('\\"')
        elif 32 <= ord(ch) < 127:
            out.append(ch)
        else:
            out.append("?")
    return '"' + "".join(out) + '"'


def is_docstring(st):
    return isinstance(st, ast.Expr) and isinstance(st.value, ast.Constant) and isinstance(st.value.value, str)


def import_aliases(stmts, aliases, problems):
    """`import` / `from … import` statements among `stmts` -> local name : dotted original name"""
    for st in stmts:
        if isinstance(st, ast.Import):
            add_import(st, aliases, problems)
        elif isinstance(st, ast.ImportFrom):
            add_import(st, aliases, problems)


def add_import(st, aliases, problems):
    if isinstance(st, ast.Import):
        for a in st.names:
            if a.asname:
                aliases[a.asname] = a.name
            else:
                top = a.name.split(".")[0]
                aliases[top] = top
        return
    mod = st.module or ""
    if mod == PACKAGE:
        mod = ""
    elif mod.startswith(PACKAGE + "."):
        mod = mod[len(PACKAGE) + 1:]
    for a in st.names:
        if a.name == "*":
            problems.append(f"from {'.' * st.level}{st.module or ''} import * (line {st.lineno})")
            continue
        aliases[a.asname or a.name] = f"{mod}.{a.name}" if mod else a.name


class Method:
    """the events of one `def` of the class"""

    def __init__(self, fn, aliases, problems):
        self.fn, self.problems = fn, problems
        self.aliases = dict(aliases)
        self.events = []
        self.if_depth = 0
        deco = [self.plain_dotted(d.func if isinstance(d, ast.Call) else d) + ("()" if isinstance(d, ast.Call) else "")
                for d in fn.decorator_list]
        a = fn.args
        params = [p.arg for p in a.posonlyargs + a.args]
        self.recv = None if "staticmethod" in deco or not params else params[0]
        self.locals = {p.arg for p in a.posonlyargs + a.args + a.kwonlyargs}
        for p in (a.vararg, a.kwarg):
            if p is not None:
                self.locals.add(p.arg)
        for n in ast.walk(fn):
            if isinstance(n, ast.Name) and isinstance(n.ctx, (ast.Store, ast.Del)):
                self.locals.add(n.id)
        for d in deco:
            self.emit("mark", "@" + d)
        body = fn.body[1:] if fn.body and is_docstring(fn.body[0]) else fn.body
        self.block(body)

    # -- helpers ---------------------------------------------------------------------------------
    def emit(self, kind, *args):
        self.events.append(Ev(kind, *args))

    def unsupported(self, what, node):
        self.emit("unsupported", what)
        self.problems.append(f"{self.fn.name}: {what} ({SRCNAME}:{getattr(node, 'lineno', '?')})")

    def plain_dotted(self, e):
        if isinstance(e, ast.Name):
            return e.id
        if isinstance(e, ast.Attribute):
            return self.plain_dotted(e.value) + "." + e.attr
        return "<expr>"

    def dotted(self, e):
        """the callee / base expression as a dotted name, imports resolved, `self` for the receiver"""
        if isinstance(e, ast.Name):
            if e.id == self.recv:
                return "self"
            if e.id in self.locals:
                return e.id
            return self.aliases.get(e.id, e.id)
        if isinstance(e, ast.Attribute):
            return self.dotted(e.value) + "." + e.attr
        if isinstance(e, ast.Call):
            return self.dotted(e.func) + "()"
        if isinstance(e, ast.Subscript):
            return self.dotted(e.value) + "[]"
        if isinstance(e, ast.Lambda):
            return "<lambda>"
        return "<expr>"

    def is_pure(self, call):
        f = call.func
        return isinstance(f, ast.Name) and f.id in PURE and f.id not in self.locals and f.id not in self.aliases

    def is_warn(self, call):
        return self.dotted(call.func).split(".")[-1] in WARN

    def has_call(self, e):
        if e is None:
            return False
        return any(isinstance(n, (ast.Await, ast.Yield, ast.YieldFrom))
                   or (isinstance(n, ast.Call) and not self.is_pure(n)) for n in ast.walk(e))

    def field_of(self, e):
        """`self.a`, `self.a[…]`, `self.a.b` … -> "a" (the field of the object that is reached), else None"""
        while isinstance(e, (ast.Attribute, ast.Subscript)):
            if isinstance(e, ast.Attribute) and isinstance(e.value, ast.Name) and e.value.id == self.recv \
                    and self.recv is not None:
                return e.attr
            e = e.value
        return None

    # -- expressions -----------------------------------------------------------------------------
    def expr(self, e):
        if e is None:
            return
        if isinstance(e, ast.Lambda):
            for d in e.args.defaults + [k for k in e.args.kw_defaults if k is not None]:
                self.expr(d)
            return
        if isinstance(e, (ast.Await, ast.Yield, ast.YieldFrom)):
            self.expr(getattr(e, "value", None))
            self.unsupported(type(e).__name__.lower(), e)
            return
        if isinstance(e, (ast.ListComp, ast.SetComp, ast.GeneratorExp, ast.DictComp)):
            for g in e.generators:
                self.expr(g.iter)
                for c in g.ifs:
                    self.expr(c)
            if isinstance(e, ast.DictComp):
                self.expr(e.key)
                self.expr(e.value)
            else:
                self.expr(e.elt)
            return
        if isinstance(e, ast.Call):
            self.expr(e.func)
            for a in e.args:
                self.expr(a)
            for k in e.keywords:
                self.expr(k.value)
            if self.is_pure(e):
                return
            if self.is_warn(e):
                self.emit("warn")
                return
            self.emit("call", self.dotted(e.func))
            f = e.func
            if isinstance(f, ast.Attribute) and f.attr in INPLACE and self.field_of(f.value) is not None:
                self.emit("assign", self.field_of(f.value))
            return
        for c in ast.iter_child_nodes(e):
            if isinstance(c, ast.expr):
                self.expr(c)
            elif isinstance(c, ast.comprehension):        # not reached (handled above)
                self.expr(c.iter)
            elif isinstance(c, ast.keyword):
                self.expr(c.value)

    def target_loads(self, t):
        """the sub-expressions a target evaluates before the store"""
        if isinstance(t, (ast.Tuple, ast.List)):
            for x in t.elts:
                self.target_loads(x)
        elif isinstance(t, ast.Starred):
            self.target_loads(t.value)
        elif isinstance(t, ast.Attribute):
            self.expr(t.value)
        elif isinstance(t, ast.Subscript):
            self.expr(t.value)
            self.expr(t.slice)

    def store(self, t):
        if isinstance(t, (ast.Tuple, ast.List)):
            for x in t.elts:
                self.store(x)
        elif isinstance(t, ast.Starred):
            self.store(t.value)
        elif isinstance(t, ast.Attribute):
            if isinstance(t.value, ast.Name) and t.value.id == self.recv and self.recv is not None:
                self.emit("assign", t.attr)
            elif self.field_of(t) is not None:
                self.emit("assign", self.field_of(t))          # self.a.b = …: the field `a` changes
            else:
                self.emit("assign", self.dotted(t))
        elif isinstance(t, ast.Subscript):
            f = self.field_of(t)
            self.emit("assign", f if f is not None else self.dotted(t))
        # a plain name: a local, no event

    # -- statements ------------------------------------------------------------------------------
    def block(self, stmts):
        for st in stmts:
            self.stmt(st)

    def stmt(self, st):
        if isinstance(st, ast.Expr):
            if not isinstance(st.value, ast.Constant):
                self.expr(st.value)
        elif isinstance(st, ast.Assign):
            self.expr(st.value)
            for t in st.targets:
                self.target_loads(t)
                self.store(t)
        elif isinstance(st, ast.AnnAssign):
            if st.value is not None:
                self.expr(st.value)
                self.target_loads(st.target)
                self.store(st.target)
        elif isinstance(st, ast.AugAssign):
            self.target_loads(st.target)
            self.expr(st.value)
            self.store(st.target)
        elif isinstance(st, ast.Return):
            self.expr(st.value)
            self.emit("ret")
        elif isinstance(st, ast.Raise):
            exc = st.exc
            if exc is None:
                name = ""
            elif isinstance(exc, ast.Call):
                self.expr(exc.func)
                for a in exc.args:
                    self.expr(a)
                for k in exc.keywords:
                    self.expr(k.value)
                name = self.dotted(exc.func)
            else:
                self.expr(exc)
                name = self.dotted(exc)
            self.expr(st.cause)
            self.emit("raise", name, self.if_depth > 0)
        elif isinstance(st, ast.Assert):
            self.emit("assert", self.has_call(st.test) or self.has_call(st.msg))
        elif isinstance(st, ast.If):
            self.expr(st.test)
            self.emit("mark", "if")
            self.if_depth += 1
            self.block(st.body)
            if st.orelse:
                self.emit("mark", "else")
                self.block(st.orelse)
            self.if_depth -= 1
            self.emit("mark", "end")
        elif isinstance(st, (ast.For, ast.While)):
            if isinstance(st, ast.For):
                self.expr(st.iter)
                self.emit("mark", "for")
                self.target_loads(st.target)
                self.store(st.target)
            else:
                self.emit("mark", "while")
                self.expr(st.test)
            self.block(st.body)
            if st.orelse:
                self.emit("mark", "else")
                self.block(st.orelse)
            self.emit("mark", "end")
        elif isinstance(st, ast.With):
            for it in st.items:
                self.expr(it.context_expr)
                if it.optional_vars is not None:
                    self.target_loads(it.optional_vars)
                    self.store(it.optional_vars)
            self.emit("mark", "with")
            self.block(st.body)
            self.emit("mark", "end")
        elif isinstance(st, ast.Try) or type(st).__name__ == "TryStar":
            self.emit("mark", "try")
            self.block(st.body)
            for h in st.handlers:
                self.emit("mark", "except")
                self.block(h.body)
            if st.orelse:
                self.emit("mark", "else")
                self.block(st.orelse)
            if st.finalbody:
                self.emit("mark", "finally")
                self.block(st.finalbody)
            self.emit("mark", "end")
        elif isinstance(st, ast.Pass):
            pass
        elif isinstance(st, ast.Break):
            self.emit("mark", "break")
        elif isinstance(st, ast.Continue):
            self.emit("mark", "continue")
        elif isinstance(st, (ast.Import, ast.ImportFrom)):
            add_import(st, self.aliases, self.problems)
            for a in st.names:
                self.locals.discard(a.asname or a.name.split(".")[0])
        elif isinstance(st, (ast.FunctionDef, ast.AsyncFunctionDef, ast.ClassDef)):
            self.unsupported(f"nested {'class' if isinstance(st, ast.ClassDef) else 'def'} {st.name}", st)
        elif isinstance(st, ast.Delete):
            self.unsupported("del", st)
        elif isinstance(st, (ast.Global, ast.Nonlocal)):
            self.unsupported(type(st).__name__.lower() + " " + ", ".join(st.names), st)
        else:
            self.unsupported(type(st).__name__, st)


def translate(text):
    """-> (table [(name, [Ev])], problems [str])"""
    problems = []
    try:
        tree = ast.parse(text)
    except SyntaxError as e:
        return [("<module>", [Ev("unsupported", "syntax error")])], [f"syntax error ({SRCNAME}:{e.lineno})"]
    aliases = {}
    classes = []
    outside = []
    for i, st in enumerate(tree.body):
        if i == 0 and is_docstring(st):
            continue
        if isinstance(st, (ast.Import, ast.ImportFrom)):
            add_import(st, aliases, problems)
        elif isinstance(st, ast.ClassDef) and st.name == CLASS:
            classes.append(st)
        elif isinstance(st, (ast.FunctionDef, ast.AsyncFunctionDef, ast.ClassDef)):
            pass
        elif isinstance(st, (ast.Assign, ast.AnnAssign)) and all(
                isinstance(t, ast.Name) for t in (st.targets if isinstance(st, ast.Assign) else [st.target])):
            pass
        else:
            outside.append(f"module-level {type(st).__name__}")
            problems.append(f"module-level {type(st).__name__} ({SRCNAME}:{st.lineno})")
    table = []
    if outside:
        table.append(("<module>", [Ev("unsupported", w) for w in outside]))
    if len(classes) != 1:
        problems.append(f"{len(classes)} definitions of class {CLASS}")
        table.append(("<class>", [Ev("unsupported", f"{len(classes)} definitions of class {CLASS}")]))
    for cls in classes:
        odd = []
        bases = [b for b in cls.bases if not (isinstance(b, ast.Name) and b.id == "object")]
        if bases or cls.keywords:
            odd.append("base classes / keywords")
        if cls.decorator_list:
            odd.append("class decorator")
        for i, st in enumerate(cls.body):
            if (i == 0 and is_docstring(st)) or isinstance(st, (ast.Pass, ast.FunctionDef)):
                continue
            odd.append(f"class-level {type(st).__name__}")
        for w in odd:
            problems.append(f"class {CLASS}: {w}")
        if odd:
            table.append(("<class>", [Ev("unsupported", w) for w in odd]))
        for st in cls.body:
            if isinstance(st, ast.FunctionDef):
                table.append((st.name, Method(st, aliases, problems).events))
    return table, problems


def wrap(items, indent):
    lines, cur = [], ""
    for it in items:
        piece = it + ", "
        if cur and len(indent) + len(cur) + len(piece) > WIDTH:
            lines.append(indent + cur.rstrip())
            cur = ""
        cur += piece
    if cur:
        lines.append(indent + cur.rstrip())
    if lines:
        lines[-1] = lines[-1].rstrip(",")
    return lines


HEADER = """import TWV.Model.WeaverEffects

/-! GENERATED by harness/t6_effects.py from src/traffic_weaver/weaver.py — do not edit.

The effect events (`assign`, `call`, `raise`, `warn`, `assert`, `ret`, structure `mark`s) of every method of
`class Weaver`, in program order, methods in source order.  `TWV/Tie/WeaverEffects.lean` proves this table
equal to the hand-written `TWV.WeaverEffects.expected` and states the order properties of every method. -/

namespace TWV
namespace Generated.WeaverEffects

open TWV.WeaverEffects (Effect)
"""


def render(table):
    out = [HEADER, "def generated : List (String × List Effect) := ["]
    for i, (name, evs) in enumerate(table):
        last = i == len(table) - 1
        if not evs:
            out.append(f"  ({lean_str(name)}, []){'' if last else ','}")
            continue
        one = f"  ({lean_str(name)}, [" + ", ".join(e.lean() for e in evs) + "])" + ("" if last else ",")
        if len(one) <= WIDTH:
            out.append(one)
            continue
        out.append(f"  ({lean_str(name)}, [")
        lines = wrap([e.lean() for e in evs], "    ")
        lines[-1] += "])" + ("" if last else ",")
        out.extend(lines)
    out.append("]")
    out.append("")
    out.append("end Generated.WeaverEffects")
    out.append("end TWV")
    return "\n".join(out) + "\n"


def generate(text=None):
    """-> (Lean text, problems)"""
    if text is None:
        text = SRC.read_text()
    table, problems = translate(text)
    return render(table), problems, table


def short_table(text=None):
    """method -> events, one line per method (for reports)"""
    if text is None:
        text = SRC.read_text()
    table, _ = translate(text)
    return "\n".join(f"{name}: " + " ".join(e.short() for e in evs) for name, evs in table)


def regenerate(text=None, out=None):
    lean, problems, table = generate(text)
    out = Path(out) if out is not None else OUT
    out.parent.mkdir(parents=True, exist_ok=True)
    changed = (not out.exists()) or out.read_text() != lean
    if changed:
        out.write_text(lean)
    n_ev = sum(len(evs) for _, evs in table)
    if problems:
        note = "UNSUPPORTED " + "; ".join(problems) + f"; {len(table)} table entries, {n_ev} events"
    else:
        note = f"{len(table)} methods of class {CLASS}, {n_ev} effect events"
    return f"{note} ({'rewritten' if changed else 'unchanged'})"


def main(argv):
    """python -m harness.t6_effects [--src FILE] [--stdout | --short]   (FILE: a text of weaver.py)"""
    src, mode = None, "write"
    it = iter(argv)
    for a in it:
        if a == "--src":
            src = Path(next(it)).read_text()
        elif a == "--stdout":
            mode = "stdout"
        elif a == "--short":
            mode = "short"
        else:
            print(main.__doc__)
            return 2
    if mode == "stdout":
        lean, problems, _ = generate(src)
        print(lean)
        for p in problems:
            print("-- UNSUPPORTED", p)
    elif mode == "short":
        print(short_table(src))
    else:
        print(regenerate(src))
    return 0


if __name__ == "__main__":
    sys.exit(main(sys.argv[1:]))
