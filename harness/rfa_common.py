"""Shared generator / implementation runner / model requests for the recreate-from-average
strategies (C04-C07, C02)."""
from __future__ import annotations

import math
from fractions import Fraction

import numpy as np

from . import shapes as S

from .core import fmt, fmt_list, fmt_ints, parse_rats, parse_ints, frac, err_kind, close, exact, pw_field, floats

WINDOW = ["linfixed", "linadaptive", "expfixed", "expadaptive"]
ALL = ["pc", "cubic", "function"] + WINDOW


def cls_of(name):
    from traffic_weaver import rfa
    return {"pc": rfa.PiecewiseConstantRFA, "cubic": rfa.CubicSplineRFA, "function": rfa.FunctionRFA,
            "linfixed": rfa.LinearFixedRFA, "linadaptive": rfa.LinearAdaptiveRFA,
            "expfixed": rfa.ExpFixedRFA, "expadaptive": rfa.ExpAdaptiveRFA}[name]


def poly_supplier(x, y, coeffs=(1.0, 0.5, 0.25)):
    """a user-supplied sampling function: a fixed polynomial through nothing in particular"""
    c0, c1, c2 = coeffs
    return lambda t: c0 + c1 * t + c2 * t * t


class _MeanLevel:
    """a callable sampling function object that is FALSY (its __len__ is 0, like a numpy.poly1d of order 0)"""

    def __init__(self, level):
        self.level = level

    def __len__(self):
        return 0

    def __call__(self, t):
        return self.level + 0.0 * np.asarray(t, dtype=float)


def falsy_supplier(x, y):
    return _MeanLevel(float(np.mean(y)))


def const_supplier(x, y):
    """a sampling function that ignores where it is asked (the mean level as a plain Python float): called point by point
    it fills the series, called once on a whole array it would return one number"""
    level = float(np.mean(y))
    return lambda t: level


def poly1d_supplier(x, y):
    return np.poly1d(np.polyfit(x, y, 0))


_OVERRIDE = {}


def override_classes():
    """user strategies that supply their sampling function by overriding the documented hook: directly, and inherited
    from a class in between (module-level names, so that copies and pickles of the objects work)"""
    from traffic_weaver import rfa as _rfa
    if _OVERRIDE.get("base") is not _rfa.FunctionRFA:
        class TwvPolyRFA(_rfa.FunctionRFA):
            def _get_sampling_function(self):
                return poly_supplier(self.x, self.y)

        class TwvPolyMemberRFA(TwvPolyRFA):
            pass
        TwvPolyRFA.__qualname__, TwvPolyMemberRFA.__qualname__ = "TwvPolyRFA", "TwvPolyMemberRFA"
        globals()["TwvPolyRFA"], globals()["TwvPolyMemberRFA"] = TwvPolyRFA, TwvPolyMemberRFA
        _OVERRIDE.update(base=_rfa.FunctionRFA, classes=(TwvPolyRFA, TwvPolyMemberRFA))
    return _OVERRIDE["classes"]


def gen_series(rng, m, ties=True, integer=False):
    x = rng.increasing(m, jitter=(not integer and rng.random() < 0.2))
    if integer:
        x = [Fraction(int(v * 4)) for v in x]
        x = sorted(set(x))
        while len(x) < m:
            x.append(x[-1] + rng.randint(1, 5))
    if ties and rng.random() < 0.6:
        alphabet = [Fraction(k, 2) for k in rng.sample(range(-8, 9), 4)]
        y = [rng.choice(alphabet) for _ in range(m)]
    else:
        y = rng.values(m)
    if rng.random() < 0.05:
        y = [y[0]] * m
    r = rng.random()
    if r < 0.12:
        # near-ties: neighbouring averages that differ by a tiny but non-zero amount next to real jumps
        # (a tolerance-based equality test would take them for equal)
        base = Fraction(rng.randint(2, 40))
        tiny = [Fraction(0), Fraction(1, 2 ** 30), Fraction(1, 2 ** 29), Fraction(3, 2 ** 31), Fraction(0)]
        y = [(base + rng.choice(tiny)) if rng.random() < 0.6 else rng.dyadic() for _ in range(m)]
    elif r < 0.18:
        # tiny magnitudes / large offsets (exactly representable)
        if rng.random() < 0.5:
            y = [Fraction(int(v * 8), 8 * 2 ** 40) for v in y]
        else:
            y = [Fraction(2 ** 20) + Fraction(int(v * 8), 8) for v in y]
    elif r < 0.26 and m >= 4:
        # a profile that nearly closes on itself: the last average misses the first by a tiny, non-zero amount
        # (made periodic, then re-computed); it is still its own reading
        y = list(y)
        y[-1] = y[0] + rng.choice([1, -1]) * rng.choice([Fraction(1, 2 ** 20), Fraction(1, 2 ** 14), Fraction(3, 2 ** 16)])
    return x, y


def gen_case(rng, strategies=ALL, max_m=20, max_n=24, integer_ok=True):
    s = rng.choice(strategies)
    m = rng.randint(2, max_m)
    if s == "cubic":
        m = max(m, 2)
    n = rng.randint(2, max_n)
    if rng.random() < 0.08:
        n = rng.randint(40, 64)          # the upper end of the documented range of oversampling factors
        m = min(m, 6)
    integer = integer_ok and rng.random() < 0.2
    x, y = gen_series(rng, m, integer=integer)
    c = {"strategy": s, "n": n, "x": [str(v) for v in x], "y": [str(v) for v in y], "int_x": integer,
         # how the user's sampling function reaches the strategy: the supplier argument, or the documented alternative -
         # overriding _get_sampling_function() - in the class used, in a class between it and FunctionRFA, on the instance
         "supplier": rng.choice(["poly", "poly", "falsy", "poly1d0", "const", "override", "override2", "instance"]),
         "objhist": rng.choice(["same", "same", "same", "scribble", "refill", "reenter", "sibling", "clone"]),
         "call": rng.choice(["keyword", "keyword", "positional"]), "argrep": S.pick_argrep(rng, 0.7)}
    if not integer and rng.random() < 0.12:
        # abscissae held in single / half precision (a compact recording): every value of the case is exactly such a
        # float, so the numbers are the same and the oversampled grid is still defined in double precision
        import numpy as _np
        for dt in rng.sample(["float32", "float16"], 2):
            if all(Fraction(float(_np.dtype(dt).type(float(v)))) == v for v in x):
                c["x_fdtype"] = dt
                break
    if s in WINDOW:
        if rng.random() < 0.6:
            c["alpha"] = str(Fraction(rng.randint(1, 16), 16))
            c["a"] = None
        else:
            c["alpha"] = None
            c["a"] = rng.randint(0, n)
            c["afloat"] = rng.random() < 0.3      # a sample count held in a float (np.ceil(...), 1.0)
        if s.startswith("exp"):
            c["beta"] = str(Fraction(rng.randint(0, 8), 8))
            c["exp"] = rng.choice([1, 2, 2, 3, 0.5, 1.5, 4, 0.25, 0.05, 2, 3, 5, 7, 12, 16])     # ints stay Python ints
            if n >= 40 and rng.random() < 0.7:
                # wide windows with a steep integer exponent (sample counts to the power of the exponent leave int64)
                c["alpha"], c["a"] = "1", None
                c["beta"] = str(Fraction(rng.randint(0, 4), 8))
                c["exp"] = rng.choice([12, 16, 16, 20])
        if s.endswith("adaptive"):
            c["smooth"] = rng.choice([1, 1, 1, 2, 3, 0.5])
    return c


def series(c):
    return [Fraction(v) for v in c["x"]], [Fraction(v) for v in c["y"]]


def kwargs_of(c):
    kw = {}
    if c["strategy"] in WINDOW:
        if c.get("a") is not None:
            kw["a"] = float(c["a"]) if c.get("afloat") else c["a"]
        if c.get("alpha") is not None:
            kw["alpha"] = float(Fraction(c["alpha"]))
        if "beta" in c:
            kw["beta"] = float(Fraction(c["beta"]))
        if "exp" in c:
            kw["exp"] = c["exp"]
        if "smooth" in c:
            kw["adaptive_smooth"] = c["smooth"]
    if c["strategy"] == "function" and c.get("supplier") not in ("override", "override2", "instance"):
        kw["sampling_function_supplier"] = {"falsy": falsy_supplier, "poly1d0": poly1d_supplier, "const": const_supplier}.get(c.get("supplier"), poly_supplier)
    return kw


def np_x(c):
    x, _ = series(c)
    if c.get("int_x"):
        return S.arr([int(v) for v in x])
    return S.arr(floats(x), dtype=c.get("x_fdtype"))


# the documented constructor signatures of the pinned version (positional order after x, y, n)
POSITIONAL = {"linfixed": ("alpha", "a"), "linadaptive": ("alpha", "a", "adaptive_smooth"),
              "expfixed": ("alpha", "beta", "a", "exp"), "expadaptive": ("alpha", "beta", "a", "adaptive_smooth", "exp")}
DEFAULTS = {"alpha": 1.0, "beta": 0.5, "a": None, "adaptive_smooth": 1.0, "exp": 2.0}


def construct(c, xb, yb):
    """build the strategy object the way the case says: keyword arguments (default) or the documented positional
    order; the oversampling factor as int or as a NumPy integer (the narrowest type only where the pinned code copes)"""
    s = c["strategy"]
    rep = c.get("argrep", "plain")
    n = S.count(c["n"], {"0d": "alt"}.get(rep, rep), narrow=s in ("pc", "cubic")) if c["n"] >= 2 else c["n"]
    kw = kwargs_of(c)
    if s == "function" and c.get("supplier") in ("override", "override2", "instance"):
        from traffic_weaver import rfa as _rfa
        _Base, _Member = override_classes()
        if c["supplier"] == "instance":
            try:
                obj = _rfa.FunctionRFA(xb, yb, n)
            except ValueError:
                if not c["n"] >= 2:
                    raise            # an oversampling factor below 2 is refused at construction, as for every strategy
                raise RuntimeError("FunctionRFA without a supplier refused at construction (the hook can no longer be set on the object)")
            obj._get_sampling_function = lambda: poly_supplier(obj.x, obj.y)
            return obj
        return (_Base if c["supplier"] == "override" else _Member)(xb, yb, n)
    if c.get("call") == "positional" and s in POSITIONAL:
        names = POSITIONAL[s]
        last = max([i for i, k in enumerate(names) if k in kw], default=-1)
        args = [kw.get(k, DEFAULTS[k]) for k in names[:last + 1]]
        return cls_of(s)(xb, yb, n, *args)
    return cls_of(s)(xb, yb, n, **kw)


def run_impl(c):
    """returns {'xs','ys','type_x','type_y','ndim','a','a_l','b','aL','aR','bL','bR'} or {'err'}"""
    x, y = series(c)
    n = c["n"]
    s = c["strategy"]
    oh = c.get("objhist", "same")
    try:
        xb, yb = np_x(c), S.arr(floats(y))
        # the strategy object keeps float64 arrays by reference: a buffer that is refilled in place between two
        # evaluations of ONE object must give the recreation of what the buffer holds at that moment
        refill = (oh == "refill" and xb.dtype == np.float64 and yb.dtype == np.float64
                  and xb.flags.writeable and yb.flags.writeable)
        if refill:
            xreal, yreal = xb.copy(), yb.copy()
            xb[...] = S.interior_decoy(xreal)
            yb[...] = S.interior_decoy(yreal)
        obj = construct(c, xb, yb)
        if oh == "sibling":
            # a user strategy that overrides the documented oversampling hooks (straight lines between the readings instead
            # of plateaus) ran on the same series just before: stock strategies are not affected by it
            try:
                from traffic_weaver import rfa as _rfa
                from traffic_weaver.sorted_array_utils import oversample_linspace as _osl

                class _LinesRFA(_rfa.PiecewiseConstantRFA):
                    def _initial_y_oversample(self):
                        return _osl(self.y, self.n)

                class _ShiftedRFA(_rfa.PiecewiseConstantRFA):
                    def _initial_x_oversample(self):
                        return _osl(self.x, self.n) + 0.5
                _LinesRFA(xb.copy(), yb.copy(), n).rfa()
                _ShiftedRFA(xb.copy(), yb.copy(), n).rfa()
            except Exception:  # noqa
                pass
        if oh == "sibling" and s in WINDOW:
            # another object of the same class with other parameters is built in between (a parameter sweep)
            try:
                cls_of(s)(xb.copy(), yb.copy(), n + 3, alpha=1.0)
                cls_of(s)(xb.copy(), yb.copy(), max(2, n - 1), a=2)
            except Exception:  # noqa
                pass
        if oh == "clone":
            # the strategy object is duplicated (copy / deepcopy / pickle round trip) and the duplicate is evaluated
            import copy
            import pickle
            ways = [copy.copy, copy.deepcopy] + ([lambda o: pickle.loads(pickle.dumps(o))] if s in WINDOW or s == "pc" else [])
            obj = ways[(len(x) + n) % len(ways)](obj)
        if refill:
            try:
                obj.rfa()
            except Exception:  # noqa
                pass
            xb[...] = xreal
            yb[...] = yreal
        xs, ys = obj.rfa()
        kx, ky = np.array(xs, dtype=float, copy=True), np.array(ys, dtype=float, copy=True)
        if oh == "scribble":
            # the caller post-processes the returned arrays in place (they are the caller's now)
            for r, d in ((xs, 1.0), (ys, 10.0)):
                if isinstance(r, np.ndarray) and r.flags.writeable and r.dtype.kind == "f" \
                        and not (np.shares_memory(r, xb) or np.shares_memory(r, yb)):
                    r += d
        # a result must not depend on earlier calls: ask the same object again
        xs2, ys2 = obj.rfa()
        same = (len(xs2) == len(kx) and len(ys2) == len(ky) and np.array_equal(np.asarray(xs2, dtype=float), kx)
                and np.array_equal(np.asarray(ys2, dtype=float), ky, equal_nan=True))
        if oh == "reenter" and same:
            # ... nor on a call that is made by another thread on the SAME object while this one is under way
            # (one preemption at a chosen line, see harness/preempt.py)
            from . import preempt
            firsts = []
            _, nl = preempt.count_lines(obj.rfa, firsts)
            inner = {}

            def other():
                inner["r"] = obj.rfa()
            for p in preempt.positions(nl, 10, f"{s}-{n}-{len(x)}", firsts):
                inner.clear()
                try:
                    (xs3, ys3), fired = preempt.run_preempted(obj.rfa, other, p)
                    rs = [(xs3, ys3)] + ([inner["r"]] if "r" in inner else [])
                    ok = "r" in inner or not fired
                except Exception:  # noqa
                    rs, ok = [], False
                for (u, v) in rs:
                    ok = ok and (len(u) == len(kx) and len(v) == len(ky) and np.array_equal(np.asarray(u, dtype=float), kx)
                                 and np.array_equal(np.asarray(v, dtype=float), ky, equal_nan=True))
                if not ok:
                    same = False
                    break
        xs, ys = kx if isinstance(xs, np.ndarray) else xs, ky if isinstance(ys, np.ndarray) else ys
    except Exception as e:  # noqa
        return {"err": err_kind(e)}
    out = {"type_x": type(xs).__name__, "type_y": type(ys).__name__,
           "ndim_x": int(np.ndim(xs)), "ndim_y": int(np.ndim(ys)),
           "xs": [float(v) for v in np.asarray(xs, dtype=float).ravel()],
           "ys": [float(v) for v in np.asarray(ys, dtype=float).ravel()],
           "len_x": len(xs), "len_y": len(ys), "second_call_same": bool(same)}
    m = len(x)
    if s in WINDOW:
        out["a"] = int(obj.a)
        if s.endswith("fixed"):
            out["a_l"] = int(obj.a_l)
            out["aL"] = [int(obj.a_l)] * (m + 1)
            out["aR"] = [int(obj.a_r)] * (m + 1)
            b = int(obj.b) if s == "expfixed" else 0
            out["b"] = b
            out["bL"] = [b] * (m + 1)
            out["bR"] = [b] * (m + 1)
        else:
            from traffic_weaver.interval import IntervalArray
            from traffic_weaver.rfa import LinearAdaptiveRFA
            xo, yo = obj._initial_oversample()
            xi, yi = IntervalArray(xo, n), IntervalArray(yo, n)
            xi.extend_linspace(direction='both')
            yi.extend_constant(direction='both')
            a_ls, a_rs, _ = LinearAdaptiveRFA.get_adaptive_transition_points(xi, yi, obj.a, obj.adaptive_smooth)
            out["aL"] = [int(v) for v in a_ls]
            out["aR"] = [int(v) for v in a_rs]
            if s == "expadaptive":
                out["bL"] = [int(obj.beta * v) for v in a_ls]
                out["bR"] = [int(obj.beta * v) for v in a_rs]
            else:
                out["bL"] = [0] * (m + 1)
                out["bR"] = [0] * (m + 1)
    return out


def ext_averages(y, m):
    """extended averages Y_0..Y_m"""
    return [y[0]] + list(y) + [y[-1]] if False else [y[min(max(k - 1, 0), m - 1)] for k in range(m + 2)]


def gammas(c):
    _, y = series(c)
    m = len(y)
    Y = ext_averages(y, m)
    out = []
    for k in range(1, m):
        nom = abs(Y[k + 1] - Y[k])
        den = abs(Y[k] - Y[k - 1])
        if nom != 0 and den != 0:
            out.append(nom / den)
    return out


def exp_points(io, n, m):
    ts = [Fraction(0), Fraction(1)]
    for k in range(1, m):
        aL, aR, bL, bR = io["aL"][k], io["aR"][k], io["bL"][k], io["bR"][k]
        for i in range(bL, aL):
            ts.append(Fraction(aL - i, aL - bL))
        for i in range(n - aR, n - bR):
            ts.append(Fraction(i - (n - aR), aR - bR))
    return ts


def requests(c, io):
    """model request lines: [params?] [windows?] values"""
    x, y = series(c)
    n = c["n"]
    s = c["strategy"]
    m = len(x)
    lines = []
    kinds = []
    if s in ("cubic", "function"):
        # external values: only the grid is modelled
        lines.append(f"rfa pc 1 {n} {fmt_list(x)} {fmt_list(y)} - - - -")
        kinds.append("grid")
        return lines, kinds
    if s == "pc":
        lines.append(f"rfa pc 1 {n} {fmt_list(x)} {fmt_list(y)} - - - -")
        kinds.append("values")
        return lines, kinds
    alpha = Fraction(c["alpha"]) if c.get("alpha") is not None else Fraction(1)
    a = "none" if c.get("a") is None else str(c["a"])
    beta = Fraction(c.get("beta", "0"))
    B = 4 * n + 8
    lines.append(f"rfaparams {B} {n} {fmt(alpha)} {a} {fmt(beta)}")
    kinds.append("params")
    if "err" in io:
        lines.append(f"rfa {s} 1 {n} {fmt_list(x)} {fmt_list(y)} - - - -")
        kinds.append("values")
        return lines, kinds
    if s.endswith("adaptive"):
        sm = c.get("smooth", 1)
        gp = pw_field(sm, gammas(c) if not float(sm).is_integer() else ())
        lines.append(f"rfawin {gp} {io['a']} {n} {fmt_list(y)}")
        kinds.append("windows")
    ex = c.get("exp", 1)
    pw = pw_field(ex, exp_points(io, n, m) if not float(ex).is_integer() else ())
    lines.append(f"rfa {s} {pw} {n} {fmt_list(x)} {fmt_list(y)} {fmt_ints(io['aL'])} {fmt_ints(io['aR'])} "
                 f"{fmt_ints(io['bL'])} {fmt_ints(io['bR'])}")
    kinds.append("values")
    # the imperative model (the loops in program order) of the same call: covers overlapping windows too
    lines.append("rfaimp" + lines[-1][3:])
    kinds.append("values")
    return lines, kinds


def compare(c, io, mo, kinds):
    x, y = series(c)
    n = c["n"]
    s = c["strategy"]
    m = len(x)
    relaxed = 0
    if io.get("second_call_same") is False:
        return ("calling rfa() again on the same strategy object (after the first call, after an in-place edit of the returned "
                "arrays, or from a second thread while the first call is under way) returns a different result or fails")
    for kind, ans in zip(kinds, mo):
        if kind == "params":
            if "err" in io:
                continue
            if not ans.startswith("ok "):
                return f"params: model says {ans}"
            a, al, b = [int(t) for t in ans[3:].split()]
            if a != io["a"]:
                return f"params: a impl {io['a']} model {a}"
            if s.endswith("fixed"):
                if al != io["a_l"]:
                    return f"params: a_l impl {io['a_l']} model {al}"
                if s == "expfixed" and b != io["b"]:
                    return f"params: b impl {io['b']} model {b}"
        elif kind == "windows":
            if not ans.startswith("ok "):
                return f"windows: model says {ans}"
            f = ans[3:].split()
            aL, aR = parse_ints(f[0]), parse_ints(f[1])
            shL, shR = parse_rats(f[2]), parse_rats(f[3])
            for k in range(m + 1):
                for nm, mv, iv, sh in (("a_l", aL[k], io["aL"][k], shL[k]), ("a_r", aR[k], io["aR"][k], shR[k])):
                    if mv != iv:
                        near = abs(float(sh) - round(float(sh))) < 1e-9
                        if near and abs(mv - iv) == 1:
                            relaxed += 1     # int() applied within rounding distance of an integer (rule 4)
                            continue
                        return f"windows: interval {k} {nm} impl {iv} model {mv} (un-floored share {float(sh)!r})"
        elif kind in ("values", "grid"):
            if "err" in io:
                if ans != f"ERR {io['err']}":
                    return f"impl raised {io['err']}, model says {ans}"
                continue
            if ans == "unmodelled":
                continue
            if not ans.startswith("ok "):
                return f"impl returned values, model says {ans}"
            f = ans[3:].split()
            mx, my = parse_rats(f[0]), parse_rats(f[1])
            if len(mx) != io["len_x"] or len(my) != io["len_y"]:
                return f"lengths impl {io['len_x']},{io['len_y']} model {len(mx)},{len(my)}"
            # knots are copies (rule 2), the rest of the grid is computed (rule 3)
            if not exact(io["xs"][::n], mx[::n]):
                return f"knots differ: impl {io['xs'][::n][:4]} model {[float(v) for v in mx[::n][:4]]}"
            if not close(io["xs"], mx):
                return "abscissae differ"
            if kind == "values" and not close(io["ys"], my):
                d = [(i, a, float(b)) for i, (a, b) in enumerate(zip(io["ys"], my))
                     if abs(a - float(b)) > 1e-9 * max(1, abs(float(b)))]
                return f"values differ, first {d[:3]}"
    return None


def unmodelled(mo):
    """no model answers for the values: the last request is the imperative model (or the only values line);
    the closed form answers `unmodelled` for overlapping windows, the imperative model answers for every
    window that fits in its interval"""
    return bool(mo) and mo[-1] == "unmodelled"


def closed_form_unmodelled(mo):
    return any(a == "unmodelled" for a in mo)
