"""Direct scenarios on the real `Weaver` that the exact model cannot express (NaN readings, files, who shares memory with
whom): judged by their own oracle, no model request.  Each function returns None or a sentence saying what is violated.
A case carries {"scenario": <name>, "x": [...], "y": [...], ...}; everything derives from the case, so a replay repeats it."""
from __future__ import annotations

import os
import tempfile
from fractions import Fraction

import numpy as np


def _xy(c):
    return np.array([float(Fraction(v)) for v in c["x"]]), np.array([float(Fraction(v)) for v in c["y"]])


def _same(a, b):
    a, b = np.asarray(a, dtype=float), np.asarray(b, dtype=float)
    return a.shape == b.shape and bool(np.all((a == b) | (np.isnan(a) & np.isnan(b))))


def csv_twice(c):
    """load a csv file, edit in place what get() hands out, load the unchanged file again: the second object holds the
    file's numbers (and so do its original and reference), whatever the first one's owner did"""
    from traffic_weaver import Weaver
    x, y = _xy(c)
    d = tempfile.mkdtemp(prefix="twv-csv-")
    f = os.path.join(d, "series.csv")
    try:
        np.savetxt(f, np.column_stack((x, y)), delimiter=",", fmt="%.17g")
        w1 = Weaver.from_csv(f)
        if not (_same(w1.get()[0], x) and _same(w1.get()[1], y)):
            return "from_csv: the Weaver does not hold the file's two columns"
        gx, gy = w1.get()
        try:
            gy *= 8.0
            gx -= gx[len(gx) // 2]
        except ValueError:
            pass            # read-only arrays: nothing to edit
        for how in ("again", "again"):
            w2 = Weaver.from_csv(f)
            for name, (ax, ay) in (("working", w2.get()), ("original", w2.get_original()), ("reference", w2.get_reference())):
                if not (_same(ax, x) and _same(ay, y)):
                    return (f"from_csv of an unchanged file after the first object's arrays were edited in place: the {name} "
                            f"series is {np.asarray(ay)[:4]}, the file holds {y[:4]}")
        new = np.sort(np.concatenate([x, (x[:-1] + x[1:]) / 2.0]))      # the samples and the mid-points between them
        got = w2.interpolate(new_x=new, method="linear").get()[1]
        if not np.allclose(got[::2], y, rtol=1e-12, atol=1e-12 * max(1.0, float(np.max(np.abs(y))))):
            return "from_csv twice: interpolation at the original abscissae does not return the file's values"
        return None
    finally:
        try:
            os.remove(f)
            os.rmdir(d)
        except OSError:
            pass


def readonly_view_base(c):
    """the series is handed in as a read-only view of a buffer the caller owns and goes on using; the original (and the
    reference) were taken at construction and do not follow the caller's storage"""
    from traffic_weaver import Weaver
    x, y = _xy(c)
    bx, by = x.copy(), y.copy()
    vx, vy = bx[:], by[:]
    vx.flags.writeable = False
    vy.flags.writeable = False
    w = Weaver(vx, vy)
    for op in c.get("ops", []):
        if op == "shift_y":
            w.shift_y(0.0)
        elif op == "slice":
            w.slice_by_index(0, len(x))
    bx += 3.0
    by *= -2.0
    ox, oy = w.get_original()
    if not (_same(ox, x) and _same(oy, y)):
        return (f"the caller reused its own buffer after constructing the Weaver from a read-only view of it: get_original() "
                f"now returns {np.asarray(oy)[:4]}, the series at construction was {y[:4]}")
    w.restore_original()
    if not (_same(w.get()[0], x) and _same(w.get()[1], y) and _same(w.get_reference()[1], y)):
        return "restore_original() after the caller reused its buffer does not give back the series of the construction"
    return None


def nan_refused(c):
    """a float series with missing readings (NaN); a request that must be refused - an oversampling factor below 2, for
    every strategy class - raises ValueError and leaves working, reference and original series as they were"""
    from traffic_weaver import Weaver
    from traffic_weaver import rfa
    x, y = _xy(c)
    y = y.copy()
    for j in c["nan_at"]:
        y[j % len(y)] = np.nan
    keep = y.copy()
    for cls in (rfa.CubicSplineRFA, rfa.PiecewiseConstantRFA, rfa.LinearFixedRFA, rfa.ExpAdaptiveRFA, rfa.FunctionRFA):
        w = Weaver(x, y)
        before = [np.array(a, dtype=float, copy=True) for pair in (w.get(), w.get_reference(), w.get_original()) for a in pair]
        try:
            w.recreate_from_average(c["n"], rfa_class=cls)
            return f"recreate_from_average({c['n']}, rfa_class={cls.__name__}) was accepted"
        except ValueError:
            pass
        except Exception as e:  # noqa
            return f"recreate_from_average({c['n']}, rfa_class={cls.__name__}) raised {type(e).__name__}, not ValueError"
        after = [np.asarray(a, dtype=float) for pair in (w.get(), w.get_reference(), w.get_original()) for a in pair]
        if not all(_same(a, b) for a, b in zip(before, after)) or not _same(y, keep):
            return (f"the refused recreate_from_average({c['n']}, rfa_class={cls.__name__}) on a series with missing readings "
                    f"changed the Weaver (or the caller's array): y is now {np.asarray(w.get()[1])[:5]}")
    return None


def match_reads_reference(c):
    """the series is re-sampled to a grid that does not contain the reference's abscissae (any n, or n a multiple plus a
    bit), possibly after domain operations; then it is matched against the reference (default fixed points, found by
    search).  Matching READS the reference: reference and original are afterwards bit for bit what they were, the
    abscissae of the working series too, and a second matching of a fresh copy of the same state gives the same values"""
    import copy
    import warnings
    from traffic_weaver import Weaver
    x, y = _xy(c)
    w = Weaver(x, y)
    for op, a in c["pre"]:
        if op == "recreate":
            w.recreate_from_average(a)
        elif op == "append":
            w.append_one_sample(make_periodic=a)
        else:
            getattr(w, op)(a)
    w.interpolate(n=c["n"], method=c["method"])
    keep = [np.array(a, copy=True) for pair in (w.get_reference(), w.get_original()) for a in pair]
    wx = np.array(w.get()[0], copy=True)
    twin = copy.deepcopy(w)
    with warnings.catch_warnings():
        warnings.simplefilter("ignore")
        try:
            w.integral_match(**c["kw"])
        except Exception as e:  # noqa
            # too few samples between two reference positions for distinct fixed points: refused; nothing may have changed
            after = [np.asarray(a) for pair in (w.get_reference(), w.get_original()) for a in pair]
            if not all(a.dtype == b.dtype and _same(a, b) for a, b in zip(keep, after)):
                return f"integral_match raised {type(e).__name__} and left the reference / original series changed"
            return None
        twin.integral_match(**c["kw"])
    after = [np.asarray(a) for pair in (w.get_reference(), w.get_original()) for a in pair]
    names = ("reference x", "reference y", "original x", "original y")
    for nm, a, b in zip(names, keep, after):
        if a.shape != b.shape or not _same(a, b):
            i = next((j for j in range(min(len(a), len(b))) if a[j] != b[j]), -1)
            return (f"integral_match() after interpolate(n={c['n']}) changed the {nm} series (sample {i}: "
                    f"{a[i] if i >= 0 else len(a)!r} -> {b[i] if i >= 0 else len(b)!r}); matching only reads the reference")
    if not _same(w.get()[0], wx):
        return "integral_match() changed the abscissae of the working series"
    if not _same(w.get()[1], twin.get()[1]):
        return "integral_match() on a copy of the same state gives other values"
    return None


SCENARIOS = {"csv_twice": csv_twice, "readonly_view_base": readonly_view_base, "nan_refused": nan_refused,
             "match_reads_reference": match_reads_reference}


def gen(rng, name):
    n = rng.randint(4, 12)
    c = {"scenario": name, "x": [str(v) for v in rng.increasing(n)], "y": [str(v) for v in rng.values(n)]}
    if name == "readonly_view_base":
        c["ops"] = rng.choice([[], ["shift_y"], ["slice"]])
    if name == "match_reads_reference":
        pre = []
        for _ in range(rng.randint(0, 3)):
            k = rng.choice(["shift_x", "scale_x", "shift_y", "scale_y", "append", "recreate"])
            pre.append([k, {"shift_x": float(rng.dyadic(-8, 8, 4)), "scale_x": float(rng.choice([2, 0.5, 3])),
                            "shift_y": float(rng.dyadic(-8, 8, 4)), "scale_y": float(rng.choice([2, -1, 0.5])),
                            "append": rng.random() < 0.5, "recreate": rng.randint(2, 4)}[k]])
        c["pre"] = pre
        c["n"] = rng.choice([n * rng.randint(2, 5) + rng.randint(0, 3), rng.randint(2 * n, 6 * n), rng.randint(20, 60)])
        c["method"] = rng.choice(["linear", "linear", "constant", "cubic"])
        c["kw"] = rng.choice([{}, {}, {"alpha": 2.0}, {"target_function_integral_method": "rectangle"},
                              {"fixed_points_finding_strategy": "lower"}, {"reference_function_integral_method": "trapezoid"}])
    if name == "nan_refused":
        c["nan_at"] = sorted({rng.randrange(n) for _ in range(rng.randint(1, 3))})
        c["n"] = rng.choice([1, 0, -2, 1.5])
    return c


def run(c):
    try:
        return {"scenario": c["scenario"], "finding": SCENARIOS[c["scenario"]](c)}
    except Exception as e:  # noqa
        return {"scenario": c["scenario"], "finding": f"scenario raised {type(e).__name__}: {e}"}
