"""Translator T8: the array helpers (Python AST) -> lean/TWV/Generated/ArrayHelpers.lean

Sources (working tree of /repo unless the text is handed in):
  sorted_array_utils.py   append_one_sample, oversample_linspace, oversample_piecewise_constant,
                          extend_linspace and extend_constant (one Lean definition per `direction`)
  process.py              repeat (-> Gen.process_repeat)

Target vocabulary: `TWV.Np` (lean/TWV/Model/NpPrims.lean: NumPy array primitives on `Vec`, Python's
index / slice-bound arithmetic on `Int`) and the element-wise operations of `TWV.Vec`.  The tie
`TWV/Tie/ArrayHelpers.lean` proves the generated definitions equal (length, and element by element)
to the hand models `appendOneX/Y`, `oversampleLin`, `oversamplePC`, `extendLin`, `extendConst`
(TWV/Model/Arrays.lean) and `Process.repeatX/repeatY` (TWV/Model/Process.lean).

Kinds of sub-expressions
  S scalar (`K`)     V 1-D array (`Vec K`)     M 2-D array (`Mat K`, only from `np.linspace(u, v, k)`)
  N count (`Nat`: int parameters, `len(a)`, `a.size`, non-negative literals, `+`, `*`, `//`, `%` of counts)
  I integer (`Int`: anything negated or subtracted; only used as an index / slice bound / in a test)
  B flag (`Bool` parameter)     O optional real (`Option K` parameter: `lstart`, `rstop`)
  L Python list of scalars (`[a[0]] * n` is a repetition, not a product)
  C compile-time constant (string / None: `direction`, decided per specialisation)     T tuple (returned)

Supported subset
  statements   docstring, `pass`, `name = expr`, `name: T = expr`, `name op= expr`,
               `v[lo:hi] op= scalar`, `v[lo:hi] = scalar`, `return expr` (an array, or a tuple of two),
               `if` decided by the specialisation (`direction == 'both' or direction == 'left'`, ...):
               only the live branch is translated;
               `if p is None:` / `if p is not None:` on an optional parameter -> `match p with`;
               `if` on a test of counts / integers / reals / a flag -> `if c then .. else ..`
               (branches that only assign are merged per name, otherwise the rest of the function is
               continued in both branches, so an early `return` is fine);
               `for i in range(k)` / `range(lo, hi)` whose body only assigns (same statements, no
               `return` / `break`): `Np.forRange lo hi state (fun i state => ...)`, the state being the
               variables assigned in the body that exist before the loop
  expressions  names, numeric literals, + - * / (kinds decide the operator), `//` `%` on counts, unary
               minus, `a if c else b`, tuples (returned),
               `v[k]`, `v[lo:hi]` (no step) with literal or symbolic integer bounds (`[: -num + 1]`,
               `[1:]`, `[:-1]`, `[n:-n]`) through Python's negative-index rules, `m[lo:hi]` (rows),
               `len(v)`, `v.size`, `v.shape[0]`, `m.T`, `m.transpose()`, `m.flatten()`, `m.ravel()`,
               `m.reshape(-1)`, `m.flatten(order='F'|'C')`,
               `np.asarray / array / asanyarray / ascontiguousarray (v, dtype=...)`, `v.copy()`,
               `v.astype(..)`, `float(s)`, `int(k)`, `np.array([c0, ...])`,
               `v.repeat(k)`, `np.repeat(v, k)`, `np.tile(v, k)`, `[c0, ...] * k`,
               `np.append(v, s)`, `np.append(v, w)`, `np.concatenate([..])`, `np.hstack([..])`,
               `np.insert(v, pos, w)`, `np.insert(v, pos, s)`,
               `np.linspace(start, stop, num[, endpoint=<literal>])` for two scalars (a vector) or two
               vectors (a matrix, one column per pair), `np.full(k, s)`, `np.ones(k)`, `np.zeros(k)`,
               `np.arange(k)`, `np.diff(v)`
  tests        comparisons of counts / integers (`num < 2`, `n < len(a) - 1`), of reals, a flag or
               `not flag`, `and` / `or` / `not`.  `flag is True` is *not* supported (identity of a
               Python object is not truthiness; the model has a `Bool`).
Anything else: that function is emitted as an alias of the hand model with a note
`UNSUPPORTED <fn>: <reason>`; its tie theorems then hold trivially and the tie for it is the
differential correspondence only.
"""
from __future__ import annotations

import ast
import sys
from pathlib import Path

from .core import LEAN, REPO
from .t3_vector import Dynamic, Unsupported, int_const, lit
from .t3_vector import ident as _ident3

OUT = LEAN / "TWV" / "Generated" / "ArrayHelpers.lean"
SRC_DIR = REPO / "src" / "traffic_weaver"
FILES = ("sorted_array_utils.py", "process.py")
REQUIRED = False

S, V, M, N, I, B, O, L, C, T = "S", "V", "M", "N", "I", "B", "O", "L", "C", "T"
NP = ("np", "numpy")
EXTRA_CLASH = {"Np", "Mat", "Process"}


def ident(name):
    if name in EXTRA_CLASH:
        raise Unsupported(f"variable name `{name}` clashes with the generated vocabulary")
    return _ident3(name)


class Val:
    def __init__(self, kind, code=None, value=None, elts=None, literal=None):
        self.kind = kind        # S V M N I B O L C T
        self.code = code        # Lean term
        self.value = value      # Python constant (C)
        self.elts = elts        # components (T)
        self.literal = literal  # the Python int of a literal N / I


# ---------------------------------------------------------------------------------------------
# what is translated
# ---------------------------------------------------------------------------------------------

class Spec:
    def __init__(self, gen, file, py, params, binders, ret, fallback, static=None):
        self.gen = gen              # Lean name: Gen.<gen>
        self.file = file
        self.py = py                # Python function
        self.params = params        # ordered: name -> kind | 'STATIC'
        self.binders = binders      # Lean binders (fixed: the tie theorems rely on them)
        self.ret = ret              # 'V' | 'VV'
        self.fallback = fallback    # hand model, used when the function cannot be translated
        self.static = static or {}  # values of the STATIC parameters in this specialisation


SAU = "sorted_array_utils.py"
DIRECTIONS = ("both", "left", "right")

SPECS = [
    Spec("append_one_sample", SAU, "append_one_sample", {"x": V, "y": V, "make_periodic": B},
         "(x y : Vec K) (make_periodic : Bool)", "VV",
         "(Vec.ofFn (x.len + 1) (appendOneX x.get x.len), "
         "Vec.ofFn (y.len + 1) (appendOneY y.get y.len make_periodic))"),
    Spec("oversample_linspace", SAU, "oversample_linspace", {"a": V, "num": N},
         "(a : Vec K) (num : Nat)", "V", "Vec.ofFn (oversampleLen a.len num) (oversampleLin a.get num)"),
    Spec("oversample_piecewise_constant", SAU, "oversample_piecewise_constant", {"a": V, "num": N},
         "(a : Vec K) (num : Nat)", "V", "Vec.ofFn (oversampleLen a.len num) (oversamplePC a.get num)"),
] + [
    Spec(f"extend_linspace_{d}", SAU, "extend_linspace",
         {"a": V, "n": N, "direction": "STATIC", "lstart": O, "rstop": O},
         "(a : Vec K) (n : Nat) (lstart rstop : Option K)", "V",
         f"Vec.ofFn (extendLen a.len n .{d}) (extendLin a.get a.len n .{d} lstart rstop)", {"direction": d})
    for d in DIRECTIONS
] + [
    Spec(f"extend_constant_{d}", SAU, "extend_constant", {"a": V, "n": N, "direction": "STATIC"},
         "(a : Vec K) (n : Nat)", "V",
         f"Vec.ofFn (extendLen a.len n .{d}) (extendConst a.get a.len n .{d})", {"direction": d})
    for d in DIRECTIONS
] + [
    Spec("process_repeat", "process.py", "repeat", {"x": V, "y": V, "repeats": N},
         "(x y : Vec K) (repeats : Nat)", "VV",
         "(Vec.ofFn (Process.repeatLen x.len repeats) (Process.repeatX x.get x.len), "
         "Vec.ofFn (Process.repeatLen y.len repeats) (Process.repeatY y.get y.len))"),
]

VV = {ast.Add: "add", ast.Sub: "sub", ast.Mult: "mul", ast.Div: "div"}
SYM = {ast.Add: "+", ast.Sub: "-", ast.Mult: "*", ast.Div: "/"}
IDENTITY_CALLS = ("asarray", "array", "asanyarray", "asfarray", "ascontiguousarray", "copy", "atleast_1d")


def contains(stmts, types):
    return any(isinstance(n, types) for st in stmts for n in ast.walk(st))


class FnTranslator:
    def __init__(self, spec: Spec, fn: ast.FunctionDef):
        self.spec = spec
        self.fn = fn

    # -- diagnostics ---------------------------------------------------------------------------
    def where(self, node):
        return f"{self.spec.file}:{getattr(node, 'lineno', '?')}"

    def bad(self, what, node):
        return Unsupported(f"{what} at {self.where(node)}")

    # -- coercions -----------------------------------------------------------------------------
    def to_S(self, v: Val, node):
        if v.kind == S:
            return v.code
        if v.kind == N:
            return lit(v.literal) if v.literal is not None else f"(({v.code} : Nat) : K)"
        if v.kind == I:
            raise self.bad("a possibly negative integer used as a real number", node)
        raise self.bad("a real number is expected", node)

    def to_I(self, v: Val, node):
        if v.kind == I:
            return v.code
        if v.kind == N:
            return v.code if v.literal is not None else f"(({v.code} : Nat) : Int)"
        raise self.bad("an integer is expected", node)

    def to_N(self, v: Val, node, what="count"):
        if v.kind == N:
            return v.code
        if v.kind == I:
            raise self.bad(f"{what} that may be negative", node)
        raise self.bad(f"{what} is not an integer", node)

    def to_V(self, v: Val, node):
        if v.kind in (V, L):
            return v.code
        raise self.bad("a 1-D array is expected", node)

    # -- specialisation: tests decided at translation time ----------------------------------------
    def const_of(self, e, env):
        if isinstance(e, ast.Constant) and (e.value is None or isinstance(e.value, str)):
            return e.value
        if isinstance(e, ast.Name) and e.id in env and env[e.id].kind == C:
            return env[e.id].value
        raise Dynamic()

    def static(self, e, env):
        if isinstance(e, ast.Constant) and isinstance(e.value, bool):
            return e.value
        if isinstance(e, ast.UnaryOp) and isinstance(e.op, ast.Not):
            return not self.static(e.operand, env)
        if isinstance(e, ast.BoolOp):
            vals = [self.static(v, env) for v in e.values]
            return all(vals) if isinstance(e.op, ast.And) else any(vals)
        if isinstance(e, ast.Compare) and len(e.ops) == 1:
            op, left, right = e.ops[0], e.left, e.comparators[0]
            if isinstance(op, (ast.Is, ast.IsNot)):
                if not (isinstance(right, ast.Constant) and right.value is None):
                    raise Dynamic()
                if isinstance(left, ast.Name) and left.id in env and env[left.id].kind in (S, V, M, N, I, B, L):
                    is_none = False  # an array / a number handed in is not None
                else:
                    is_none = self.const_of(left, env) is None
                return is_none if isinstance(op, ast.Is) else not is_none
            if isinstance(op, (ast.Eq, ast.NotEq)):
                r = self.const_of(left, env) == self.const_of(right, env)
                return r if isinstance(op, ast.Eq) else not r
            if isinstance(op, (ast.In, ast.NotIn)):
                if not isinstance(right, (ast.List, ast.Tuple, ast.Set)):
                    raise Dynamic()
                r = self.const_of(left, env) in [self.const_of(x, env) for x in right.elts]
                return r if isinstance(op, ast.In) else not r
        raise Dynamic()

    def opt_test(self, e, env):
        """(`p`, True) for `p is None`, (`p`, False) for `p is not None`, `p` an optional parameter"""
        if isinstance(e, ast.UnaryOp) and isinstance(e.op, ast.Not):
            r = self.opt_test(e.operand, env)
            return None if r is None else (r[0], not r[1])
        if isinstance(e, ast.Compare) and len(e.ops) == 1 and isinstance(e.ops[0], (ast.Is, ast.IsNot)) \
                and isinstance(e.left, ast.Name) and e.left.id in env and env[e.left.id].kind == O \
                and isinstance(e.comparators[0], ast.Constant) and e.comparators[0].value is None:
            return e.left.id, isinstance(e.ops[0], ast.Is)
        return None

    # -- dynamic tests -> decidable Lean propositions ----------------------------------------------
    def cond(self, e, env):
        if isinstance(e, ast.UnaryOp) and isinstance(e.op, ast.Not):
            return f"(¬ {self.cond(e.operand, env)})"
        if isinstance(e, ast.BoolOp):
            op = " ∧ " if isinstance(e.op, ast.And) else " ∨ "
            return "(" + op.join(self.cond(v, env) for v in e.values) + ")"
        if isinstance(e, ast.Name) and e.id in env and env[e.id].kind == B:
            return f"({env[e.id].code} = true)"
        if isinstance(e, ast.Compare) and len(e.ops) == 1:
            op, left, right = e.ops[0], e.left, e.comparators[0]
            if isinstance(op, (ast.Is, ast.IsNot)):
                if isinstance(right, ast.Constant) and isinstance(right.value, bool):
                    raise self.bad(f"identity comparison `is {right.value}` (not the truth value of a flag)", e)
                raise self.bad("identity comparison", e)
            ops = {ast.Eq: "=", ast.NotEq: "≠", ast.Lt: "<", ast.LtE: "≤", ast.Gt: ">", ast.GtE: "≥"}
            if type(op) in ops:
                a, b = self.ex(left, env), self.ex(right, env)
                sym = ops[type(op)]
                if a.kind == N and b.kind == N:
                    return f"({a.code} {sym} {b.code})"
                if a.kind in (N, I) and b.kind in (N, I):
                    return f"(({self.to_I(a, e)} : Int) {sym} {self.to_I(b, e)})"
                if a.kind in (S, N) and b.kind in (S, N):
                    return f"({self.to_S(a, e)} {sym} {self.to_S(b, e)})"
                if a.kind == B and isinstance(right, ast.Constant) and isinstance(right.value, bool) \
                        and isinstance(op, (ast.Eq, ast.NotEq)):
                    want = right.value if isinstance(op, ast.Eq) else not right.value
                    return f"({a.code} = {'true' if want else 'false'})"
        raise self.bad(f"test `{ast.unparse(e)[:48]}`", e)

    # -- expressions -----------------------------------------------------------------------------
    def binop(self, op, a: Val, b: Val, node):
        num = (S, N, I)
        if isinstance(op, (ast.FloorDiv, ast.Mod)):
            if a.kind == N and b.kind == N:
                return Val(N, f"({a.code} {'/' if isinstance(op, ast.FloorDiv) else '%'} {b.code})")
            raise self.bad("`//` / `%` outside counts", node)
        if type(op) not in VV:
            raise self.bad(f"operator {type(op).__name__}", node)
        if isinstance(op, ast.Mult) and {a.kind, b.kind} == {L, N}:
            lst, k = (a, b) if a.kind == L else (b, a)
            return Val(L, f"(Np.tile {lst.code} {k.code})")
        if a.kind == L or b.kind == L:
            raise self.bad("arithmetic on a Python list", node)
        if a.kind in num and b.kind in num:
            if a.kind == N and b.kind == N:
                if isinstance(op, (ast.Add, ast.Mult)):
                    return Val(N, f"({a.code} {SYM[type(op)]} {b.code})")
                if isinstance(op, ast.Sub):
                    return Val(I, f"({self.to_I(a, node)} - {self.to_I(b, node)})")
                return Val(S, f"({self.to_S(a, node)} / {self.to_S(b, node)})")
            if a.kind != S and b.kind != S:
                if isinstance(op, ast.Div):
                    raise self.bad("true division of integers", node)
                return Val(I, f"({self.to_I(a, node)} {SYM[type(op)]} {self.to_I(b, node)})")
            return Val(S, f"({self.to_S(a, node)} {SYM[type(op)]} {self.to_S(b, node)})")
        name = VV[type(op)]
        if a.kind == V and b.kind == V:
            return Val(V, f"(Vec.{name} {a.code} {b.code})")
        if a.kind == V and b.kind in num:
            return Val(V, f"(Vec.{name}s {a.code} {self.to_S(b, node)})")
        if a.kind in num and b.kind == V:
            return Val(V, f"(Vec.s{name} {self.to_S(a, node)} {b.code})")
        raise self.bad("arithmetic on values of these kinds", node)

    def bound(self, e, env):
        if e is None:
            return "none"
        return f"(some {self.to_I(self.ex(e, env), e)})"

    def subscript(self, e, env):
        # `v.shape[0]`
        if isinstance(e.value, ast.Attribute) and e.value.attr == "shape" and int_const(e.slice) == 0:
            v = self.ex(e.value.value, env)
            if v.kind in (V, L):
                return Val(N, f"{v.code}.len")
            if v.kind == M:
                return Val(N, f"{v.code}.rows")
            raise self.bad("shape of a scalar", e)
        v = self.ex(e.value, env)
        sl = e.slice
        if isinstance(sl, ast.Slice):
            if sl.step is not None:
                raise self.bad("slice step", e)
            lo, hi = self.bound(sl.lower, env), self.bound(sl.upper, env)
            if v.kind == V:
                return Val(V, f"(Np.slice {v.code} {lo} {hi})")
            if v.kind == M:
                return Val(M, f"(Np.sliceRows {v.code} {lo} {hi})")
            raise self.bad("slice of a value that is not an array", e)
        if isinstance(sl, ast.Tuple):
            raise self.bad("multi-dimensional index", e)
        if v.kind != V:
            raise self.bad("index into a value that is not a 1-D array", e)
        return Val(S, f"(Np.idx {v.code} {self.to_I(self.ex(sl, env), e)})")

    def kwargs(self, call, allowed):
        out = {}
        for kw in call.keywords:
            if kw.arg is None or kw.arg not in allowed:
                raise self.bad(f"keyword argument `{kw.arg}`", call)
            out[kw.arg] = kw.value
        return out

    def bool_lit(self, e):
        if isinstance(e, ast.Constant) and isinstance(e.value, bool):
            return e.value
        raise self.bad("a literal True / False is expected", e)

    def flatten(self, v: Val, call, args):
        kw = self.kwargs(call, ("order",))
        order = kw.get("order", args[0] if args else None)
        if len(args) > 1:
            raise self.bad("argument count", call)
        o = "C"
        if order is not None:
            if not (isinstance(order, ast.Constant) and order.value in ("C", "F")):
                raise self.bad("flatten order", call)
            o = order.value
        if v.kind == V:
            return v
        if v.kind == M:
            return Val(V, f"(Np.flatten{'F' if o == 'F' else ''} {v.code})")
        raise self.bad("flatten of a scalar", call)

    def linspace(self, call, env):
        kw = self.kwargs(call, ("start", "stop", "num", "endpoint", "dtype"))
        names = ["start", "stop", "num", "endpoint"]
        if len(call.args) > 4:
            raise self.bad("argument count", call)
        given = dict(zip(names, call.args))
        for k, v in kw.items():
            if k == "dtype":
                continue
            if k in given:
                raise self.bad(f"argument `{k}` given twice", call)
            given[k] = v
        if "start" not in given or "stop" not in given:
            raise self.bad("linspace without start / stop", call)
        a, b = self.ex(given["start"], env), self.ex(given["stop"], env)
        k = self.to_N(self.ex(given["num"], env), call, "linspace num") if "num" in given else "50"
        endpoint = self.bool_lit(given["endpoint"]) if "endpoint" in given else True
        ep = "true" if endpoint else "false"
        if a.kind == V and b.kind == V:
            return Val(M, f"(Np.linspaceRows {a.code} {b.code} {k} {ep})")
        if a.kind in (S, N) and b.kind in (S, N):
            return Val(V, f"(Np.linspace {self.to_S(a, call)} {self.to_S(b, call)} {k} {ep})")
        raise self.bad("linspace between a scalar and an array", call)

    def seq_of_arrays(self, e, env, scalars_ok):
        if not isinstance(e, (ast.List, ast.Tuple)) or not e.elts:
            raise self.bad("a literal sequence of arrays is expected", e)
        parts = []
        for x in e.elts:
            v = self.ex(x, env)
            if v.kind in (V, L):
                parts.append(v.code)
            elif scalars_ok and v.kind in (S, N):
                parts.append(f"(Np.full 1 {self.to_S(v, x)})")
            else:
                raise self.bad("an array is expected", x)
        code = parts[0]
        for p in parts[1:]:
            code = f"(Np.concat {code} {p})"
        return Val(V, code)

    def np_call(self, attr, e, env):
        args = e.args
        if attr in IDENTITY_CALLS:
            self.kwargs(e, ("dtype", "copy", "order"))
            if len(args) != 1:
                raise self.bad("argument count", e)
            v = self.ex(args[0], env)
            if v.kind == L:
                return Val(V, v.code)
            if v.kind not in (V, M):
                raise self.bad("array of a scalar", e)
            return v
        if attr == "repeat":
            self.kwargs(e, ())
            if len(args) != 2:
                raise self.bad("argument count", e)
            v = self.ex(args[0], env)
            return Val(V, f"(Np.repeatEach {self.to_V(v, e)} {self.to_N(self.ex(args[1], env), e, 'repeat count')})")
        if attr == "tile":
            self.kwargs(e, ())
            if len(args) != 2:
                raise self.bad("argument count", e)
            v = self.ex(args[0], env)
            return Val(V, f"(Np.tile {self.to_V(v, e)} {self.to_N(self.ex(args[1], env), e, 'tile count')})")
        if attr == "append":
            self.kwargs(e, ())
            if len(args) != 2:
                raise self.bad("argument count", e)
            a, b = self.ex(args[0], env), self.ex(args[1], env)
            if b.kind in (V, L):
                return Val(V, f"(Np.concat {self.to_V(a, e)} {b.code})")
            return Val(V, f"(Np.append1 {self.to_V(a, e)} {self.to_S(b, e)})")
        if attr in ("concatenate", "hstack"):
            self.kwargs(e, ())
            if len(args) != 1:
                raise self.bad("argument count", e)
            return self.seq_of_arrays(args[0], env, scalars_ok=(attr == "hstack"))
        if attr == "insert":
            self.kwargs(e, ())
            if len(args) != 3:
                raise self.bad("argument count", e)
            a, pos, b = self.ex(args[0], env), self.ex(args[1], env), self.ex(args[2], env)
            p = self.to_I(pos, e)
            if b.kind in (V, L):
                return Val(V, f"(Np.insertAt {self.to_V(a, e)} {p} {b.code})")
            return Val(V, f"(Np.insert1 {self.to_V(a, e)} {p} {self.to_S(b, e)})")
        if attr == "linspace":
            return self.linspace(e, env)
        if attr == "full":
            self.kwargs(e, ("dtype",))
            if len(args) != 2:
                raise self.bad("argument count", e)
            return Val(V, f"(Np.full {self.to_N(self.ex(args[0], env), e)} {self.to_S(self.ex(args[1], env), e)})")
        if attr in ("ones", "zeros"):
            self.kwargs(e, ("dtype",))
            if len(args) != 1:
                raise self.bad("argument count", e)
            return Val(V, f"(Np.full {self.to_N(self.ex(args[0], env), e)} ({'1' if attr == 'ones' else '0'} : K))")
        if attr == "arange":
            self.kwargs(e, ("dtype",))
            if len(args) != 1:
                raise self.bad("arange with a start / step", e)
            return Val(V, f"(Np.arange {self.to_N(self.ex(args[0], env), e)})")
        if attr == "diff":
            self.kwargs(e, ())
            if len(args) != 1:
                raise self.bad("argument count", e)
            return Val(V, f"(Vec.diff {self.to_V(self.ex(args[0], env), e)})")
        if attr == "transpose":
            self.kwargs(e, ())
            if len(args) != 1:
                raise self.bad("argument count", e)
            return self.transpose(self.ex(args[0], env), e)
        if attr == "ravel":
            self.kwargs(e, ())
            if len(args) != 1:
                raise self.bad("argument count", e)
            return self.flatten(self.ex(args[0], env), e, [])
        raise self.bad(f"call of np.{attr}", e)

    def transpose(self, v: Val, node):
        if v.kind == M:
            return Val(M, f"(Np.transpose {v.code})")
        if v.kind == V:
            return v
        raise self.bad("transpose of a scalar", node)

    def call(self, e, env):
        f = e.func
        if isinstance(f, ast.Attribute) and isinstance(f.value, ast.Name) and f.value.id in NP \
                and f.value.id not in env:
            return self.np_call(f.attr, e, env)
        if isinstance(f, ast.Attribute):
            v = self.ex(f.value, env)
            if f.attr == "repeat" and len(e.args) == 1 and not e.keywords:
                return Val(V, f"(Np.repeatEach {self.to_V(v, e)} "
                              f"{self.to_N(self.ex(e.args[0], env), e, 'repeat count')})")
            if f.attr in ("flatten", "ravel"):
                return self.flatten(v, e, e.args)
            if f.attr == "reshape" and len(e.args) == 1 and not e.keywords and int_const(e.args[0]) == -1:
                return self.flatten(v, ast.Call(func=f, args=[], keywords=[]), [])
            if f.attr == "transpose" and not e.args and not e.keywords:
                return self.transpose(v, e)
            if f.attr == "copy" and not e.args and not e.keywords and v.kind in (V, M):
                return v
            if f.attr == "astype" and len(e.args) == 1 and v.kind in (V, M):
                return v
            raise self.bad(f"method .{f.attr}()", e)
        if isinstance(f, ast.Name) and f.id not in env:
            if f.id == "len" and len(e.args) == 1 and not e.keywords:
                v = self.ex(e.args[0], env)
                if v.kind in (V, L):
                    return Val(N, f"{v.code}.len")
                if v.kind == M:
                    return Val(N, f"{v.code}.rows")
                raise self.bad("len of a scalar", e)
            if f.id == "float" and len(e.args) == 1 and not e.keywords:
                v = self.ex(e.args[0], env)
                return Val(S, self.to_S(v, e))
            if f.id == "int" and len(e.args) == 1 and not e.keywords:
                v = self.ex(e.args[0], env)
                if v.kind in (N, I):
                    return v
                raise self.bad("int of a real number", e)
            raise self.bad(f"call of {f.id}", e)
        raise self.bad("call", e)

    def ex(self, e, env) -> Val:
        if isinstance(e, ast.Constant):
            if isinstance(e.value, bool):
                raise self.bad("bool literal", e)
            if isinstance(e.value, int):
                return Val(N, str(e.value), literal=e.value)
            if isinstance(e.value, float):
                return Val(S, lit(e.value))
            if e.value is None or isinstance(e.value, str):
                return Val(C, value=e.value)
            raise self.bad("literal", e)
        if isinstance(e, ast.Name):
            if e.id not in env:
                raise self.bad(f"unknown name `{e.id}`", e)
            v = env[e.id]
            if v.kind == O:
                raise self.bad(f"optional parameter `{e.id}` used before its `is None` test", e)
            if v.kind == B:
                raise self.bad(f"flag `{e.id}` used as a value", e)
            return v
        if isinstance(e, ast.UnaryOp) and isinstance(e.op, ast.USub):
            v = self.ex(e.operand, env)
            if v.kind == N and v.literal is not None:
                return Val(I, f"(-{v.literal})", literal=-v.literal) if v.literal else v
            if v.kind in (N, I):
                return Val(I, f"(-{self.to_I(v, e)})")
            if v.kind == S:
                return Val(S, f"(-{v.code})")
            if v.kind == V:
                return Val(V, f"(Vec.neg {v.code})")
            raise self.bad("negation", e)
        if isinstance(e, ast.UnaryOp) and isinstance(e.op, ast.UAdd):
            return self.ex(e.operand, env)
        if isinstance(e, ast.BinOp):
            return self.binop(e.op, self.ex(e.left, env), self.ex(e.right, env), e)
        if isinstance(e, ast.Subscript):
            return self.subscript(e, env)
        if isinstance(e, ast.Attribute):
            if e.attr == "T":
                return self.transpose(self.ex(e.value, env), e)
            if e.attr == "size":
                v = self.ex(e.value, env)
                if v.kind in (V, L):
                    return Val(N, f"{v.code}.len")
                if v.kind == M:
                    return Val(N, f"({v.code}.rows * {v.code}.cols)")
                raise self.bad("size of a scalar", e)
            raise self.bad(f"attribute .{e.attr}", e)
        if isinstance(e, ast.Call):
            return self.call(e, env)
        if isinstance(e, ast.List):
            if not e.elts:
                raise self.bad("empty list", e)
            elts = [self.ex(x, env) for x in e.elts]
            return Val(L, "(Vec.ofList [" + ", ".join(self.to_S(x, e) for x in elts) + "])")
        if isinstance(e, ast.Tuple):
            elts = [self.ex(x, env) for x in e.elts]
            return Val(T, "(" + ", ".join(x.code or "?" for x in elts) + ")", elts=elts)
        if isinstance(e, ast.IfExp):
            try:
                return self.ex(e.body if self.static(e.test, env) else e.orelse, env)
            except Dynamic:
                pass
            ot = self.opt_test(e.test, env)
            if ot is not None:
                p, none_first = ot
                none_e, some_e = (e.body, e.orelse) if none_first else (e.orelse, e.body)
                a = self.ex(none_e, {**env, p: Val(C, value=None)})
                b = self.ex(some_e, {**env, p: Val(S, ident(p))})
                a, b = self.unify(a, b, e)
                return Val(a.kind, f"(match {env[p].code} with | none => {a.code} | some {ident(p)} => {b.code})")
            c = self.cond(e.test, env)
            a, b = self.unify(self.ex(e.body, env), self.ex(e.orelse, env), e)
            return Val(a.kind, f"(if {c} then {a.code} else {b.code})")
        raise self.bad(f"expression {type(e).__name__}", e)

    def unify(self, a: Val, b: Val, node):
        """the two values of a conditional: the same kind (counts are widened)"""
        if a.kind == b.kind and a.kind in (S, V, M, N, I):
            return Val(a.kind, a.code), Val(b.kind, b.code)
        if {a.kind, b.kind} == {N, I}:
            return Val(I, self.to_I(a, node)), Val(I, self.to_I(b, node))
        if {a.kind, b.kind} <= {S, N} or {a.kind, b.kind} <= {S, N, I}:
            return Val(S, self.to_S(a, node)), Val(S, self.to_S(b, node))
        if {a.kind, b.kind} == {V, L}:
            return Val(V, a.code), Val(V, b.code)
        raise self.bad("branches of different kinds", node)

    # -- statements ------------------------------------------------------------------------------
    def assignment(self, st, env):
        """(name, Val) when `st` assigns to a variable (also `v[lo:hi] op= s`), else None"""
        if isinstance(st, ast.Assign) and len(st.targets) == 1:
            tgt, value = st.targets[0], st.value
        elif isinstance(st, ast.AnnAssign) and st.value is not None:
            tgt, value = st.target, st.value
        elif isinstance(st, ast.AugAssign):
            tgt, value = st.target, None
        else:
            return None
        if isinstance(tgt, ast.Name):
            if value is None:
                load = ast.copy_location(ast.Name(id=tgt.id, ctx=ast.Load()), st)
                value = ast.copy_location(ast.BinOp(left=load, op=st.op, right=st.value), st)
            v = self.ex(value, env)
            if v.kind == L:
                v = Val(L, v.code)
            return tgt.id, v
        if isinstance(tgt, ast.Subscript) and isinstance(tgt.value, ast.Name) and isinstance(tgt.slice, ast.Slice):
            name = tgt.value.id
            if name not in env or env[name].kind != V:
                raise self.bad("slice assignment to a value that is not a 1-D array", st)
            if tgt.slice.step is not None:
                raise self.bad("slice step", st)
            lo, hi = self.bound(tgt.slice.lower, env), self.bound(tgt.slice.upper, env)
            d = self.ex(st.value, env)
            if d.kind not in (S, N):
                raise self.bad("slice update by a value that is not a scalar", st)
            if isinstance(st, ast.AugAssign):
                if type(st.op) not in SYM:
                    raise self.bad(f"operator {type(st.op).__name__}", st)
                f = f"(fun t' => t' {SYM[type(st.op)]} {self.to_S(d, st)})"
            else:
                f = f"(fun _ => {self.to_S(d, st)})"
            return name, Val(V, f"(Np.sliceMap {env[name].code} {lo} {hi} {f})")
        raise self.bad("assignment target", st)

    def check_target(self, name, node):
        if name in self.spec.params and self.spec.params[name] in (B, "STATIC"):
            raise self.bad(f"assignment to parameter `{name}`", node)

    def simple(self, stmts):
        """only assignments / pass / docstrings (so that the branches of an `if` can be merged)"""
        for st in stmts:
            if isinstance(st, ast.Pass) or isinstance(st, (ast.Assign, ast.AnnAssign, ast.AugAssign)):
                continue
            return False
        return True

    def branch(self, stmts, env):
        """a branch that only assigns: name -> Val with inlined terms"""
        env = dict(env)
        out = {}
        for st in stmts:
            if isinstance(st, ast.Pass):
                continue
            name, v = self.assignment(st, env)
            self.check_target(name, st)
            if v.kind not in (S, V, N, I, L):
                raise self.bad("assignment of this kind inside a conditional", st)
            ident(name)
            out[name] = v
            env[name] = v
        return out

    def merge(self, st, env, lines, ind, mk):
        """`if` whose branches only assign: one `let` per assigned name; `mk(a, b)` builds the term"""
        (env_a, body), (env_b, orelse) = mk["envs"]
        a, b = self.branch(body, env_a), self.branch(orelse, env_b)
        env = dict(env)
        for name in list(a) + [n for n in b if n not in a]:
            va = a.get(name) or env_a.get(name)
            vb = b.get(name) or env_b.get(name)
            if va is None or vb is None or va.kind in (C, O, B, T) or vb.kind in (C, O, B, T):
                raise self.bad(f"`{name}` is not assigned on every path", st)
            va, vb = self.unify(va, vb, st)
            lines.append(f"{ind}let {ident(name)} := {mk['term'](va.code, vb.code)}")
            env[name] = Val(va.kind, ident(name))
        return env

    def if_parts(self, st, env):
        """how a dynamic `if` is rendered: the two environments and the Lean term builders"""
        ot = self.opt_test(st.test, env)
        if ot is not None:
            p, none_first = ot
            none_b, some_b = (st.body, st.orelse) if none_first else (st.orelse, st.body)
            pc, pi = env[p].code, ident(p)
            return {
                "envs": (({**env, p: Val(C, value=None)}, none_b), ({**env, p: Val(S, pi)}, some_b)),
                "term": lambda a, b: f"(match {pc} with | none => {a} | some {pi} => {b})",
                "head": (f"match {pc} with", "| none =>", f"| some {pi} =>"),
            }
        c = self.cond(st.test, env)
        return {
            "envs": ((env, st.body), (env, st.orelse)),
            "term": lambda a, b: f"(if {c} then {a} else {b})",
            "head": (None, f"if {c} then", "else"),
        }

    def ret_val(self, v: Val, node):
        if self.spec.ret == "V":
            if v.kind not in (V, L):
                raise self.bad(f"{self.spec.py} does not return a 1-D array", node)
            return v.code
        if v.kind != T or len(v.elts) != 2 or any(x.kind not in (V, L) for x in v.elts):
            raise self.bad(f"{self.spec.py} does not return a pair of 1-D arrays", node)
        return v.code

    def for_loop(self, st, env, lines, ind):
        if st.orelse or not isinstance(st.target, ast.Name):
            raise self.bad("loop form", st)
        it = st.iter
        if not (isinstance(it, ast.Call) and isinstance(it.func, ast.Name) and it.func.id == "range"
                and it.func.id not in env and not it.keywords and 1 <= len(it.args) <= 2):
            raise self.bad("loop that is not `for i in range(k)` / `range(lo, hi)`", st)
        bounds = [self.to_N(self.ex(a, env), st, "range bound") for a in it.args]
        lo, hi = ("0", bounds[0]) if len(bounds) == 1 else bounds
        if contains(st.body, (ast.Return, ast.Break, ast.Continue, ast.For, ast.While)):
            raise self.bad("return / break / continue / nested loop inside a loop", st)
        i = st.target.id
        if i in env and env[i].kind != N:
            raise self.bad(f"loop variable `{i}` reuses a name", st)
        assigned = []
        for n in (n for s in st.body for n in ast.walk(s)):
            tgt = None
            if isinstance(n, ast.Assign) and len(n.targets) == 1:
                tgt = n.targets[0]
            elif isinstance(n, (ast.AugAssign, ast.AnnAssign)):
                tgt = n.target
            if tgt is None:
                continue
            name = tgt.id if isinstance(tgt, ast.Name) else (
                tgt.value.id if isinstance(tgt, ast.Subscript) and isinstance(tgt.value, ast.Name) else None)
            if name is None:
                raise self.bad("assignment target", n)
            if name == i:
                raise self.bad("assignment to the loop variable", n)
            if name in env and name not in assigned:
                assigned.append(name)
        state = [n for n in assigned if env[n].kind in (S, V, N, I)]
        if len(state) != len(assigned) or not state:
            raise self.bad("loop without a numeric / array state", st)
        pat = ident(state[0]) if len(state) == 1 else "(" + ", ".join(ident(n) for n in state) + ")"
        init = env[state[0]].code if len(state) == 1 else "(" + ", ".join(env[n].code for n in state) + ")"
        inner = {**env, i: Val(N, ident(i))}
        for n in state:
            inner[n] = Val(env[n].kind, ident(n))
        body_lines = []
        inner = self.body(st.body, inner, body_lines, ind + "  ")
        for n in state:
            if inner[n].kind != env[n].kind:
                raise self.bad(f"`{n}` changes its kind inside the loop", st)
        if len(state) == 1:
            lines.append(f"{ind}let {pat} := Np.forRange {lo} {hi} {init} (fun {ident(i)} {pat} =>")
            lines.extend(body_lines)
            lines.append(f"{ind}  {pat})")
        else:
            def proj(k):  # component k of a right-nested tuple of len(state) components
                return "s'" + ".2" * k + (".1" if k < len(state) - 1 else "")
            lines.append(f"{ind}let s' := Np.forRange {lo} {hi} {init} (fun {ident(i)} s' =>")
            for k, n in enumerate(state):
                lines.append(f"{ind}  let {ident(n)} := {proj(k)}")
            lines.extend(body_lines)
            lines.append(f"{ind}  {pat})")
            for k, n in enumerate(state):
                lines.append(f"{ind}let {ident(n)} := {proj(k)}")
        env = dict(env)
        for n in state:
            env[n] = Val(env[n].kind, ident(n))
        return env

    def body(self, stmts, env, lines, ind):
        """statements without `return` (a loop body): appends `let` lines, returns the environment"""
        for st in stmts:
            if isinstance(st, ast.Expr) and isinstance(st.value, ast.Constant) and isinstance(st.value.value, str):
                continue
            if isinstance(st, ast.Pass):
                continue
            if isinstance(st, ast.If):
                try:
                    live = st.body if self.static(st.test, env) else st.orelse
                except Dynamic:
                    live = None
                if live is not None:
                    env = self.body(live, env, lines, ind)
                    continue
                if not (self.simple(st.body) and self.simple(st.orelse)):
                    raise self.bad("nested statements inside a conditional inside a loop", st)
                env = self.merge(st, env, lines, ind, self.if_parts(st, env))
                continue
            a = self.assignment(st, env)
            if a is None:
                raise self.bad(f"statement {type(st).__name__}", st)
            name, v = a
            self.check_target(name, st)
            env = self.bind(name, v, env, lines, ind, st)
        return env

    def bind(self, name, v: Val, env, lines, ind, node):
        if v.kind in (T, M, B, O):
            raise self.bad("assignment of this kind", node)
        env = dict(env)
        if v.kind == C:
            env[name] = v
            return env
        lines.append(f"{ind}let {ident(name)} := {v.code}")
        env[name] = Val(v.kind, ident(name))
        return env

    def block(self, stmts, env, lines, ind):
        """statements up to a `return` (continuation style): appends the lines of one Lean term"""
        for k, st in enumerate(stmts):
            rest = stmts[k + 1:]
            if isinstance(st, ast.Expr) and isinstance(st.value, ast.Constant) and isinstance(st.value.value, str):
                continue
            if isinstance(st, ast.Pass):
                continue
            if isinstance(st, ast.Return):
                if st.value is None:
                    raise self.bad("bare return", st)
                lines.append(f"{ind}{self.ret_val(self.ex(st.value, env), st)}")
                return
            if isinstance(st, ast.Raise):
                raise self.bad("a `raise` on a live path", st)
            if isinstance(st, ast.For):
                env = self.for_loop(st, env, lines, ind)
                continue
            if isinstance(st, ast.If):
                try:
                    live = st.body if self.static(st.test, env) else st.orelse
                except Dynamic:
                    live = None
                if live is not None:
                    self.block(list(live) + list(rest), env, lines, ind)
                    return
                parts = self.if_parts(st, env)
                if self.simple(st.body) and self.simple(st.orelse):
                    env = self.merge(st, env, lines, ind, parts)
                    continue
                (env_a, body), (env_b, orelse) = parts["envs"]
                head, first, second = parts["head"]
                if head is not None:
                    lines.append(f"{ind}{head}")
                lines.append(f"{ind}{first}")
                self.block(list(body) + list(rest), env_a, lines, ind + "  ")
                lines.append(f"{ind}{second}")
                self.block(list(orelse) + list(rest), env_b, lines, ind + "  ")
                return
            a = self.assignment(st, env)
            if a is None:
                raise self.bad(f"statement {type(st).__name__}", st)
            name, v = a
            self.check_target(name, st)
            env = self.bind(name, v, env, lines, ind, st)
        raise Unsupported(f"no return reached in {self.spec.py}")

    def translate(self):
        a = self.fn.args
        if a.vararg or a.kwarg or a.kwonlyargs or a.posonlyargs:
            raise Unsupported(f"signature of {self.spec.py} at {self.where(self.fn)}")
        names = [p.arg for p in a.args]
        if names != list(self.spec.params):
            raise Unsupported(f"parameter list of {self.spec.py} changed at {self.where(self.fn)}")
        env = {}
        for name, kind in self.spec.params.items():
            if kind == "STATIC":
                env[name] = Val(C, value=self.spec.static[name])
            else:
                env[name] = Val(kind, ident(name))
        lines = []
        self.block(self.fn.body, env, lines, "  ")
        ret = "Vec K" if self.spec.ret == "V" else "Vec K × Vec K"
        head = f"def Gen.{self.spec.gen} {self.spec.binders} : {ret} :="
        return "\n".join([head] + lines)


# ---------------------------------------------------------------------------------------------
# driver
# ---------------------------------------------------------------------------------------------

HEADER = [
    "import TWV.Model.NpPrims", "import TWV.Model.Arrays", "import TWV.Model.Process", "",
    "/-! GENERATED by harness/t8_arrays.py from src/traffic_weaver/{sorted_array_utils,process}.py"
    " — do not edit. -/", "",
    "set_option linter.unusedVariables false", "",
    "namespace TWV", "",
    "variable {K : Type} [Add K] [Sub K] [Mul K] [Div K] [Neg K] [Zero K] [One K] [NatCast K]",
    "  [LT K] [LE K] [DecidableLT K] [DecidableLE K] [DecidableEq K]", "",
]


def read_sources(src_dir=None):
    d = Path(src_dir) if src_dir is not None else SRC_DIR
    out = {}
    for f in FILES:
        try:
            out[f] = (d / f).read_text()
        except OSError:
            out[f] = None
    return out


def generate(text_sau=None, text_process=None):
    """texts not given are read from /repo's working tree"""
    texts = read_sources()
    if text_sau is not None:
        texts["sorted_array_utils.py"] = text_sau
    if text_process is not None:
        texts["process.py"] = text_process
    trees, broken = {}, {}
    for f, text in texts.items():
        if text is None:
            broken[f] = "source file is missing"
            continue
        try:
            trees[f] = ast.parse(text)
        except SyntaxError as e:
            broken[f] = f"syntax error at {f}:{e.lineno}"
    out = list(HEADER)
    notes = []
    for spec in SPECS:
        reason = None
        if spec.file in broken:
            reason = broken[spec.file]
        else:
            fns = [n for n in trees[spec.file].body if isinstance(n, ast.FunctionDef) and n.name == spec.py]
            if len(fns) != 1:
                reason = f"{spec.py} is not defined exactly once in {spec.file}"
            else:
                try:
                    out.append(FnTranslator(spec, fns[0]).translate())
                except Unsupported as e:
                    reason = str(e)
                except RecursionError:
                    reason = "expression too deep"
        if reason is not None:
            notes.append(f"UNSUPPORTED {spec.gen}: {reason}")
            ret = "Vec K" if spec.ret == "V" else "Vec K × Vec K"
            out.append(f"/- T8 cannot translate `{spec.gen}` ({reason}); alias of the hand model, the tie falls back to"
                       f" the correspondence. -/\n"
                       f"def Gen.{spec.gen} {spec.binders} : {ret} :=\n  {spec.fallback}")
        out.append("")
    out += ["end TWV", ""]
    return "\n".join(out), notes


def regenerate(text_sau=None, text_process=None, out=None):
    text, notes = generate(text_sau, text_process)
    out = Path(out) if out is not None else OUT
    out.parent.mkdir(parents=True, exist_ok=True)
    changed = (not out.exists()) or out.read_text() != text
    if changed:
        out.write_text(text)
    note = "; ".join(notes) if notes else f"all {len(SPECS)} array-helper definitions translated"
    if notes:
        note += " (aliased to the hand model: their ties hold trivially)"
    return f"{note} ({'rewritten' if changed else 'unchanged'})"


def main(argv):
    """python -m harness.t8_arrays [--src-dir DIR] [--stdout]   (DIR holds the two source files)"""
    src_dir, to_stdout = None, False
    it = iter(argv)
    for a in it:
        if a == "--src-dir":
            src_dir = next(it)
        elif a == "--stdout":
            to_stdout = True
        else:
            print(main.__doc__)
            return 2
    texts = read_sources(src_dir) if src_dir is not None else {}
    args = (texts.get("sorted_array_utils.py"), texts.get("process.py"))
    if to_stdout:
        text, notes = generate(*args)
        print(text)
        for n in notes:
            print("--", n)
    else:
        print(regenerate(*args))
    return 0


if __name__ == "__main__":
    sys.exit(main(sys.argv[1:]))
