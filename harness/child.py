"""Child interpreter for the environment dimension: `python -O -m harness.child` reads one JSON object per line
({"pid": ..., "case": ...}), runs the implementation side of that case in this interpreter (assert statements
stripped) and answers with the JSON of what `run_impl` returned."""
from __future__ import annotations

import importlib
import json
import sys


def main():
    from . import core, shapes
    core.repo_on_path()
    props = {}
    for line in sys.stdin:
        line = line.strip()
        if not line:
            continue
        try:
            msg = json.loads(line)
            pid = msg["pid"]
            if pid not in props:
                props[pid] = importlib.import_module(f"harness.props.{pid.lower()}")
            case = dict(msg["case"])
            case["hist"] = "none"
            io = shapes.run_with_history(props[pid].run_impl, case)
            out = json.dumps({"io": io, "case": case, "optimize": sys.flags.optimize}, default=str)
        except BaseException as e:  # noqa
            out = json.dumps({"child_error": f"{type(e).__name__}: {e}"})
        sys.stdout.write(out + "\n")
        sys.stdout.flush()


if __name__ == "__main__":
    main()
