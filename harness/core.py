"""Shared machinery of the traffic-weaver verification checks.

Layers (DESIGN.md section 1):
  L1  Lean model + theorems      -> build(), audit()
  L2  tie model <-> /repo        -> translators (t1_funfit, t2_tables) + correspondence (Driver)
  L3  property oracles on /repo  -> per-property modules (only to find replays)
"""
from __future__ import annotations

import fcntl
import json
import math
import os
import random
import re
import subprocess
import sys
import time
from fractions import Fraction
from pathlib import Path

VERIF = Path(__file__).resolve().parent.parent
LEAN = VERIF / "lean"
REPO = Path(os.environ.get("TWV_REPO", "/repo"))
DRIVER_EXE = LEAN / ".lake" / "build" / "bin" / "twvdriver"
EVIDENCE = VERIF / "evidence"
REPLAYS = VERIF / "replays"
CORPUS = VERIF / "corpus"
KNOWN = VERIF / "known_findings.json"

ALLOWED_AXIOMS = {"propext", "Classical.choice", "Quot.sound"}
FORBIDDEN_RE = re.compile(
    r"\bsorry\b|\badmit\b|^\s*axiom\s|native_decide|bv_decide|implemented_by|\bunsafe\s|maxHeartbeats\s+0\b",
    re.M)

TRUSTED_BASE = [
    "Lean 4.33.0 kernel; Mathlib v4.33.0; axioms limited to propext, Classical.choice, Quot.sound (audited by #print axioms on every run)",
    "exact field arithmetic stands for IEEE-754 doubles (rounding, overflow, inf/nan are outside the model)",
    "the NumPy/SciPy primitives are modelled (DESIGN.md 3.7) or passed in as data (3.8)",
    "the correspondence harness, its generators and comparison rules (DESIGN.md 4.3); Lean's compiler for the native model driver",
    "that the statements in lean/TWV/Properties/<id>.lean say what the property says",
    "the translators T1-T15 (Python AST -> Lean for a fixed subset, anything else refused) and the vocabularies their output "
    "is written in (DESIGN.md 7, 12.5-12.16); object identity, dtypes and containers are outside the translated semantics",
]


def repo_on_path():
    p = str(REPO / "src")
    if p not in sys.path:
        sys.path.insert(0, p)


# ---------------------------------------------------------------------------------------------
# numbers
# ---------------------------------------------------------------------------------------------

def frac(v) -> Fraction:
    """exact rational value of an int / float / numpy scalar / Fraction"""
    if isinstance(v, Fraction):
        return v
    if isinstance(v, bool):
        return Fraction(int(v))
    if isinstance(v, int):
        return Fraction(v)
    try:
        import numpy as np
        if isinstance(v, np.integer):
            return Fraction(int(v))
        if isinstance(v, np.floating):
            return Fraction(float(v))
    except ImportError:
        pass
    return Fraction(v)


def fmt(v) -> str:
    f = frac(v)
    return str(f.numerator) if f.denominator == 1 else f"{f.numerator}/{f.denominator}"


def fmt_list(vs) -> str:
    vs = list(vs)
    return ",".join(fmt(v) for v in vs) if vs else "-"


def fmt_ints(vs) -> str:
    vs = list(vs)
    return ",".join(str(int(v)) for v in vs) if vs else "-"


def fmt_opt(v, f=fmt_list) -> str:
    return "none" if v is None else f(v)


def parse_rats(s: str):
    if s == "-":
        return []
    return [Fraction(t) for t in s.split(",")]


def parse_ints(s: str):
    if s == "-":
        return []
    return [int(t) for t in s.split(",")]


def is_finite(v) -> bool:
    try:
        return math.isfinite(float(v))
    except (TypeError, ValueError, OverflowError):
        return False


def close(impl, model, tol=1e-9, floor=1.0) -> bool:
    """comparison rule 3 of DESIGN.md 4.3: |impl - model| <= tol * max(floor, ||model||_inf).
    `floor` is the magnitude below which differences are rounding noise: 1 for O(1) lattice data; callers that
    generate small-unit data pass the magnitude of their inputs (see vclose)."""
    impl = list(impl)
    model = list(model)
    if len(impl) != len(model):
        return False
    if not model:
        return True
    scale = max(floor, max(abs(float(m)) for m in model))
    for a, b in zip(impl, model):
        if not is_finite(a):
            return False
        if abs(float(a) - float(b)) > tol * scale:
            return False
    return True


def vclose(impl, model, tol=1e-9, ref=()) -> bool:
    """relative comparison of two vectors: the scale is the largest magnitude among model, impl and the reference
    values `ref` (typically the inputs the result was computed from), without an absolute floor"""
    impl = list(impl)
    model = list(model)
    mags = [abs(float(v)) for v in model] + [abs(float(v)) for v in impl if is_finite(v)] + [abs(float(v)) for v in ref]
    fl = max(mags) if mags else 1.0
    if fl == 0.0:
        fl = 1.0
    return close(impl, model, tol, floor=fl)


def exact(impl, model) -> bool:
    """comparison rule 2: copies are bit-exact"""
    impl = list(impl)
    model = list(model)
    return len(impl) == len(model) and all(is_finite(a) and frac(a) == b for a, b in zip(impl, model))


def err_kind(e: BaseException) -> str:
    n = type(e).__name__
    # urllib.error.URLError -> URLError etc.
    return n


def pw_table(ts, alpha) -> str:
    """lookup table for a non-integer exponent (comparison rule 5): exact t -> float(t) ** alpha"""
    seen = {}
    for t in ts:
        t = frac(t)
        if t not in seen:
            if t < 0:
                seen[t] = Fraction(0)
            else:
                seen[t] = Fraction(float(t) ** alpha)
    return ";".join(f"{fmt(t)}:{fmt(v)}" for t, v in seen.items()) or "0:0"


def pw_field(alpha, ts=()):
    """protocol field for the power function"""
    if isinstance(alpha, int) or (isinstance(alpha, float) and float(alpha).is_integer() and 0 <= alpha <= 6):
        return str(int(alpha))
    return pw_table(ts, alpha)


# ---------------------------------------------------------------------------------------------
# the model driver
# ---------------------------------------------------------------------------------------------

class DriverError(RuntimeError):
    pass


def run_driver(lines, timeout=600):
    """Send request lines to the native model driver, return one answer per line."""
    lines = list(lines)
    if not lines:
        return []
    if not DRIVER_EXE.exists():
        raise DriverError(f"model driver not built: {DRIVER_EXE}")
    for ln in lines:
        if "\n" in ln:
            raise DriverError("newline inside request")
    p = subprocess.run([str(DRIVER_EXE)], input="\n".join(lines) + "\n", capture_output=True, text=True,
                       timeout=timeout)
    if p.returncode != 0:
        raise DriverError(f"driver exit {p.returncode}: {p.stderr[-2000:]}")
    out = p.stdout.split("\n")
    if out and out[-1] == "":
        out.pop()
    if len(out) != len(lines):
        raise DriverError(f"driver answered {len(out)} lines for {len(lines)} requests: {p.stderr[-500:]}")
    return out


# ---------------------------------------------------------------------------------------------
# Lean: build, audit
# ---------------------------------------------------------------------------------------------

class Lock:
    def __init__(self, name="lake.lock"):
        self.path = LEAN / name

    def __enter__(self):
        self.f = open(self.path, "w")
        fcntl.flock(self.f, fcntl.LOCK_EX)
        return self

    def __exit__(self, *a):
        fcntl.flock(self.f, fcntl.LOCK_UN)
        self.f.close()


def lake_build(targets, timeout=3000):
    """lake build <targets> under a lock; returns (ok, log)"""
    with Lock():
        p = subprocess.run(["lake", "build", *targets], cwd=LEAN, capture_output=True, text=True, timeout=timeout)
    log = (p.stdout + p.stderr)
    return p.returncode == 0, log


def strip_comments(src: str) -> str:
    # remove nested block comments and line comments
    out = []
    i = 0
    depth = 0
    n = len(src)
    while i < n:
        if src.startswith("/-", i):
            depth += 1
            i += 2
        elif depth and src.startswith("-/", i):
            depth -= 1
            i += 2
        elif depth:
            i += 1
        elif src.startswith("--", i):
            while i < n and src[i] != "\n":
                i += 1
        else:
            out.append(src[i])
            i += 1
    return "".join(out)


def theorems_of(module: str):
    """names of the theorems declared in a module file, with the namespace they are declared in"""
    path = LEAN / (module.replace(".", "/") + ".lean")
    src = strip_comments(path.read_text())
    names = []
    ns = []
    for m in re.finditer(r"^\s*(namespace|end|theorem|lemma)\s+([^\s:({\[]+)", src, re.M):
        kw, name = m.group(1), m.group(2)
        if kw == "namespace":
            ns.append(name)
        elif kw == "end":
            if ns and ns[-1] == name:
                ns.pop()
        else:
            names.append(".".join(ns + [name]))
    return names


def forbidden_tokens():
    """grep for sorry/axiom/native_decide/... over the Lean sources (comments stripped)"""
    hits = []
    for p in sorted((LEAN / "TWV").rglob("*.lean")):
        src = strip_comments(p.read_text())
        for m in FORBIDDEN_RE.finditer(src):
            line = src.count("\n", 0, m.start()) + 1
            hits.append(f"{p.relative_to(LEAN)}:{line}: {m.group(0).strip()}")
    return hits


def audit(module: str, names, timeout=900):
    """#print axioms for every theorem; returns {name: [axioms] | None (unknown constant)}"""
    if not names:
        return {}
    auditdir = LEAN / ".lake" / "audit"
    auditdir.mkdir(parents=True, exist_ok=True)
    f = auditdir / (module.replace(".", "_") + f"_{os.getpid()}.lean")
    body = [f"import {module}"] + [f"#print axioms {n}" for n in names]
    f.write_text("\n".join(body) + "\n")
    try:
        p = subprocess.run(["lake", "env", "lean", str(f)], cwd=LEAN, capture_output=True, text=True, timeout=timeout)
    finally:
        try:
            f.unlink()
        except OSError:
            pass
    text = p.stdout + p.stderr
    text = re.sub(r"\s*\n\s+", " ", text)   # join wrapped lines
    res = {n: None for n in names}
    for m in re.finditer(r"'(\S+)' depends on axioms: \[([^\]]*)\]", text):
        res[m.group(1)] = [a.strip() for a in m.group(2).split(",") if a.strip()]
    for m in re.finditer(r"'(\S+)' does not depend on any axioms", text):
        res[m.group(1)] = []
    return res


# ---------------------------------------------------------------------------------------------
# known findings, replays, evidence
# ---------------------------------------------------------------------------------------------

def load_known():
    if KNOWN.exists():
        return json.loads(KNOWN.read_text())
    return {"findings": [], "fixed": []}


def write_replay(pid, seed, payload):
    REPLAYS.mkdir(exist_ok=True)
    n = 0
    while True:
        p = REPLAYS / f"{pid}-{seed}-{n}.json"
        if not p.exists():
            break
        n += 1
    p.write_text(json.dumps(payload, indent=1, default=str))
    return p


def write_evidence(pid, payload):
    EVIDENCE.mkdir(exist_ok=True)
    (EVIDENCE / f"{pid}.json").write_text(json.dumps(payload, indent=1, default=str))


class Rng(random.Random):
    """every random choice of a run derives from this one generator"""

    def dyadic(self, lo=-80, hi=80, den=8):
        return Fraction(self.randint(lo, hi), den)

    def increasing(self, n, start=None, steps=(Fraction(1, 4), Fraction(1, 2), Fraction(1), Fraction(3, 2),
                                              Fraction(2), Fraction(3), Fraction(7)), uniform=None, jitter=False):
        """strictly increasing abscissae on a small dyadic lattice; with `jitter` a uniform grid whose samples are
        displaced by ~1e-7 of the step (nearly but not exactly evenly sampled data, e.g. time stamps)"""
        if jitter:
            st = float(self.choice(steps))
            x0 = float(self.randint(-40, 40)) / 4
            xs = [Fraction(x0 + k * st + st * self.uniform(-1, 1) * self.choice([1e-6, 1e-7, 3e-9])) for k in range(n)]
            if all(b > a for a, b in zip(xs[:-1], xs[1:])):
                return xs
        if start is None:
            start = Fraction(self.randint(-40, 40), 4)
        if uniform is None:
            uniform = self.random() < 0.4
        xs = [start]
        st = self.choice(steps)
        for _ in range(n - 1):
            if not uniform:
                st = self.choice(steps)
            xs.append(xs[-1] + st)
        return xs

    def values(self, n, lo=-80, hi=80, den=8):
        return [self.dyadic(lo, hi, den) for _ in range(n)]


def floats(fr):
    return [float(v) for v in fr]


class Stats:
    """input distribution and branch tags actually hit"""

    def __init__(self):
        self.c = {}

    def hit(self, key, val=None):
        k = key if val is None else f"{key}={val}"
        self.c[k] = self.c.get(k, 0) + 1

    def as_dict(self):
        return dict(sorted(self.c.items()))


def other_filesystem_root():
    """a writable directory on another file system than the system temporary directory (None if there is none):
    where a data home lives on another device than $TMPDIR, a rename from one to the other is refused (EXDEV)"""
    import tempfile
    base = os.stat(tempfile.gettempdir()).st_dev
    for cand in ("/dev/shm", "/run/shm", os.path.expanduser("~"), "/var/tmp", str(VERIF)):
        try:
            if os.path.isdir(cand) and os.access(cand, os.W_OK) and os.stat(cand).st_dev != base:
                return cand
        except OSError:
            continue
    return None


def scratch_dir(prefix, other_fs=False):
    """a fresh scratch directory, under the system temporary directory or - on request - on another file system"""
    import tempfile
    root = other_filesystem_root() if other_fs else None
    return tempfile.mkdtemp(prefix=prefix, dir=root)
