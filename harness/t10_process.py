"""Translator T10: the remaining functions of process.py (Python AST) -> lean/TWV/Generated/ProcessFns.lean

Source (working tree of /repo unless `--src-dir` is given): process.py, and sorted_array_utils.py only
for the default of `fill_not_valid` of the two search functions.

  truncate                          -> Gen.truncate                         (lists, `Except Err`)
  trend, linear_trend               -> Gen.trend, Gen.linear_trend          (`Vec`)
  _piecewise_constant_interpolate   -> Gen.piecewise_constant_interpolate   (lists, `Except Err`)
  interpolate                       -> Gen.interpolate                      (lists, `Except Err`; `**kwargs` empty)
  noise_gauss                       -> Gen.noise_gauss_{none,scalar,array}  (one definition per kind of `snr`)
  average                           -> Gen.average                          (`Vec`, the layout of IntervalArray)

Target vocabulary: `TWV.Pv` (lean/TWV/Model/ProcessVocab.lean), `TWV.Np`, `TWV.Vec`, `TWV.Search.findLower /
findHigher`.  The tie `TWV/Tie/ProcessFns.lean` proves the generated definitions equal to the hand models
(`Pv.Hand.*`: `Process.truncateBounds` + the slicing of `Weaver.truncateS`, `Process.trendY`, `linearTrendY`,
`interpConstant`, `interpolate`, `noiseVariance` / `noiseAdd` / `signalPower`, `Interval.averageX / averageY`).

Kinds of sub-expressions
  S real (`K`)   V array as `Vec K`   L array as `List K`   N count (`Nat`)   I integer (`Int`)   B flag (`Bool`)
  O optional real (`Option K`)   F function `K -> K` (a parameter or a lambda)   IL index array (`List Int`)
  BL boolean mask (`List Bool`)   M NaN-padded 2-D array (`Pv.OMat K`)   STR string parameter   SH `a.shape`
  C compile-time constant (None / str / bool literal)   T tuple (returned)   KW the `**kwargs` parameter (empty)

External / abstract: `10 ** t` is the function parameter `exp10`, `t ** 0.5` is `sqrt`, the draw of
`np.random.normal(loc, scale, size)` is the function parameter `normal` applied to *its arguments* (so the scale
formula is tied), the SciPy results are the data parameter `ext` (only for exactly `CubicSpline(x, y, **kwargs)(new_x)`
and `BSpline(*splrep(x, y, **kwargs))(new_x)`), `np.interp(new_x, x, y)` is `Pv.npInterp` (hand-modelled NumPy).

Supported subset
  statements   docstring, `pass`, `name = e`, `name op= e`, `v[i] = e`, `v[i] op= e`, `l[mask] = e` (array or scalar),
               `return e`, `raise ValueError/IndexError/TypeError(..)` (functions modelled in `Except Err`),
               `if` decided by the specialisation (`snr is not None`, `np.isscalar(snr)`), `if c: raise ..`,
               `if` whose branches only assign (merged per name), any other `if` (the rest of the function is continued
               in both branches), `if p is None` on an optional parameter, `for i in range(k)` whose body only assigns
  expressions  names, numeric literals, + - * / (by kind), unary minus, `10 ** e`, `e ** 0.5`, `e ** k` (literal k),
               `a if c else b`, `lambda t: e`, tuples (returned), `[e, ..]` (a list of reals),
               `v[k]`, `v[lo:hi]`, `r[k]` on an index array (IndexError modelled), `l[mask]`, `l[index array]`,
               `m[:, k]`, comparisons array-vs-scalar (masks), `len(v)`, `v.shape` (only as `size=`),
               `np.asarray / array / asanyarray(v, dtype=..)`, `np.zeros(k)`, `np.mean(v)`, `v.mean()`,
               `np.nanmean(m, axis=1)`, `np.random.normal(..)`, `np.interp(new_x, x, y, **kwargs)`,
               `IntervalArray(v, k).to_2d_array()`, the two search functions (`fill_not_valid` literal or default),
               calls of `trend` / `_piecewise_constant_interpolate` (positional / keyword arguments, defaults)
  tests        comparisons of reals / counts / integers, a flag, `flag is True` / `is False` / `== True` (flags are
               Python bools), `method == 'name'`, `method in (..)`, `not`, `and`, `or`
Anything else: the function is emitted as an alias of its hand model with a note `UNSUPPORTED <fn>: <reason>`.
"""
from __future__ import annotations

import ast
import sys
from pathlib import Path

from .core import LEAN, REPO
from .t3_vector import Dynamic, Unsupported, int_const, lit
from .t3_vector import ident as _ident3

OUT = LEAN / "TWV" / "Generated" / "ProcessFns.lean"
SRC_DIR = REPO / "src" / "traffic_weaver"
FILES = ("process.py", "sorted_array_utils.py")
REQUIRED = False

S, V, L, N, I, B, O, F, IL, BL, M, STR, SH, C, T, KW = \
    "S", "V", "L", "N", "I", "B", "O", "F", "IL", "BL", "M", "STR", "SH", "C", "T", "KW"
NP = ("np", "numpy")
EXTRA_CLASH = {"Pv", "Np", "Search", "Process", "Interval", "Except", "Err", "exp10", "sqrt", "normal", "ext",
               "List", "some", "none", "Nat", "Int", "Bool", "Option", "String", "Mat", "powN", "sumTo", "decide"}
SEARCH = {"find_closest_lower_equal_element_indices_to_values": "Search.findLower",
          "find_closest_higher_equal_element_indices_to_values": "Search.findHigher"}
ERRS = {"ValueError": "valueError", "IndexError": "indexError", "TypeError": "typeError"}
IDENTITY_CALLS = ("asarray", "array", "asanyarray", "ascontiguousarray")


def ident(name):
    if name in EXTRA_CLASH:
        raise Unsupported(f"variable name `{name}` clashes with the generated vocabulary")
    return _ident3(name)


class Val:
    def __init__(self, kind, code=None, value=None, elts=None, literal=None, param=None):
        self.kind = kind
        self.code = code
        self.value = value      # Python constant (C)
        self.elts = elts        # components (T)
        self.literal = literal  # Python number of a numeric literal
        self.param = param      # name of the unchanged array parameter this value is (for the external routines)


class Spec:
    def __init__(self, gen, py, params, binders, ret, fallback, monadic, arr, kwarg=None):
        self.gen = gen              # Lean name Gen.<gen>
        self.py = py
        self.params = params        # ordered: name -> kind | ('STATIC', python value)
        self.binders = binders
        self.ret = ret              # 'L' | 'LL' | 'V' | 'VV'
        self.fallback = fallback
        self.monadic = monadic      # result in `Except Err`
        self.arr = arr              # kind of a freshly built array (`np.zeros`): V or L
        self.kwarg = kwarg          # name of the `**kwargs` parameter, if the signature has one

    @property
    def rtype(self):
        t = {"L": "List K", "LL": "List K × List K", "V": "Vec K", "VV": "Vec K × Vec K"}[self.ret]
        return f"Except Err ({t})" if self.monadic else t


NOISE_B = "(exp10 sqrt : K → K) (normal : K → (Nat → K) → Nat → Nat → K) (a : Vec K)"
SPECS = [
    Spec("truncate", "truncate",
         {"x": L, "y": L, "x_left": S, "x_right": S, "x_left_as_ratio": B, "x_right_as_ratio": B},
         "(x y : List K) (x_left x_right : K) (x_left_as_ratio x_right_as_ratio : Bool)", "LL",
         "Pv.Hand.truncate x y x_left x_right x_left_as_ratio x_right_as_ratio", True, L),
    Spec("trend", "trend", {"x": V, "y": V, "fun": F, "normalized": B},
         "(x y : Vec K) («fun» : K → K) (normalized : Bool)", "VV",
         "Pv.Hand.trend x y «fun» normalized", False, V),
    Spec("linear_trend", "linear_trend", {"x": V, "y": V, "a": S, "normalized": B},
         "(x y : Vec K) (a : K) (normalized : Bool)", "VV",
         "Pv.Hand.linearTrend x y a normalized", False, V),
    Spec("piecewise_constant_interpolate", "_piecewise_constant_interpolate",
         {"x": L, "y": L, "new_x": L, "left": O},
         "(x y new_x : List K) (left : Option K)", "L",
         "Process.interpConstant x y new_x left", True, L),
    Spec("interpolate", "interpolate", {"x": L, "y": L, "new_x": L, "method": STR},
         "(x y new_x : List K) (method : String) (ext : List K)", "L",
         "Process.interpolate x y new_x method ext", True, L, kwarg="kwargs"),
    Spec("noise_gauss_none", "noise_gauss", {"a": V, "snr": ("STATIC", None), "snr_in_db": B, "std": S},
         NOISE_B + " (snr_in_db : Bool) (std : K)", "V", "Pv.Hand.noiseStd normal a std", False, V),
    Spec("noise_gauss_scalar", "noise_gauss", {"a": V, "snr": S, "snr_in_db": B, "std": S},
         NOISE_B + " (snr : K) (snr_in_db : Bool) (std : K)", "V",
         "Pv.Hand.noise sqrt normal a (Pv.Hand.snrLinS exp10 snr snr_in_db)", False, V),
    Spec("noise_gauss_array", "noise_gauss", {"a": V, "snr": V, "snr_in_db": B, "std": S},
         NOISE_B + " (snr : Vec K) (snr_in_db : Bool) (std : K)", "V",
         "Pv.Hand.noise sqrt normal a (Pv.Hand.snrLinV exp10 snr snr_in_db)", False, V),
    Spec("average", "average", {"x": V, "y": V, "interval": N},
         "(x y : Vec K) (interval : Nat)", "VV", "Pv.Hand.average x y interval", False, V),
]
BY_PY = {}
for _s in SPECS:
    BY_PY.setdefault(_s.py, _s)
# in-module callees: python name -> (Lean name, parameter kinds in order, result kind, monadic)
CALLEES = {
    "trend": ("Gen.trend", [("x", V), ("y", V), ("fun", F), ("normalized", B)], T, False),
    "_piecewise_constant_interpolate":
        ("Gen.piecewise_constant_interpolate", [("x", L), ("y", L), ("new_x", L), ("left", O)], L, True),
}

VV = {ast.Add: "add", ast.Sub: "sub", ast.Mult: "mul", ast.Div: "div"}
SYM = {ast.Add: "+", ast.Sub: "-", ast.Mult: "*", ast.Div: "/"}
CMP = {ast.Eq: "=", ast.NotEq: "≠", ast.Lt: "<", ast.LtE: "≤", ast.Gt: ">", ast.GtE: "≥"}
MASK = {ast.Lt: "maskLt", ast.LtE: "maskLe", ast.Gt: "maskGt", ast.GtE: "maskGe"}
FLIP = {ast.Lt: ast.Gt, ast.LtE: ast.GtE, ast.Gt: ast.Lt, ast.GtE: ast.LtE}


def contains(stmts, types):
    return any(isinstance(n, types) for st in stmts for n in ast.walk(st))


class Module:
    """what the translation needs to know about the two source files"""

    def __init__(self, tree, sau_tree):
        self.fns = {}
        self.dups = set()
        self.imported = {}
        for n in tree.body:
            if isinstance(n, ast.FunctionDef):
                if n.name in self.fns:
                    self.dups.add(n.name)
                self.fns[n.name] = n
            elif isinstance(n, ast.ImportFrom) and n.module:
                for a in n.names:
                    self.imported[a.asname or a.name] = (n.module.split(".")[-1], a.name)
        self.fill_default = {}
        if sau_tree is not None:
            for n in sau_tree.body:
                if isinstance(n, ast.FunctionDef) and n.name in SEARCH:
                    names = [p.arg for p in n.args.args]
                    defaults = dict(zip(names[len(names) - len(n.args.defaults):], n.args.defaults))
                    d = defaults.get("fill_not_valid")
                    if names[:3] == ["a", "values", "fill_not_valid"] or (len(names) >= 3 and names[2] == "fill_not_valid"):
                        if isinstance(d, ast.Constant) and isinstance(d.value, bool):
                            self.fill_default[n.name] = d.value

    def imported_from(self, name, module):
        return name not in self.fns and self.imported.get(name) == (module, name)


class FnTranslator:
    def __init__(self, spec: Spec, fn: ast.FunctionDef, mod: Module):
        self.spec = spec
        self.fn = fn
        self.mod = mod
        self.pre = []       # hoisted monadic calls: Lean lines `(..).bind fun t =>`
        self.ntemp = 0

    # -- diagnostics ---------------------------------------------------------------------------
    def where(self, node):
        return f"process.py:{getattr(node, 'lineno', '?')}"

    def bad(self, what, node):
        return Unsupported(f"{what} at {self.where(node)}")

    def hoist(self, code, kind, node):
        if not self.spec.monadic:
            raise self.bad("a call that can raise inside a function modelled without exceptions", node)
        self.ntemp += 1
        t = f"t'{self.ntemp}"
        self.pre.append(f"({code}).bind fun {t} =>")
        return Val(kind, t)

    # -- coercions -----------------------------------------------------------------------------
    def to_S(self, v, node):
        if v.kind == S:
            return v.code
        if v.kind == N:
            return lit(v.literal) if v.literal is not None else f"(({v.code} : Nat) : K)"
        raise self.bad("a real number is expected", node)

    def to_I(self, v, node):
        if v.kind == I:
            return v.code
        if v.kind == N:
            return v.code if v.literal is not None else f"(({v.code} : Nat) : Int)"
        raise self.bad("an integer is expected", node)

    def to_N(self, v, node, what="count"):
        if v.kind == N:
            return v.code
        raise self.bad(f"{what} is not a non-negative integer", node)

    # -- tests decided at translation time ---------------------------------------------------------
    def static(self, e, env):
        if isinstance(e, ast.Constant) and isinstance(e.value, bool):
            return e.value
        if isinstance(e, ast.UnaryOp) and isinstance(e.op, ast.Not):
            return not self.static(e.operand, env)
        if isinstance(e, ast.BoolOp):
            vals = [self.static(v, env) for v in e.values]
            return all(vals) if isinstance(e.op, ast.And) else any(vals)
        if isinstance(e, ast.Call) and isinstance(e.func, ast.Attribute) and isinstance(e.func.value, ast.Name) \
                and e.func.value.id in NP and e.func.value.id not in env and e.func.attr == "isscalar" \
                and len(e.args) == 1 and not e.keywords and isinstance(e.args[0], ast.Name) and e.args[0].id in env:
            k = env[e.args[0].id].kind
            if k in (S, N, I):
                return True
            if k in (V, L, IL, BL, M):
                return False
            raise Dynamic()
        if isinstance(e, ast.Compare) and len(e.ops) == 1 and isinstance(e.ops[0], (ast.Is, ast.IsNot)):
            left, right = e.left, e.comparators[0]
            if isinstance(right, ast.Constant) and right.value is None and isinstance(left, ast.Name) and left.id in env:
                k = env[left.id].kind
                if k in (S, V, L, N, I, IL, BL, M, F, STR):
                    is_none = False
                elif k == C:
                    is_none = env[left.id].value is None
                else:
                    raise Dynamic()
                return is_none if isinstance(e.ops[0], ast.Is) else not is_none
        raise Dynamic()

    def opt_test(self, e, env):
        if isinstance(e, ast.UnaryOp) and isinstance(e.op, ast.Not):
            r = self.opt_test(e.operand, env)
            return None if r is None else (r[0], not r[1])
        if isinstance(e, ast.Compare) and len(e.ops) == 1 and isinstance(e.ops[0], (ast.Is, ast.IsNot)) \
                and isinstance(e.left, ast.Name) and e.left.id in env and env[e.left.id].kind == O \
                and isinstance(e.comparators[0], ast.Constant) and e.comparators[0].value is None:
            return e.left.id, isinstance(e.ops[0], ast.Is)
        return None

    # -- dynamic tests ---------------------------------------------------------------------------------
    def cond(self, e, env):
        if isinstance(e, ast.UnaryOp) and isinstance(e.op, ast.Not):
            return f"(¬ {self.cond(e.operand, env)})"
        if isinstance(e, ast.BoolOp):
            op = " ∧ " if isinstance(e.op, ast.And) else " ∨ "
            return "(" + op.join(self.cond(v, env) for v in e.values) + ")"
        if isinstance(e, ast.Name) and e.id in env and env[e.id].kind == B:
            return f"({env[e.id].code} = true)"
        if isinstance(e, ast.Compare) and len(e.ops) == 1:
            op, left, right = e.ops[0], e.left, e.comparators[0]
            lv = env.get(left.id) if isinstance(left, ast.Name) else None
            if lv is not None and lv.kind == B and isinstance(right, ast.Constant) and isinstance(right.value, bool) \
                    and isinstance(op, (ast.Is, ast.IsNot, ast.Eq, ast.NotEq)):
                want = right.value if isinstance(op, (ast.Is, ast.Eq)) else not right.value
                return f"({lv.code} = {'true' if want else 'false'})"
            if lv is not None and lv.kind == STR:
                if isinstance(op, (ast.Eq, ast.NotEq)) and isinstance(right, ast.Constant) and isinstance(right.value, str):
                    return f"({lv.code} {'=' if isinstance(op, ast.Eq) else '≠'} {self.string(right.value, e)})"
                if isinstance(op, (ast.In, ast.NotIn)) and isinstance(right, (ast.Tuple, ast.List, ast.Set)) and right.elts \
                        and all(isinstance(x, ast.Constant) and isinstance(x.value, str) for x in right.elts):
                    c = "(" + " ∨ ".join(f"{lv.code} = {self.string(x.value, e)}" for x in right.elts) + ")"
                    return c if isinstance(op, ast.In) else f"(¬ {c})"
            if type(op) in CMP:
                n0 = len(self.pre)
                a, b = self.ex(left, env), self.ex(right, env)
                if len(self.pre) != n0:
                    raise self.bad("a call that can raise inside a test", e)
                sym = CMP[type(op)]
                if a.kind == N and b.kind == N:
                    return f"({a.code} {sym} {b.code})"
                if a.kind in (N, I) and b.kind in (N, I):
                    return f"(({self.to_I(a, e)} : Int) {sym} {self.to_I(b, e)})"
                if a.kind in (S, N) and b.kind in (S, N):
                    return f"({self.to_S(a, e)} {sym} {self.to_S(b, e)})"
        raise self.bad(f"test `{ast.unparse(e)[:48]}`", e)

    def string(self, s, node):
        if not s.isascii() or not s.isprintable() or '"' in s or "\\" in s:
            raise self.bad("string literal", node)
        return f'"{s}"'

    # -- expressions -----------------------------------------------------------------------------
    def binop(self, op, a, b, node):
        num = (S, N, I)
        if isinstance(op, ast.Pow):
            return self.power(a, b, node)
        if type(op) not in VV:
            raise self.bad(f"operator {type(op).__name__}", node)
        if a.kind in num and b.kind in num:
            if a.kind == N and b.kind == N:
                if isinstance(op, (ast.Add, ast.Mult)):
                    return Val(N, f"({a.code} {SYM[type(op)]} {b.code})")
                if isinstance(op, ast.Sub):
                    return Val(I, f"({self.to_I(a, node)} - {self.to_I(b, node)})")
                return Val(S, f"({self.to_S(a, node)} / {self.to_S(b, node)})")
            if a.kind != S and b.kind != S:
                if isinstance(op, ast.Div):
                    raise self.bad("true division of integers", node)
                return Val(I, f"({self.to_I(a, node)} {SYM[type(op)]} {self.to_I(b, node)})")
            return Val(S, f"({self.to_S(a, node)} {SYM[type(op)]} {self.to_S(b, node)})")
        name = VV[type(op)]
        if a.kind == V and b.kind == V:
            return Val(V, f"(Vec.{name} {a.code} {b.code})")
        if a.kind == V and b.kind in (S, N):
            return Val(V, f"(Vec.{name}s {a.code} {self.to_S(b, node)})")
        if a.kind in (S, N) and b.kind == V:
            return Val(V, f"(Vec.s{name} {self.to_S(a, node)} {b.code})")
        raise self.bad("arithmetic on values of these kinds", node)

    def need(self, name, node):
        if name not in self.spec.binders:
            raise self.bad(f"`{name}` (an abstract function) is not available in {self.spec.py}", node)
        return name

    def power(self, a, b, node):
        if a.literal == 10 and a.kind == N:
            f = self.need("exp10", node)
            if b.kind in (S, N):
                return Val(S, f"({f} {self.to_S(b, node)})")
            if b.kind == V:
                return Val(V, f"(Vec.map {f} {b.code})")
            raise self.bad("exponent of 10", node)
        if b.literal is not None and isinstance(b.literal, float) and b.literal == 0.5:
            f = self.need("sqrt", node)
            if a.kind in (S, N):
                return Val(S, f"({f} {self.to_S(a, node)})")
            if a.kind == V:
                return Val(V, f"(Vec.map {f} {a.code})")
            raise self.bad("square root", node)
        if b.kind == N and b.literal is not None and 1 <= b.literal <= 4:
            if a.kind in (S, N):
                return Val(S, f"(powN {self.to_S(a, node)} {b.literal})")
            if a.kind == V:
                return Val(V, f"(Pv.powc {a.code} {b.literal})")
        raise self.bad("power", node)

    def bound(self, e, env):
        if e is None:
            return "none"
        return f"(some {self.to_I(self.ex(e, env), e)})"

    def subscript(self, e, env):
        v = self.ex(e.value, env)
        sl = e.slice
        if isinstance(sl, ast.Slice):
            if sl.step is not None:
                raise self.bad("slice step", e)
            lo, hi = self.bound(sl.lower, env), self.bound(sl.upper, env)
            if v.kind == V:
                return Val(V, f"(Np.slice {v.code} {lo} {hi})")
            if v.kind == L:
                return Val(L, f"(Pv.lslice {v.code} {lo} {hi})")
            raise self.bad("slice of a value that is not an array", e)
        if isinstance(sl, ast.Tuple):
            if v.kind == M and len(sl.elts) == 2 and isinstance(sl.elts[0], ast.Slice) \
                    and sl.elts[0].lower is None and sl.elts[0].upper is None and sl.elts[0].step is None \
                    and not isinstance(sl.elts[1], ast.Slice):
                return Val(V, f"(Pv.col {v.code} {self.to_I(self.ex(sl.elts[1], env), e)})")
            raise self.bad("multi-dimensional index", e)
        k = self.ex(sl, env)
        if k.kind in (N, I):
            if v.kind == V:
                return Val(S, f"(Np.idx {v.code} {self.to_I(k, e)})")
            if v.kind == L:
                return Val(S, f"(Pv.lidx {v.code} {self.to_I(k, e)})")
            if v.kind == IL:
                return self.hoist(f"Pv.item {v.code} {self.to_I(k, e)}", I, e)
            if v.kind == SH and k.literal == 0:
                return Val(N, v.code)
            raise self.bad("index into a value that is not a 1-D array", e)
        if k.kind == BL and v.kind in (L, IL):
            return Val(v.kind, f"(Pv.maskSel {v.code} {k.code})")
        if k.kind == IL and v.kind == L:
            return Val(L, f"(Pv.takeIdx {v.code} {k.code})")
        raise self.bad("subscript of these kinds", e)

    def arguments(self, call, names, env, allow_kwargs=False):
        """positional / keyword arguments of `call` by parameter name"""
        if len(call.args) > len(names) or any(isinstance(a, ast.Starred) for a in call.args):
            raise self.bad("argument list", call)
        given = dict(zip(names, call.args))
        for kw in call.keywords:
            if kw.arg is None:
                if allow_kwargs and isinstance(kw.value, ast.Name) and kw.value.id in env and env[kw.value.id].kind == KW:
                    continue  # `**kwargs`: empty in the model
                raise self.bad("`**` argument", call)
            if kw.arg not in names or kw.arg in given:
                raise self.bad(f"keyword argument `{kw.arg}`", call)
            given[kw.arg] = kw.value
        return given

    def as_kind(self, kind, e, env, node):
        """the argument expression `e` as a value of the parameter kind `kind`"""
        if kind == O:
            if isinstance(e, ast.Constant) and e.value is None:
                return "none"
            if isinstance(e, ast.Name) and e.id in env and env[e.id].kind == O:
                return env[e.id].code
            return f"(some {self.to_S(self.ex(e, env), node)})"
        if kind == B:
            if isinstance(e, ast.Constant) and isinstance(e.value, bool):
                return "true" if e.value else "false"
            if isinstance(e, ast.Name) and e.id in env and env[e.id].kind == B:
                return env[e.id].code
            raise self.bad("a flag is expected", node)
        if kind == F:
            if isinstance(e, ast.Name) and e.id in env and env[e.id].kind == F:
                return env[e.id].code
            v = self.ex(e, env)
            if v.kind == F:
                return v.code
            raise self.bad("a function is expected", node)
        v = self.ex(e, env)
        if kind == S:
            return self.to_S(v, node)
        if v.kind != kind:
            raise self.bad(f"an argument of kind {kind} is expected", node)
        return v.code

    def search_call(self, name, e, env):
        if not self.mod.imported_from(name, "sorted_array_utils") or name in env:
            raise self.bad(f"`{name}` is not the function of sorted_array_utils", e)
        given = self.arguments(e, ["a", "values", "fill_not_valid"], env)
        if "a" not in given or "values" not in given:
            raise self.bad("search call without its two arrays", e)
        if "fill_not_valid" in given:
            f = given["fill_not_valid"]
            if not (isinstance(f, ast.Constant) and isinstance(f.value, bool)):
                raise self.bad("`fill_not_valid` is not a literal", e)
            fill = f.value
        elif name in self.mod.fill_default:
            fill = self.mod.fill_default[name]
        else:
            raise self.bad(f"default of `fill_not_valid` of {name} is not readable from sorted_array_utils.py", e)
        a = self.as_kind(L, given["a"], env, e)
        q = self.as_kind(L, given["values"], env, e)
        return self.hoist(f"{SEARCH[name]} {'true' if fill else 'false'} {a} {q}", IL, e)

    def module_call(self, name, e, env):
        lean, params, kind, monadic = CALLEES[name]
        callee = self.mod.fns.get(name)
        if callee is None or name in self.mod.dups or name in env:
            raise self.bad(f"`{name}` is not a function of process.py", e)
        a = callee.args
        if [p.arg for p in a.args] != [p for p, _ in params] or a.vararg or a.kwarg or a.kwonlyargs or a.posonlyargs:
            raise self.bad(f"parameter list of `{name}` changed", e)
        defaults = dict(zip([p.arg for p in a.args][len(a.args) - len(a.defaults):], a.defaults))
        given = self.arguments(e, [p for p, _ in params], env, allow_kwargs=True)
        codes = []
        for p, k in params:
            arg = given.get(p, defaults.get(p))
            if arg is None:
                raise self.bad(f"argument `{p}` of `{name}` is missing", e)
            codes.append(self.as_kind(k, arg, env, e))
        code = f"{lean} " + " ".join(codes)
        if monadic:
            return self.hoist(code, kind, e)
        if kind == T:
            return Val(T, f"({code})", elts=[Val(V, f"({code}).1"), Val(V, f"({code}).2")])
        return Val(kind, f"({code})")

    def external_call(self, e, env):
        """`CubicSpline(x, y, **kwargs)(new_x)` / `BSpline(*splrep(x, y, **kwargs))(new_x)` -> the data `ext`"""
        inner = e.func
        ok = False
        if isinstance(inner.func, ast.Name) and inner.func.id not in env and not e.keywords and len(e.args) == 1:
            if inner.func.id == "CubicSpline" and self.mod.imported_from("CubicSpline", "interpolate"):
                build = inner
                ok = True
            elif inner.func.id == "BSpline" and self.mod.imported_from("BSpline", "interpolate") \
                    and len(inner.args) == 1 and not inner.keywords and isinstance(inner.args[0], ast.Starred) \
                    and isinstance(inner.args[0].value, ast.Call) and isinstance(inner.args[0].value.func, ast.Name) \
                    and inner.args[0].value.func.id == "splrep" and self.mod.imported_from("splrep", "interpolate") \
                    and "splrep" not in env:
                build = inner.args[0].value
                ok = True
        if not ok:
            raise self.bad("call of a call", e)
        self.need("ext", e)
        given = self.arguments(build, ["x", "y"], env, allow_kwargs=True)
        vals = [self.ex(given[k], env) if k in given else None for k in ("x", "y")] + [self.ex(e.args[0], env)]
        if [getattr(v, "param", None) for v in vals] != ["x", "y", "new_x"]:
            raise self.bad("the external spline is not built from exactly (x, y) and evaluated at new_x", e)
        return Val(L, f"(Pv.external {vals[0].code} {vals[1].code} {vals[2].code} ext)")

    def np_call(self, attr, e, env):
        args = e.args
        if attr in IDENTITY_CALLS:
            given = self.arguments(e, ["a", "dtype", "copy", "order"], env)
            if "a" not in given:
                raise self.bad("argument count", e)
            v = self.ex(given["a"], env)
            if v.kind not in (V, L):
                raise self.bad("array of a value that is not a 1-D array", e)
            return v
        if attr == "zeros":
            given = self.arguments(e, ["shape", "dtype"], env)
            if "shape" not in given:
                raise self.bad("argument count", e)
            n = self.to_N(self.ex(given["shape"], env), e)
            return Val(L, f"(Pv.zeros {n})") if self.spec.arr == L else Val(V, f"(Np.full {n} (0 : K))")
        if attr == "mean":
            given = self.arguments(e, ["a"], env)
            v = self.ex(given["a"], env) if "a" in given else None
            if v is None or v.kind != V:
                raise self.bad("mean of a value that is not a `Vec` array", e)
            return Val(S, f"(Pv.mean {v.code})")
        if attr == "nanmean":
            given = self.arguments(e, ["a", "axis"], env)
            v = self.ex(given["a"], env) if "a" in given else None
            if v is None or v.kind != M or int_const(given.get("axis")) != 1:
                raise self.bad("nanmean other than of a 2-D array along axis 1", e)
            return Val(V, f"(Pv.nanmeanRows {v.code})")
        if attr == "interp":
            given = self.arguments(e, ["x", "xp", "fp"], env, allow_kwargs=True)
            if len(given) != 3:
                raise self.bad("argument count", e)
            codes = [self.as_kind(L, given[k], env, e) for k in ("x", "xp", "fp")]
            return Val(L, f"(Pv.npInterp {' '.join(codes)})")
        raise self.bad(f"call of np.{attr}", e)

    def call(self, e, env):
        f = e.func
        if isinstance(f, ast.Call):
            return self.external_call(e, env)
        if isinstance(f, ast.Attribute) and isinstance(f.value, ast.Attribute) and isinstance(f.value.value, ast.Name) \
                and f.value.value.id in NP and f.value.value.id not in env and f.value.attr == "random" \
                and f.attr == "normal":
            self.need("normal", e)
            given = self.arguments(e, ["loc", "scale", "size"], env)
            loc = self.to_S(self.ex(given["loc"], env), e) if "loc" in given else "(0 : K)"
            if "scale" in given:
                sc = self.ex(given["scale"], env)
                scale = f"(fun _ => {self.to_S(sc, e)})" if sc.kind in (S, N) else None
                if sc.kind == V:
                    scale = f"{sc.code}.get"
                if scale is None:
                    raise self.bad("scale of the normal draw", e)
            else:
                scale = "(fun _ => (1 : K))"
            if "size" not in given:
                raise self.bad("a normal draw without `size`", e)
            sz = self.ex(given["size"], env)
            if sz.kind not in (N, SH):
                raise self.bad("size of the normal draw", e)
            return Val(V, f"(Pv.randomNormal normal {loc} {scale} {sz.code})")
        if isinstance(f, ast.Attribute) and isinstance(f.value, ast.Name) and f.value.id in NP and f.value.id not in env:
            return self.np_call(f.attr, e, env)
        if isinstance(f, ast.Attribute):
            # IntervalArray(a, n).to_2d_array()
            if f.attr == "to_2d_array" and not e.args and not e.keywords and isinstance(f.value, ast.Call) \
                    and isinstance(f.value.func, ast.Name) and f.value.func.id == "IntervalArray" \
                    and "IntervalArray" not in env and self.mod.imported_from("IntervalArray", "interval"):
                given = self.arguments(f.value, ["a", "n"], env)
                if len(given) != 2:
                    raise self.bad("IntervalArray without its interval", e)
                a = self.as_kind(V, given["a"], env, e)
                n = self.to_N(self.ex(given["n"], env), e, "interval")
                return Val(M, f"(Pv.to2d {a} {n})")
            v = self.ex(f.value, env)
            if f.attr == "mean" and not e.args and not e.keywords and v.kind == V:
                return Val(S, f"(Pv.mean {v.code})")
            if f.attr == "copy" and not e.args and not e.keywords and v.kind in (V, L):
                return v
            raise self.bad(f"method .{f.attr}()", e)
        if isinstance(f, ast.Name) and f.id in env and env[f.id].kind == F:
            if len(e.args) != 1 or e.keywords or isinstance(e.args[0], ast.Starred):
                raise self.bad("a function parameter is applied to one argument", e)
            return Val(S, f"({env[f.id].code} {self.to_S(self.ex(e.args[0], env), e)})")
        if isinstance(f, ast.Name) and f.id not in env:
            if f.id == "len" and len(e.args) == 1 and not e.keywords:
                v = self.ex(e.args[0], env)
                if v.kind == V:
                    return Val(N, f"{v.code}.len")
                if v.kind in (L, IL, BL):
                    return Val(N, f"{v.code}.length")
                raise self.bad("len of a value that is not a 1-D array", e)
            if f.id == "float" and len(e.args) == 1 and not e.keywords:
                return Val(S, self.to_S(self.ex(e.args[0], env), e))
            if f.id in SEARCH:
                return self.search_call(f.id, e, env)
            if f.id in CALLEES:
                return self.module_call(f.id, e, env)
            raise self.bad(f"call of {f.id}", e)
        raise self.bad("call", e)

    def ex(self, e, env) -> Val:
        if isinstance(e, ast.Constant):
            if isinstance(e.value, bool) or e.value is None or isinstance(e.value, str):
                return Val(C, value=e.value)
            if isinstance(e.value, int):
                return Val(N, str(e.value), literal=e.value)
            if isinstance(e.value, float):
                return Val(S, lit(e.value), literal=e.value)
            raise self.bad("literal", e)
        if isinstance(e, ast.Name):
            if e.id not in env:
                raise self.bad(f"unknown name `{e.id}`", e)
            v = env[e.id]
            if v.kind == O:
                raise self.bad(f"optional parameter `{e.id}` used outside its `is None` test", e)
            if v.kind in (B, STR, KW):
                raise self.bad(f"`{e.id}` used as a value", e)
            return v
        if isinstance(e, ast.UnaryOp) and isinstance(e.op, ast.USub):
            v = self.ex(e.operand, env)
            if v.kind == N and v.literal is not None:
                return Val(I, f"(-{v.literal})", literal=-v.literal) if v.literal else v
            if v.kind in (N, I):
                return Val(I, f"(-{self.to_I(v, e)})")
            if v.kind == S:
                return Val(S, f"(-{v.code})")
            if v.kind == V:
                return Val(V, f"(Vec.neg {v.code})")
            raise self.bad("negation", e)
        if isinstance(e, ast.UnaryOp) and isinstance(e.op, ast.UAdd):
            return self.ex(e.operand, env)
        if isinstance(e, ast.BinOp):
            return self.binop(e.op, self.ex(e.left, env), self.ex(e.right, env), e)
        if isinstance(e, ast.Compare):
            if len(e.ops) != 1 or type(e.ops[0]) not in MASK:
                raise self.bad("comparison as a value", e)
            a, b = self.ex(e.left, env), self.ex(e.comparators[0], env)
            op = type(e.ops[0])
            if a.kind in (S, N) and b.kind == L:
                a, b, op = b, a, FLIP[op]
            if a.kind == L and b.kind in (S, N):
                return Val(BL, f"(Pv.{MASK[op]} {a.code} {self.to_S(b, e)})")
            raise self.bad("comparison as a value (only array against scalar gives a mask)", e)
        if isinstance(e, ast.Subscript):
            return self.subscript(e, env)
        if isinstance(e, ast.Attribute):
            if e.attr == "shape":
                v = self.ex(e.value, env)
                if v.kind == V:
                    return Val(SH, f"{v.code}.len")
                if v.kind == L:
                    return Val(SH, f"{v.code}.length")
            if e.attr == "size":
                v = self.ex(e.value, env)
                if v.kind == V:
                    return Val(N, f"{v.code}.len")
            raise self.bad(f"attribute .{e.attr}", e)
        if isinstance(e, ast.Call):
            return self.call(e, env)
        if isinstance(e, ast.Lambda):
            a = e.args
            if len(a.args) != 1 or a.vararg or a.kwarg or a.kwonlyargs or a.posonlyargs or a.defaults:
                raise self.bad("lambda that does not take one argument", e)
            p = a.args[0].arg
            n0 = len(self.pre)
            body = self.ex(e.body, {**env, p: Val(S, ident(p))})
            if len(self.pre) != n0:
                raise self.bad("a call that can raise inside a lambda", e)
            return Val(F, f"(fun {ident(p)} => {self.to_S(body, e)})")
        if isinstance(e, ast.List):
            if not e.elts:
                raise self.bad("empty list", e)
            return Val(L, "[" + ", ".join(self.to_S(self.ex(x, env), e) for x in e.elts) + "]")
        if isinstance(e, ast.Tuple):
            elts = [self.ex(x, env) for x in e.elts]
            return Val(T, "(" + ", ".join(x.code or "?" for x in elts) + ")", elts=elts)
        if isinstance(e, ast.IfExp):
            try:
                return self.ex(e.body if self.static(e.test, env) else e.orelse, env)
            except Dynamic:
                pass
            n0 = len(self.pre)
            ot = self.opt_test(e.test, env)
            if ot is not None:
                p, none_first = ot
                none_e, some_e = (e.body, e.orelse) if none_first else (e.orelse, e.body)
                a = self.ex(none_e, {**env, p: Val(C, value=None)})
                b = self.ex(some_e, {**env, p: Val(S, ident(p))})
                a, b = self.unify(a, b, e)
                out = Val(a.kind, f"(match {env[p].code} with | none => {a.code} | some {ident(p)} => {b.code})")
            else:
                c = self.cond(e.test, env)
                a, b = self.unify(self.ex(e.body, env), self.ex(e.orelse, env), e)
                out = Val(a.kind, f"(if {c} then {a.code} else {b.code})")
            if len(self.pre) != n0:
                raise self.bad("a call that can raise inside a conditional expression", e)
            return out
        raise self.bad(f"expression {type(e).__name__}", e)

    def unify(self, a, b, node):
        if a.kind == b.kind and a.kind in (S, V, L, N, I, IL, BL):
            return Val(a.kind, a.code), Val(b.kind, b.code)
        if {a.kind, b.kind} == {N, I}:
            return Val(I, self.to_I(a, node)), Val(I, self.to_I(b, node))
        if {a.kind, b.kind} <= {S, N}:
            return Val(S, self.to_S(a, node)), Val(S, self.to_S(b, node))
        raise self.bad("branches of different kinds", node)

    # -- statements ------------------------------------------------------------------------------
    def assignment(self, st, env):
        if isinstance(st, ast.Assign) and len(st.targets) == 1:
            tgt, value = st.targets[0], st.value
        elif isinstance(st, ast.AnnAssign) and st.value is not None:
            tgt, value = st.target, st.value
        elif isinstance(st, ast.AugAssign):
            tgt, value = st.target, None
        else:
            return None
        if isinstance(tgt, ast.Name):
            if value is None:
                load = ast.copy_location(ast.Name(id=tgt.id, ctx=ast.Load()), st)
                value = ast.copy_location(ast.BinOp(left=load, op=st.op, right=st.value), st)
            v = self.ex(value, env)
            return tgt.id, Val(v.kind, v.code, value=v.value, elts=v.elts, literal=None,
                               param=v.param if isinstance(value, ast.Call) or isinstance(value, ast.Name) else None)
        if isinstance(tgt, ast.Subscript) and isinstance(tgt.value, ast.Name) and not isinstance(tgt.slice, (ast.Slice, ast.Tuple)):
            name = tgt.value.id
            if name not in env or env[name].kind not in (V, L):
                raise self.bad("element assignment to a value that is not a 1-D array", st)
            arr = env[name]
            k = self.ex(tgt.slice, env)
            if isinstance(st, ast.AugAssign):
                load = ast.copy_location(ast.Subscript(value=tgt.value, slice=tgt.slice, ctx=ast.Load()), st)
                rhs = self.ex(ast.copy_location(ast.BinOp(left=load, op=st.op, right=st.value), st), env)
            else:
                rhs = self.ex(value, env)
            if arr.kind == V and k.kind in (N, I):
                return name, Val(V, f"(Pv.setAt {arr.code} {self.to_I(k, st)} {self.to_S(rhs, st)})")
            if arr.kind == L and k.kind == BL:
                if rhs.kind == L:
                    return name, Val(L, f"(Pv.maskSet {arr.code} {k.code} {rhs.code})")
                return name, Val(L, f"(Pv.maskFill {arr.code} {k.code} {self.to_S(rhs, st)})")
            raise self.bad("element assignment of these kinds", st)
        raise self.bad("assignment target", st)

    def check_target(self, name, node):
        k = self.spec.params.get(name)
        if k in (B, STR, F) or isinstance(k, tuple):
            raise self.bad(f"assignment to parameter `{name}`", node)
        if name == self.spec.kwarg:
            raise self.bad(f"assignment to `{name}`", node)

    def simple(self, stmts):
        return all(isinstance(st, (ast.Pass, ast.Assign, ast.AnnAssign, ast.AugAssign)) for st in stmts)

    def flush(self, lines, ind):
        for p in self.pre:
            lines.append(f"{ind}{p}")
        self.pre = []

    def branch(self, stmts, env, node):
        env = dict(env)
        out = {}
        n0 = len(self.pre)
        for st in stmts:
            if isinstance(st, ast.Pass):
                continue
            name, v = self.assignment(st, env)
            self.check_target(name, st)
            if v.kind not in (S, V, L, N, I, IL, BL):
                raise self.bad("assignment of this kind inside a conditional", st)
            ident(name)
            out[name] = v
            env[name] = v
        if len(self.pre) != n0:
            raise self.bad("a call that can raise inside a conditional that only assigns", node)
        return out

    def merge(self, st, env, lines, ind, parts):
        (env_a, body), (env_b, orelse) = parts["envs"]
        a, b = self.branch(body, env_a, st), self.branch(orelse, env_b, st)
        env = dict(env)
        for name in list(a) + [n for n in b if n not in a]:
            va = a.get(name) or env_a.get(name)
            vb = b.get(name) or env_b.get(name)
            if va is None or vb is None or va.kind in (C, O, B, T, F, STR, KW, SH, M) or vb.kind in (C, O, B, T, F, STR, KW, SH, M):
                raise self.bad(f"`{name}` is not assigned on every path", st)
            va, vb = self.unify(va, vb, st)
            lines.append(f"{ind}let {ident(name)} := {parts['term'](va.code, vb.code)}")
            env[name] = Val(va.kind, ident(name))
        return env

    def if_parts(self, st, env):
        ot = self.opt_test(st.test, env)
        if ot is not None:
            p, none_first = ot
            none_b, some_b = (st.body, st.orelse) if none_first else (st.orelse, st.body)
            pc, pi = env[p].code, ident(p)
            return {
                "envs": (({**env, p: Val(C, value=None)}, none_b), ({**env, p: Val(S, pi)}, some_b)),
                "term": lambda a, b: f"(match {pc} with | none => {a} | some {pi} => {b})",
                "head": (f"match {pc} with", "| none =>", f"| some {pi} =>"),
            }
        c = self.cond(st.test, env)
        return {
            "envs": ((env, st.body), (env, st.orelse)),
            "term": lambda a, b: f"(if {c} then {a} else {b})",
            "head": (None, f"if {c} then", "else"),
        }

    def raise_term(self, st):
        exc = st.exc
        if isinstance(exc, ast.Call):
            exc = exc.func
        if not self.spec.monadic or st.cause is not None or not isinstance(exc, ast.Name) or exc.id not in ERRS:
            raise self.bad("a `raise` of this form", st)
        return f"Except.error Err.{ERRS[exc.id]}"

    def ret_val(self, v, node):
        want = {"L": L, "V": V}.get(self.spec.ret)
        if want is not None:
            if v.kind != want:
                raise self.bad(f"{self.spec.py} does not return a 1-D array", node)
            code = v.code
        else:
            want = L if self.spec.ret == "LL" else V
            if v.kind != T or len(v.elts) != 2 or any(x.kind != want for x in v.elts):
                raise self.bad(f"{self.spec.py} does not return a pair of 1-D arrays", node)
            code = v.code
        return f"Except.ok {code}" if self.spec.monadic else code

    def for_loop(self, st, env, lines, ind):
        if st.orelse or not isinstance(st.target, ast.Name):
            raise self.bad("loop form", st)
        it = st.iter
        if not (isinstance(it, ast.Call) and isinstance(it.func, ast.Name) and it.func.id == "range"
                and it.func.id not in env and not it.keywords and 1 <= len(it.args) <= 2):
            raise self.bad("loop that is not `for i in range(k)` / `range(lo, hi)`", st)
        bounds = [self.to_N(self.ex(a, env), st, "range bound") for a in it.args]
        lo, hi = ("0", bounds[0]) if len(bounds) == 1 else bounds
        if contains(st.body, (ast.Return, ast.Break, ast.Continue, ast.For, ast.While, ast.Raise)):
            raise self.bad("return / raise / break / continue / nested loop inside a loop", st)
        i = st.target.id
        if i in env:
            raise self.bad(f"loop variable `{i}` reuses a name", st)
        assigned = []
        for n in (n for s in st.body for n in ast.walk(s)):
            tgt = None
            if isinstance(n, ast.Assign) and len(n.targets) == 1:
                tgt = n.targets[0]
            elif isinstance(n, (ast.AugAssign, ast.AnnAssign)):
                tgt = n.target
            elif isinstance(n, ast.Assign):
                raise self.bad("multiple assignment targets", n)
            if tgt is None:
                continue
            name = tgt.id if isinstance(tgt, ast.Name) else (
                tgt.value.id if isinstance(tgt, ast.Subscript) and isinstance(tgt.value, ast.Name) else None)
            if name is None:
                raise self.bad("assignment target", n)
            if name == i:
                raise self.bad("assignment to the loop variable", n)
            if name in env and name not in assigned:
                assigned.append(name)
        state = [n for n in assigned if env[n].kind in (S, V, N, I)]
        if len(state) != len(assigned) or len(state) != 1:
            raise self.bad("loop whose state is not exactly one numeric / array variable", st)
        s0 = state[0]
        inner = {**env, i: Val(N, ident(i)), s0: Val(env[s0].kind, ident(s0))}
        body_lines = []
        n0 = len(self.pre)
        inner = self.body(st.body, inner, body_lines, ind + "  ")
        if len(self.pre) != n0:
            raise self.bad("a call that can raise inside a loop", st)
        if inner[s0].kind != env[s0].kind:
            raise self.bad(f"`{s0}` changes its kind inside the loop", st)
        lines.append(f"{ind}let {ident(s0)} := Np.forRange {lo} {hi} {env[s0].code} (fun {ident(i)} {ident(s0)} =>")
        lines.extend(body_lines)
        lines.append(f"{ind}  {inner[s0].code})")
        env = dict(env)
        env[s0] = Val(env[s0].kind, ident(s0))
        return env

    def body(self, stmts, env, lines, ind):
        """statements of a loop body: only assignments and conditionals that only assign"""
        for st in stmts:
            if isinstance(st, ast.Expr) and isinstance(st.value, ast.Constant) and isinstance(st.value.value, str):
                continue
            if isinstance(st, ast.Pass):
                continue
            if isinstance(st, ast.If):
                try:
                    live = st.body if self.static(st.test, env) else st.orelse
                except Dynamic:
                    live = None
                if live is not None:
                    env = self.body(live, env, lines, ind)
                    continue
                if not (self.simple(st.body) and self.simple(st.orelse)):
                    raise self.bad("nested statements inside a conditional inside a loop", st)
                env = self.merge(st, env, lines, ind, self.if_parts(st, env))
                continue
            a = self.assignment(st, env)
            if a is None:
                raise self.bad(f"statement {type(st).__name__}", st)
            name, v = a
            self.check_target(name, st)
            env = self.bind(name, v, env, lines, ind, st)
        return env

    def bind(self, name, v, env, lines, ind, node):
        if v.kind in (T, B, O, STR, KW, SH):
            raise self.bad("assignment of this kind", node)
        env = dict(env)
        if v.kind == C:
            if isinstance(v.value, bool):
                raise self.bad("assignment of a bool literal", node)
            env[name] = v
            return env
        self.flush(lines, ind)
        lines.append(f"{ind}let {ident(name)} := {v.code}")
        env[name] = Val(v.kind, ident(name), param=v.param)
        return env

    def block(self, stmts, env, lines, ind):
        for k, st in enumerate(stmts):
            rest = stmts[k + 1:]
            if isinstance(st, ast.Expr) and isinstance(st.value, ast.Constant) and isinstance(st.value.value, str):
                continue
            if isinstance(st, ast.Pass):
                continue
            if isinstance(st, ast.Return):
                if st.value is None:
                    raise self.bad("bare return", st)
                code = self.ret_val(self.ex(st.value, env), st)
                self.flush(lines, ind)
                lines.append(f"{ind}{code}")
                return
            if isinstance(st, ast.Raise):
                lines.append(f"{ind}{self.raise_term(st)}")
                return
            if isinstance(st, ast.For):
                env = self.for_loop(st, env, lines, ind)
                continue
            if isinstance(st, ast.If):
                try:
                    live = st.body if self.static(st.test, env) else st.orelse
                except Dynamic:
                    live = None
                if live is not None:
                    self.block(list(live) + list(rest), env, lines, ind)
                    return
                parts = self.if_parts(st, env)
                if self.simple(st.body) and self.simple(st.orelse):
                    env = self.merge(st, env, lines, ind, parts)
                    continue
                (env_a, body), (env_b, orelse) = parts["envs"]
                head, first, second = parts["head"]
                if head is not None:
                    lines.append(f"{ind}{head}")
                lines.append(f"{ind}{first}")
                self.block(list(body) + list(rest), env_a, lines, ind + "  ")
                lines.append(f"{ind}{second}")
                self.block(list(orelse) + list(rest), env_b, lines, ind + "  ")
                return
            a = self.assignment(st, env)
            if a is None:
                raise self.bad(f"statement {type(st).__name__}", st)
            name, v = a
            self.check_target(name, st)
            env = self.bind(name, v, env, lines, ind, st)
        raise Unsupported(f"a path of {self.spec.py} ends without `return` / `raise` (returns None)")

    def translate(self):
        a = self.fn.args
        if a.vararg or a.kwonlyargs or a.posonlyargs:
            raise Unsupported(f"signature of {self.spec.py} at {self.where(self.fn)}")
        if (a.kwarg.arg if a.kwarg else None) != self.spec.kwarg:
            raise Unsupported(f"`**` parameter of {self.spec.py} changed at {self.where(self.fn)}")
        names = [p.arg for p in a.args]
        if names != list(self.spec.params):
            raise Unsupported(f"parameter list of {self.spec.py} changed at {self.where(self.fn)}")
        env = {}
        for name, kind in self.spec.params.items():
            if isinstance(kind, tuple):
                env[name] = Val(C, value=kind[1])
            else:
                env[name] = Val(kind, ident(name), param=name if kind in (L, V) else None)
        if self.spec.kwarg:
            env[self.spec.kwarg] = Val(KW)
        lines = []
        self.block(self.fn.body, env, lines, "  ")
        head = f"def Gen.{self.spec.gen} {self.spec.binders} : {self.spec.rtype} :="
        return "\n".join([head] + lines)


# ---------------------------------------------------------------------------------------------
# driver
# ---------------------------------------------------------------------------------------------

HEADER = [
    "import TWV.Model.ProcessVocab", "",
    "/-! GENERATED by harness/t10_process.py from src/traffic_weaver/process.py (and the default of"
    " `fill_not_valid` in sorted_array_utils.py) — do not edit. -/", "",
    "set_option linter.unusedVariables false", "",
    "namespace TWV", "",
    "variable {K : Type} [Add K] [Sub K] [Mul K] [Div K] [Neg K] [Zero K] [One K] [NatCast K]",
    "  [LT K] [LE K] [DecidableLT K] [DecidableLE K] [DecidableEq K]", "",
]


def read_sources(src_dir=None):
    d = Path(src_dir) if src_dir is not None else SRC_DIR
    out = {}
    for f in FILES:
        try:
            out[f] = (d / f).read_text()
        except OSError:
            out[f] = None
    return out


def generate(sources=None):
    """sources: {file name: text}; files not given are read from /repo's working tree"""
    texts = read_sources()
    if sources:
        texts.update({k: v for k, v in sources.items() if v is not None})
    broken = None
    tree = sau = None
    if texts["process.py"] is None:
        broken = "source file process.py is missing"
    else:
        try:
            tree = ast.parse(texts["process.py"])
        except SyntaxError as e:
            broken = f"syntax error at process.py:{e.lineno}"
    if texts["sorted_array_utils.py"] is not None:
        try:
            sau = ast.parse(texts["sorted_array_utils.py"])
        except SyntaxError:
            sau = None
    mod = Module(tree, sau) if tree is not None else None
    out = list(HEADER)
    notes = []
    failed = set()
    for spec in SPECS:
        reason = broken
        if reason is None:
            if spec.py not in mod.fns or spec.py in mod.dups:
                reason = f"{spec.py} is not defined exactly once in process.py"
            else:
                try:
                    out.append(FnTranslator(spec, mod.fns[spec.py], mod).translate())
                except Unsupported as e:
                    reason = str(e)
                except RecursionError:
                    reason = "expression too deep"
        if reason is not None:
            failed.add(spec.gen)
            notes.append(f"UNSUPPORTED {spec.gen}: {reason}")
            out.append(f"/- T10 cannot translate `{spec.gen}` ({reason}); alias of the hand model. -/\n"
                       f"def Gen.{spec.gen} {spec.binders} : {spec.rtype} :=\n  {spec.fallback}")
        out.append("")
    out += ["end TWV", ""]
    return "\n".join(out), notes


def regenerate(sources=None, out=None):
    text, notes = generate(sources)
    out = Path(out) if out is not None else OUT
    out.parent.mkdir(parents=True, exist_ok=True)
    changed = (not out.exists()) or out.read_text() != text
    if changed:
        out.write_text(text)
    note = "; ".join(notes) if notes else f"all {len(SPECS)} process definitions translated"
    if notes:
        note += " (aliased to the hand model: their ties hold trivially)"
    return f"{note} ({'rewritten' if changed else 'unchanged'})"


def main(argv):
    """python -m harness.t10_process [--src-dir DIR] [--stdout] [--out FILE]   (DIR holds process.py and,
    optionally, sorted_array_utils.py; a file that is missing there is read from /repo)"""
    src_dir, to_stdout, out = None, False, None
    it = iter(argv)
    for a in it:
        if a == "--src-dir":
            src_dir = next(it)
        elif a == "--out":
            out = next(it)
        elif a == "--stdout":
            to_stdout = True
        else:
            print(main.__doc__)
            return 2
    sources = read_sources(src_dir) if src_dir is not None else None
    if to_stdout:
        text, notes = generate(sources)
        print(text)
        for n in notes:
            print("--", n)
    else:
        print(regenerate(sources, out))
    return 0


if __name__ == "__main__":
    sys.exit(main(sys.argv[1:]))
