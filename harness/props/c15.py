"""C15 - noise is purely additive and obeys the signal-to-noise definition."""
from __future__ import annotations

import math
from fractions import Fraction

import numpy as np

from .. import shapes as S

from ..core import fmt_list, parse_rats, frac, err_kind, close, exact, floats

ID = "C15"
MODULES = ["TWV.Properties.C15", "TWV.Tie.ProcessFns", "TWV.Tie.WeaverStep"]
TRANSLATORS = ["t10_process", "t9_weaver"]
RULE = ("random signals of 1..40 samples (non-constant, sign-changing), scalar and per-sample snr, decibel and linear scale, "
        "explicit std; numpy.random.normal is replaced by a recorder that returns a scripted draw, so that the loc / scale / "
        "size arguments reaching the generator and the exact sum a + draw are observed; through process.noise_gauss and "
        "Weaver.noise. The oracle additionally draws 2*10^5 real samples under a few seeds (thorough: more) to check seed "
        "reproducibility and the empirical SNR. Non-trivial: non-constant signal with an snr; distinct by input.")
ASSUMPTIONS = ["that numpy.random.normal is a zero-mean Gaussian generator with the requested scale, seed reproducibility and the "
               "empirical-SNR clause are properties of NumPy's generator: exercised statistically by the oracle, never proved"]
PARTIAL = "Gaussianity / seed reproducibility / empirical SNR are NumPy's (statistical oracle only)"


def cases(rng, tier):
    n_ = {"quick": 300, "thorough": 3000}.get(tier, 200)
    for _ in range({"quick": 1, "thorough": 4}.get(tier, 1)):
        yield long_case(rng)         # more than a million samples (a day at 10 Hz): the definition is global
    for dt in ("uint8", "uint16", "int8", "int64"):
        # a per-sample decibel profile stored compactly in an integer dtype
        n = rng.randint(3, 12)
        yield {"snr_dtype": dt, "a": [str(v) for v in rng.values(n)], "mode": "db", "per": True,
               "snr": [rng.choice([0, 10, 20, 30, 3, 7, 12]) for _ in range(n)], "std": 1.0,
               "draw": [str(rng.dyadic(-40, 40, 16)) for _ in range(n)], "via": rng.choice(["process", "weaver"]),
               "stat": False, "seed": 0}
    for i in range(n_):
        n = rng.randint(1, 40)
        a = rng.values(n)
        r_ = rng.random()
        if r_ < 0.12:
            a = [v - max(a) for v in a]        # a level relative to full scale: no sample above 0, the peak exactly 0
        elif r_ < 0.2:
            a = [v - min(a) for v in a]        # a counter above its floor: the smallest sample exactly 0
        elif r_ < 0.25:
            a = [-abs(v) for v in a]           # nothing above 0
        adtype = None
        if rng.random() < 0.12:
            # whole-number readings held in an integer dtype, large for it: every reading fits, its square does not
            # (octet counts of a few 10^9 in int64, tens of thousands in int32, a percentage in uint8)
            adtype, lo, hi = rng.choice([("int64", 3 * 10 ** 9, 6 * 10 ** 9), ("int32", 47000, 90000), ("uint8", 100, 250),
                                         ("uint16", 300, 60000), ("int16", 200, 30000), ("uint32", 70000, 4 * 10 ** 9)])
            a = [Fraction(rng.randint(lo, hi)) for _ in range(n)]
        mode = rng.choice(["db", "db", "lin", "std"])
        per = rng.random() < 0.35
        if mode == "db":
            snr = [rng.choice([0, 10, 20, 30, -10, 3, 7.5, 12.25]) for _ in range(n if per else 1)]
        elif mode == "lin":
            snr = [rng.choice([1, 2, 10, 100, 0.5, 3.75]) for _ in range(n if per else 1)]
        else:
            snr = None
        yield {"snr_dtype": rng.choice([None, None, "uint8", "uint16", "int8", "int64", "int32"]),
               "a": [str(v) for v in a], "mode": mode, "per": per, "snr": snr, "std": rng.choice([1.0, 0.25, 3.0]),
               "draw": [str(rng.dyadic(-40, 40, 16)) for _ in range(n)], "via": rng.choice(["process", "weaver"]),
               "stat": i < (6 if tier != "thorough" else 20) and adtype is None, "seed": rng.randint(0, 10 ** 6),
               **({"adtype": adtype} if adtype else {})}


def A(c):
    """the signal: given sample by sample, or - for long signals - as a short pattern repeated with a loudness that grows
    quarter by quarter (a quiet night, a loud evening)"""
    if "long" in c:
        n, pat = c["long"], [Fraction(v) for v in c["a"]]
        return [pat[i % len(pat)] * (1 + 3 * ((4 * i) // n)) for i in range(n)]
    return [Fraction(v) for v in c["a"]]


def D(c):
    if "long" in c:
        d = [Fraction(v) for v in c["draw"]]
        return [d[i % len(d)] for i in range(c["long"])]
    return [Fraction(v) for v in c["draw"]]


def long_case(rng):
    n = rng.choice([2 ** 20 + 5, 2 ** 20 + 1, 2 ** 21 + 3, 1500000])
    mode = rng.choice(["db", "lin"])
    return {"long": n, "a": [str(v) for v in rng.values(7)], "mode": mode, "per": False,
            "snr": [rng.choice([10, 20, 3]) if mode == "db" else rng.choice([2, 10, 100])], "std": 1.0,
            "draw": [str(rng.dyadic(-40, 40, 16)) for _ in range(11)], "via": rng.choice(["process", "weaver"]),
            "stat": False, "seed": 0, "layout": "contig,contig,contig", "hist": "none"}


def lin_snr(c):
    if c["mode"] == "db":
        return [10 ** (s / 10) for s in c["snr"]]
    return list(c["snr"])


def request(c):
    a = A(c)
    if c["mode"] == "std":
        return []
    snr = [Fraction(float(v)) for v in lin_snr(c)]
    return f"noisevar {fmt_list(a)} {fmt_list(snr)}"


def run_impl(c):
    from traffic_weaver.process import noise_gauss
    from traffic_weaver import Weaver
    a = np.array(floats(A(c)))
    draw = np.array(floats(D(c)))
    rec = {}
    orig = np.random.normal

    pos = [0]

    def fake(loc=0.0, scale=1.0, size=None):
        # the scripted generator: hands out the draw in the order it is asked for (in one call or in several)
        k = int(np.prod(size)) if size is not None else int(np.size(scale))
        rec["calls"] = rec.get("calls", 0) + 1
        if rec["calls"] == 1:
            rec["loc"] = float(loc)
            rec["scale"] = [float(v) for v in np.atleast_1d(scale)]
            rec["size"] = list(size) if isinstance(size, tuple) else size
        else:
            if rec["calls"] == 2:        # several calls: keep one std per sample
                first = rec["size"][0] if isinstance(rec["size"], list) else (rec["size"] or len(rec["scale"]))
                if len(rec["scale"]) == 1:
                    rec["scale"] = rec["scale"] * int(first)
                rec["size"] = int(first)
            sc = [float(v) for v in np.atleast_1d(scale)]
            rec["scale"] += sc * k if len(sc) == 1 else sc
            rec["size"] += k
            if float(loc) != 0.0:
                rec["loc"] = float(loc)
        out = draw.ravel()[pos[0]:pos[0] + k]
        pos[0] += k
        return out.reshape(size) if size is not None else out
    kw = {}
    snr = None
    snr_before = None
    if c["mode"] != "std":
        snr = c["snr"] if c["per"] else c["snr"][0]
        if c["per"] and c.get("snr_array", True):
            snr = np.array(c["snr"], dtype=float)       # the caller's own profile: must not be written to
            dt = c.get("snr_dtype")
            if dt and all(float(v).is_integer() and (v >= 0 or not dt.startswith("u")) and abs(v) < 120 for v in c["snr"]):
                snr = np.array(c["snr"], dtype=dt)      # whole decibels stored compactly (uint8 / int16 / float32 ...)
            snr_before = snr.copy()
        kw["snr_in_db"] = c["mode"] == "db"
    else:
        kw["std"] = c["std"]
    np.random.normal = fake
    try:
        try:
            if c["via"] == "process":
                r = noise_gauss(S.arr(a.tolist(), dtype=c.get("adtype")), snr=snr, **kw)
                x_after = None
            else:
                w = Weaver(S.arr(np.arange(len(a)).astype(float).tolist()), S.arr(a.tolist(), dtype=c.get("adtype")))
                w.noise(snr, **kw)
                r = w.get()[1]
                x_after = [float(v) for v in w.get()[0]]
        except Exception as e:  # noqa
            return {"err": err_kind(e)}
    finally:
        np.random.normal = orig
    out = {"ok": [float(v) for v in r], "rec": rec, "x_after": x_after}
    if snr_before is not None:
        out["snr_intact"] = bool(np.array_equal(snr, snr_before))
        # the same profile used again: the second result must obey the same definition
        rec2 = {}

        def fake2(loc=0.0, scale=1.0, size=None):
            rec2["scale"] = [float(v) for v in np.atleast_1d(scale)]
            return draw.reshape(size)
        np.random.normal = fake2
        try:
            noise_gauss(a.copy(), snr=snr, **kw)
        finally:
            np.random.normal = orig
        out["scale_second_call"] = rec2.get("scale")
    if c["stat"] and c["mode"] != "std" and not c["per"]:
        big = np.tile(a, 200000 // max(1, len(a)) + 1)[:200000]
        np.random.seed(c["seed"])
        r1 = noise_gauss(big, snr=snr, **kw)
        np.random.seed(c["seed"])
        r2 = noise_gauss(big, snr=snr, **kw)
        noise = r1 - big
        # ... also when the job is handed to a forked worker after the seed was fixed (multiprocessing on Linux)
        forked = []
        small = big[:5000]
        np.random.seed(c["seed"])
        want = noise_gauss(small, snr=snr, **kw)
        for _ in range(2):
            np.random.seed(c["seed"])
            forked.append(_in_forked_child(lambda: noise_gauss(small, snr=snr, **kw)))
        out["fork_repro"] = bool(all(f is not None and np.array_equal(f, want) for f in forked))
        out["stat"] = {"repro": bool(np.array_equal(r1, r2)), "mean": float(np.mean(noise)),
                       "emp_snr": float(np.mean(big ** 2) / np.var(noise)) if np.var(noise) > 0 else None,
                       "want_snr": float(lin_snr(c)[0]), "power": float(np.mean(big ** 2))}
    return out


def _in_forked_child(fn):
    """run fn() in a forked child of this process and return the float64 array it produced (None on failure)"""
    import os
    r, w = os.pipe()
    pid = os.fork()
    if pid == 0:
        code = 1
        try:
            os.close(r)
            data = np.asarray(fn(), dtype=float).tobytes()
            with os.fdopen(w, "wb") as f:
                f.write(data)
            code = 0
        finally:
            os._exit(code)
    os.close(w)
    with os.fdopen(r, "rb") as f:
        data = f.read()
    os.waitpid(pid, 0)
    return np.frombuffer(data, dtype=float) if data else None


def compare(c, io, mo):
    if "err" in io:
        return f"impl raised {io['err']}"
    a = A(c)
    draw = D(c)
    if not exact(io["ok"], [u + v for u, v in zip(a, draw)]):
        return "result is not a + draw"
    rec = io["rec"]
    if rec.get("loc") != 0.0:
        return f"generator called with loc={rec.get('loc')}"
    if c["mode"] == "std":
        return None if rec["scale"] == [c["std"]] else f"explicit std not forwarded: {rec['scale']}"
    var = parse_rats(mo[0][3:])
    scales = rec["scale"] if len(rec["scale"]) > 1 else rec["scale"] * len(a)
    if len(scales) != len(a):
        return f"scale has {len(scales)} entries for {len(a)} samples"
    if not close([s * s for s in scales], var, 1e-9):
        return f"scale^2 impl {[s * s for s in scales][:3]} model variance {[float(v) for v in var[:3]]}"
    return None


def oracle(c, io):
    if "err" in io:
        return f"noise raised {io['err']}"
    a = floats(A(c))
    n = len(a)
    if len(io["ok"]) != n:
        return "noise changed the length"
    if io["x_after"] is not None and io["x_after"] != [float(i) for i in range(n)]:
        return "noise changed x"
    rec = io["rec"]
    size = rec.get("size")
    if size not in ([n], n):
        return f"generator asked for size {size}, signal has {n} samples"
    if c["mode"] != "std":
        power = sum(v * v for v in a) / n
        lin = lin_snr(c)
        scales = rec["scale"] if len(rec["scale"]) > 1 else rec["scale"] * n
        for i in range(n):
            s = lin[i] if c["per"] else lin[0]
            want = math.sqrt(power / s)
            if abs(scales[i] - want) > 1e-9 * max(1.0, want):
                return (f"noise std for sample {i} is {scales[i]!r}; sqrt(mean(y^2)/SNR) = {want!r} "
                        f"(snr={c['snr'][i if c['per'] else 0]}, {'dB' if c['mode'] == 'db' else 'linear'})")
    if io.get("snr_intact") is False:
        return "the per-sample snr array handed in by the caller was modified by noise_gauss"
    if io.get("scale_second_call") is not None and io["scale_second_call"] != rec["scale"]:
        return (f"a second call with the same signal and the same snr profile used a different noise std: "
                f"{io['scale_second_call'][:3]} vs {rec['scale'][:3]}")
    if io.get("fork_repro") is False:
        return ("with the NumPy seed fixed, the noise computed by a forked worker differs from run to run / from the noise "
                "computed in the seeding process: the fixed seed is not honoured")
    st = io.get("stat")
    if st:
        if not st["repro"]:
            return "with a fixed NumPy seed the result is not reproducible"
        if st["emp_snr"] is not None and abs(st["emp_snr"] / st["want_snr"] - 1) > 0.05:
            return f"empirical SNR {st['emp_snr']} of a long series differs from the requested {st['want_snr']}"
        if abs(st["mean"]) > 0.05 * math.sqrt(st["power"] / st["want_snr"]) + 1e-12:
            return f"noise mean {st['mean']} is not ~0"
    return None


def tags(c, io, mo):
    return [f"mode={c['mode']}", "per-sample" if c["per"] else "scalar", f"via={c['via']}"] + (["statistical"] if io.get("stat") else [])


def nontrivial_key(c, io, mo):
    return c if c["mode"] != "std" and len(set(c["a"])) > 1 and "err" not in io else None


def matches_known(k, rec):
    return False
