"""C18 - every documented dataset is reachable by name and well-formed."""
from __future__ import annotations

import os
import pickle
import shutil
import tempfile
from fractions import Fraction

import numpy as np

from .. import t2_tables
from ..core import err_kind, scratch_dir

ID = "C18"
SHAPES = False      # layout / object-history dimensions do not apply: the inputs are names and files
MODULES = ["TWV.Tie.LoaderProtocol", "TWV.Properties.C18"]
TRANSLATORS = ["t7_loader", "t2_tables"]
TIE = ("translator T2 regenerates the dataset tables from the loader modules of the working tree (the C18 table theorems are "
       "re-decided by the kernel); plus an exhaustive correspondence of load_dataset with the name-resolution model")
RULE = ("exhaustive over the finite configuration space: all documented names (19 bundled + 76 remote) x spelling variants "
        "(as documented, all '-' -> '_', all '_' -> '-') x both unpack values through the real load_dataset, with urlretrieve "
        "replaced by a recorder serving a distinct payload per URL and TRAFFIC_WEAVER_DATA pointing to a scratch directory; "
        "plus unknown / mangled names. Non-trivial: a documented name; distinct by (name, unpack).")
EXHAUSTIVE = True
ASSUMPTIONS = ["the pinned SHA-256 is treated as satisfied by the fake payload of the right URL (the checksum routine is "
               "replaced by a table lookup url -> pinned checksum); real downloads are never attempted"]

_T = None


def tables():
    global _T
    if _T is None:
        _T = t2_tables.extract()
    return _T


def variants(n):
    return [n, n.replace("-", "_"), n.replace("_", "-")]


def cases(rng, tier):
    t = tables()
    names = [n for v in t["documented"].values() for n in v]
    for n in names:
        for v in dict.fromkeys(variants(n)):
            for unpack in (False, True):
                yield {"name": v, "unpack": unpack, "doc": n}
    bad = ["no-such-dataset", "", "sandvine", "sandvine_", "fetch_mix_it_milan_daily", "load_sandvine_audio", "AMS-IX_daily",
           "mix-it", "ix_br", "sandvine audio", "ams-ix_daily ", "_ams-ix_daily"]
    for b in bad:
        yield {"name": b, "unpack": False, "doc": None}
    for n in rng.sample(names, 10):
        yield {"name": n + "x", "unpack": False, "doc": None}
        yield {"name": n[:-1], "unpack": False, "doc": None}
    # the data home must follow TRAFFIC_WEAVER_DATA also when it changes between loads in one process
    remote = [n for n in names if not n.startswith("sandvine")]
    for n in rng.sample(remote, 4):
        yield {"name": n, "unpack": False, "doc": n, "envseq": True}
    # the data home spelled with a trailing slash, a doubled slash, `.` and `..` components
    for n in rng.sample(remote, 6):
        yield {"name": n, "unpack": rng.random() < 0.5, "doc": n,
               "home_spelling": rng.choice(["slash", "dslash", "dot", "dotdot", "slashes"])}
    for n in rng.sample([v for v in names if v.startswith("sandvine")], 2):
        yield {"name": n, "unpack": False, "doc": n, "home_spelling": "slash"}
    # a working directory that holds files named like the bundled resources
    for n in rng.sample([v for v in names if v.startswith("sandvine")], 5):
        yield {"name": n, "unpack": rng.random() < 0.5, "doc": n, "cwd_shadow": True}
    # the application edited, in place, what an earlier load of the same bundled dataset returned (`x %= 12`, `y[i] = nan`):
    # the table a later load returns is the documented one, not the edited one
    for n in rng.sample([v for v in names if v.startswith("sandvine")], 8):
        yield {"name": n, "unpack": rng.random() < 0.5, "doc": n, "scribble_first": rng.random() < 0.7}
    # after the module that holds the loader machinery was reloaded (autoreload in a notebook), bundled and remote
    for n in rng.sample(names, 6):
        yield {"name": n, "unpack": False, "doc": n, "after_reload": True}
    # a data home on another file system than the system temporary directory (a RAM disk, a network share)
    for n in rng.sample(remote, 6):
        yield {"name": n, "unpack": rng.random() < 0.5, "doc": n, "home_fs": "other"}


def request(c):
    reg = ",".join(tables()["registry"])
    name = c["name"]
    if not name or " " in name:
        return "resolve _ " + reg if not name else f"resolve {name.replace(' ', '_SPACE_')} {reg}"
    return f"resolve {name} {reg}"


def fake_payload(url):
    k = sum(url.encode()) % 97
    return "".join(f"{i},{i * k + 1}.5\n" for i in range(5))


def run_impl(c):
    import traffic_weaver.datasets._base as base
    from traffic_weaver.datasets import load_dataset
    old_cwd = None
    if c.get("cwd_shadow"):
        # the application's working directory holds files named like the bundled resources (its own raw exports)
        old_cwd = os.getcwd()
        shadow = tempfile.mkdtemp(prefix="twv-c18cwd-")
        for folder in ("sandvine", "datasets", "traffic_weaver"):
            os.makedirs(os.path.join(shadow, folder), exist_ok=True)
        base_name = c["doc"].split("_", 1)[1] if "_" in c["doc"] else c["doc"]
        for fn in {base_name, c["doc"], base_name.replace("-", "_"), base_name.replace("_", "-")}:
            for folder in ("sandvine", "."):
                with open(os.path.join(shadow, folder, fn + ".csv"), "w") as f:
                    f.write("3,1\n2,nan\n1,5\n0,7\n")
        os.chdir(shadow)
    try:
        return _run_impl(c)
    finally:
        if old_cwd is not None:
            os.chdir(old_cwd)
            shutil.rmtree(shadow, ignore_errors=True)


def _run_impl(c):
    import traffic_weaver.datasets._base as base
    from traffic_weaver.datasets import load_dataset
    if c.get("after_reload"):
        # an interactive session / a notebook with autoreload re-executes the module the loaders live in
        import importlib
        importlib.reload(base)
    t = tables()
    by_url = {r["url"]: r for r in t["remotes"]}
    home = scratch_dir("twv-c18-", other_fs=c.get("home_fs") == "other")
    seen = {"urls": [], "paths": {}}

    def fake_retrieve(url, path):
        seen["urls"].append(url)
        seen["paths"][path] = url
        with open(path, "w") as f:
            f.write(fake_payload(url))
        return path, None

    def fake_sha(path):
        url = seen["paths"].get(path)
        return by_url[url]["checksum"] if url in by_url else "0" * 64
    old = (base.urlretrieve, base._sha256, os.environ.get("TRAFFIC_WEAVER_DATA"))
    base.urlretrieve, base._sha256 = fake_retrieve, fake_sha
    os.environ["TRAFFIC_WEAVER_DATA"] = spelled(home, c.get("home_spelling"))
    first_home = None
    if c.get("envseq"):
        # use the data home once under another directory, then switch the variable
        first_home = tempfile.mkdtemp(prefix="twv-c18a-")
        os.environ["TRAFFIC_WEAVER_DATA"] = first_home
        from traffic_weaver.datasets import get_data_home
        get_data_home()
        try:
            load_dataset("mix-it-milan_daily")
        except Exception:  # noqa
            pass
        os.environ["TRAFFIC_WEAVER_DATA"] = spelled(home, c.get("home_spelling"))
        seen["urls"].clear()
    try:
        if c.get("scribble_first") is not None:
            try:
                r0 = load_dataset(c["name"], unpack_dataset_columns=c["scribble_first"])
                for a_ in (r0 if isinstance(r0, tuple) else (r0,)):
                    if isinstance(a_, np.ndarray) and a_.flags.writeable and a_.size:
                        a_[...] = -a_ - 1.0
                        a_.flat[0] = np.nan
            except Exception:  # noqa: the first load is only the history
                pass
        try:
            r = load_dataset(c["name"], unpack_dataset_columns=c["unpack"])
        except Exception as e:  # noqa
            return {"err": err_kind(e)}
        files = sorted(os.path.relpath(os.path.join(d, f), home) for d, _, fs in os.walk(home) for f in fs)
        if c["unpack"]:
            out = {"unpacked": True, "x": [float(v) for v in r[0]], "y": [float(v) for v in r[1]],
                   "tuple": isinstance(r, tuple) and len(r) == 2}
        else:
            out = {"unpacked": False, "shape": list(r.shape), "dtype": str(r.dtype),
                   "x": [float(v) for v in r[:, 0]], "y": [float(v) for v in r[:, 1]]}
        out.update({"urls": seen["urls"], "files": files, "home_used": bool(files) or not seen["urls"]})
        if files:
            with open(os.path.join(home, files[0]), "rb") as f:
                out["cached_shape"] = list(pickle.load(f).shape)
        return out
    finally:
        base.urlretrieve, base._sha256 = old[0], old[1]
        if old[2] is None:
            os.environ.pop("TRAFFIC_WEAVER_DATA", None)
        else:
            os.environ["TRAFFIC_WEAVER_DATA"] = old[2]
        shutil.rmtree(home, ignore_errors=True)
        if first_home:
            shutil.rmtree(first_home, ignore_errors=True)


def spelled(home, how):
    """the same directory, written the way people write paths in environment variables"""
    d, b = os.path.split(home)
    return {None: home, "slash": home + "/", "dslash": d + "//" + b, "dot": d + "/./" + b,
            "dotdot": home + "/../" + b, "slashes": home + "//"}[how]


def record_for(c, io):
    """which loader served the request, identified by what it did"""
    t = tables()
    if io.get("urls"):
        for r in t["remotes"]:
            if r["url"] == io["urls"][0]:
                return r
    return None


def compare(c, io, mo):
    m = mo[0]
    if "err" in io:
        return None if m == f"ERR {io['err']}" else f"{c['name']!r}: impl raised {io['err']}, model says {m}"
    if not m.startswith("ok "):
        return f"{c['name']!r}: impl loaded a dataset, model says {m}"
    fn = m[3:]
    t = tables()
    if fn.startswith("fetch_"):
        r = record_for(c, io)
        if r is None or r["fn"] != fn:
            return f"{c['name']!r}: model resolves to {fn}, the implementation downloaded {io.get('urls')}"
        if io["files"] != [os.path.join(r["folder"], r["slot"])]:
            return f"{c['name']!r}: cache files {io['files']}, model path {r['folder']}/{r['slot']}"
    else:
        b = [b for b in t["bundled"] if b["fn"] == fn]
        if not b:
            return f"{c['name']!r}: model resolves to unknown bundled loader {fn}"
        b = b[0]
        want_x = [float(Fraction(r[0], b["scale"])) for r in b["rows"]]
        want_y = [float(Fraction(r[1], b["scale"])) for r in b["rows"]]
        if io["x"] != want_x or io["y"] != want_y:
            return f"{c['name']!r}: bundled data differ from the table extracted from {b['file']}"
    return None


def oracle(c, io):
    t = tables()
    if c["doc"] is None:
        return None if io.get("err") == "ValueError" else f"unknown dataset name {c['name']!r} not rejected with ValueError: {str(io)[:80]}"
    if "err" in io:
        return f"documented dataset {c['doc']!r} (spelled {c['name']!r}) cannot be loaded: {io['err']}"
    if not io["unpacked"]:
        if len(io["shape"]) != 2 or io["shape"][1] != 2 or io["dtype"] != "float64":
            return f"{c['name']!r}: not a (samples, 2) float array: shape {io['shape']} dtype {io['dtype']}"
    elif not io["tuple"] or len(io["x"]) != len(io["y"]):
        return f"{c['name']!r}: unpacking does not return the two columns"
    if not (np.all(np.isfinite(io["x"])) and np.all(np.isfinite(io["y"]))):
        return f"{c['name']!r}: non-finite values"
    if any(b <= a for a, b in zip(io["x"][:-1], io["x"][1:])):
        return f"{c['name']!r}: first column not strictly increasing"
    is_bundled = c["doc"] in t["documented"].get("sandvine", [])
    if is_bundled:
        if io["urls"]:
            return f"bundled dataset {c['name']!r} triggered a download"
        return None
    if len(io["urls"]) != 1:
        return f"remote dataset {c['name']!r} triggered {len(io['urls'])} downloads"
    others = [r for r in t["remotes"] if r["url"] == io["urls"][0]]
    if len(others) != 1:
        return f"remote dataset {c['name']!r}: URL {io['urls'][0]} is shared by {len(others)} loaders"
    r = others[0]
    want_fn = "fetch_" + c["doc"].replace("-", "_")
    if r["fn"] != want_fn:
        return f"dataset {c['doc']!r} downloaded the file of {r['fn']}"
    if len(io["files"]) != 1:
        return f"remote dataset {c['name']!r}: cache files under TRAFFIC_WEAVER_DATA: {io['files']}"
    for o in t["remotes"]:
        if o is not r and (o["folder"], o["slot"]) == (r["folder"], r["slot"]):
            return f"datasets {r['fn']} and {o['fn']} share the cache slot {r['folder']}/{r['slot']}"
        if o is not r and (o["checksum"] == r["checksum"] or o["filename"] == r["filename"]):
            return f"datasets {r['fn']} and {o['fn']} share a checksum / remote file name"
    return None


def tags(c, io, mo):
    if c["doc"] is None:
        return ["unknown-name", f"error={io.get('err')}"]
    grp = "bundled" if c["name"].startswith("sandvine") else "remote"
    t = [grp, "unpack" if c["unpack"] else "packed", "as-documented" if c["name"] == c["doc"] else "variant"]
    if c.get("home_fs") == "other":
        from ..core import other_filesystem_root
        t.append("data-home-on-another-file-system" if other_filesystem_root() else "data-home-on-another-file-system:none-available")
    return t


def nontrivial_key(c, io, mo):
    return [c["name"], c["unpack"]] if c["doc"] is not None and "err" not in io else None


def matches_known(k, rec):
    return False
