"""C14 - trend, shift, scale and normalise are exact pointwise maps."""
from __future__ import annotations

import math
from fractions import Fraction

import numpy as np

from .. import shapes as S

from ..core import fmt, fmt_list, parse_rats, frac, err_kind, close, exact, floats

ID = "C14"
THREADS = True       # part of the cases run concurrently in threads of one interpreter (the schedule dimension)
MODULES = ["TWV.Properties.C14", "TWV.Tie.Vector", "TWV.Tie.ProcessFns", "TWV.Tie.WeaverStep"]
TRANSLATORS = ["t3_vector", "t10_process", "t9_weaver"]
RULE = ("random series of 2..40 points; trend with callables from a polynomial family (degree <= 2, dyadic coefficients; the "
        "callable records its arguments, which are compared exactly with x_i or x_i/range) through process.trend / "
        "linear_trend / Weaver.trend, normalised or not, a second trend on top (additivity), the zero trend; "
        "Weaver.shift_x/shift_y/scale_x/scale_y with dyadic arguments on working and reference; process.normalize and "
        "Weaver.normalize_x/normalize_y with min_val < max_val. Non-trivial: non-constant data and a non-zero map; "
        "distinct by full input.")
ASSUMPTIONS = ["sinusoid callables are exercised by the oracle only (values are external to the model)"]


def cases(rng, tier):
    n_ = {"quick": 400, "thorough": 5000}.get(tier, 300)
    for _ in range(n_):
        n = rng.randint(2, 40 if rng.random() < 0.3 else 8)
        kind = rng.choice(["trend", "trend", "lintrend", "shiftscale", "normalize", "wnormalize"])
        c = {"kind": kind, "x": [str(v) for v in rng.increasing(n)], "y": [str(v) for v in rng.values(n)]}
        if kind in ("trend", "lintrend"):
            deg = 1 if kind == "lintrend" else rng.randint(0, 2)
            c["coef"] = [str(rng.dyadic(-16, 16, 4)) for _ in range(deg + 1)]
            if kind == "lintrend":
                c["coef"][0] = "0"
            c["coef2"] = [str(rng.dyadic(-16, 16, 4)) for _ in range(rng.randint(1, 3))]
            c["normalized"] = rng.random() < 0.5
            c["argrep"] = S.pick_argrep(rng)      # the flag as the literal, numpy.bool_, a 0-d array, 0 / 1
            c["container"] = rng.choice(["array", "array", "array", "labels"])
            c["via"] = rng.choice(["process", "weaver"])
            if c["via"] == "weaver" and rng.random() < 0.3:
                # a time axis that runs downwards: what scale_x(c) with c < 0 leaves in a Weaver (x_last - x_first < 0)
                c["descend"] = True
                c["x"] = [str(-Fraction(v)) for v in c["x"]]
            c["sin"] = False
            # trends whose values are external to the model (judged by the oracle against y_i + f(x_i))
            c["ext"] = rng.choice([None, None, "sin", "clamp", "step", "intconst", "boolstep", "view", "npstep", "accum"])
        elif kind == "shiftscale":
            c["ops"] = [[rng.choice(["shift_x", "shift_y", "scale_x", "scale_y"]), str(rng.dyadic(-16, 16, 4))]
                        for _ in range(rng.randint(1, 4))]
            for o in c["ops"]:
                if o[0].startswith("scale") and Fraction(o[1]) == 0:
                    o[1] = "2"
                if o[0] == "scale_x" and Fraction(o[1]) < 0:
                    o[1] = str(-Fraction(o[1]))
        else:
            lo = rng.dyadic(-16, 16, 4)
            c["lo"], c["hi"] = str(lo), str(lo + abs(rng.dyadic(1, 32, 4)))
            c["axis"] = rng.choice(["x", "y"])
            if rng.random() < 0.05:
                c["y"] = [c["y"][0]] * n
            r = rng.random()
            if r < 0.2:
                # small spread relative to the magnitude (epoch time stamps, a ripple on a large offset) or tiny values:
                # still non-constant data, exactly representable
                off = Fraction(rng.choice([2 ** 30, 2 ** 33, -2 ** 31]))
                c[c["axis"]] = [str(off + Fraction(v)) for v in c[c["axis"]]]
            elif r < 0.3:
                c[c["axis"]] = [str(Fraction(v) / 2 ** 40) for v in c[c["axis"]]]
            elif r < 0.38 and kind == "normalize":
                # integer readings beyond 2**53 (nanosecond time stamps, large counters): exact as int64, not representable
                # as floats - the affine map must be taken on the integers
                v0, vs = 2 ** 60 + rng.randint(0, 10 ** 6), []
                for _ in range(n):
                    vs.append(v0)
                    v0 += rng.randint(1, 900)
                if c["axis"] == "y":
                    rng.shuffle(vs)
                c[c["axis"]], c["bigint"] = [str(v) for v in vs], True
        yield c


def V(c):
    return [Fraction(v) for v in c["x"]], [Fraction(v) for v in c["y"]]


def poly(cs):
    def f(t):
        acc = 0.0
        for k in reversed(cs):
            acc = float(k) + t * acc
        return acc
    return f


def ext_fun(kind, args):
    """(callable handed to the library, pure reference function on floats); thresholds sit inside the argument range so
    that the first samples fall on one branch and later ones on the other"""
    p = args[len(args) // 3] if args else 0.0
    if kind == "sin":
        return (lambda t: math.sin(3.0 * t)), (lambda t: math.sin(3.0 * t))
    if kind == "clamp":          # a ramp clamped at zero, written with an int literal
        return (lambda t: max(0, 0.75 * (t - p))), (lambda t: max(0.0, 0.75 * (t - p)))
    if kind == "step":           # nothing up to p, then a slope
        return (lambda t: 0 if t <= p else 0.5 * (t - p)), (lambda t: 0.0 if t <= p else 0.5 * (t - p))
    if kind == "npstep":
        return (lambda t: np.where(t <= p, 0, 0.5 * (t - p))), (lambda t: 0.0 if t <= p else 0.5 * (t - p))
    if kind == "intconst":
        return (lambda t: 3), (lambda t: 3.0)
    if kind == "boolstep":       # an indicator
        return (lambda t: t > p), (lambda t: 1.0 if t > p else 0.0)
    if kind == "accum":          # a Horner evaluator that keeps ONE pre-allocated accumulator and hands it back every time
        acc = np.zeros(())

        def horner(t, acc=acc):
            acc[...] = 0.25
            np.multiply(acc, t, out=acc)
            np.add(acc, -1.5, out=acc)
            np.multiply(acc, t, out=acc)
            np.add(acc, 2.0, out=acc)
            return acc
        return horner, (lambda t: (0.25 * t - 1.5) * t + 2.0)
    if kind == "view":           # the identity, handing back a view of its argument when that is an array
        return (lambda t: np.asarray(t).reshape(np.shape(t))), (lambda t: float(t))
    raise ValueError(kind)


def trend_args(c):
    x, _ = V(c)
    xf = floats(x)
    rng_ = xf[-1] - xf[0]
    return [v / rng_ for v in xf] if c["normalized"] else xf


def request(c):
    x, y = V(c)
    k = c["kind"]
    if k in ("trend", "lintrend"):
        nz = 1 if c["normalized"] else 0
        l1 = f"trend {nz} {fmt_list([Fraction(v) for v in c['coef']])} {fmt_list(x)} {fmt_list(y)}"
        both = [Fraction(0)] * max(len(c["coef"]), len(c["coef2"]))
        for i, v in enumerate(c["coef"]):
            both[i] += Fraction(v)
        for i, v in enumerate(c["coef2"]):
            both[i] += Fraction(v)
        l2 = f"trend {nz} {fmt_list(both)} {fmt_list(x)} {fmt_list(y)}"
        return [l1, l2]
    if k == "shiftscale":
        return []
    arr = x if c["axis"] == "x" else y
    return [f"normalize {fmt(Fraction(c['lo']))} {fmt(Fraction(c['hi']))} {fmt_list(arr)}"]


def run_impl(c):
    from traffic_weaver import Weaver
    from traffic_weaver.process import trend, linear_trend, normalize
    x, y = V(c)
    xa, ya = S.arr(floats(x)), S.arr(floats(y))
    k = c["kind"]
    try:
        if k in ("trend", "lintrend"):
            NZ = S.flag(c["normalized"], c.get("argrep", "plain"))
            if c.get("container") == "labels" and c["via"] == "process":
                ya = S.LabelSeries(ya)                 # a column of a sorted data frame (process.* functions only)
            seen = []
            f1 = poly([Fraction(v) for v in c["coef"]])

            def mkW():
                if c.get("descend"):
                    return Weaver(S.arr(floats([-v for v in x])), ya).scale_x(-1.0)
                return Weaver(xa, ya)

            def rec(t):
                seen.append(float(t))
                return f1(t)
            f2 = poly([Fraction(v) for v in c["coef2"]])
            if c["via"] == "process":
                if k == "lintrend":
                    rx, r1 = linear_trend(xa, ya.copy(), float(Fraction(c["coef"][1])), NZ)
                    seen = None
                else:
                    rx, r1 = trend(xa, ya.copy(), rec, NZ)
                _, r2 = trend(xa, np.array(r1), f2, NZ)
                _, r0 = trend(xa, ya.copy(), lambda t: 0.0, NZ)
            else:
                w = mkW().trend(rec, normalized=NZ)
                rx, r1 = w.get()
                r1 = r1.copy()
                r2 = w.trend(f2, normalized=NZ).get()[1]
                r0 = mkW().trend(lambda t: 0.0, normalized=NZ).get()[1]
            out = {"x": [float(v) for v in rx], "y1": [float(v) for v in r1], "y2": [float(v) for v in r2],
                   "y0": [float(v) for v in r0], "seen": seen, "caller_y": [float(v) for v in ya]}
            ext = "sin" if c.get("sin") else c.get("ext")
            if ext:
                g, _ = ext_fun(ext, trend_args(c))
                if c["via"] == "process":
                    out["ext"] = [float(v) for v in trend(xa, ya.copy(), g, NZ)[1]]
                else:
                    w2 = mkW().trend(g, normalized=NZ)
                    out["ext"] = [float(v) for v in w2.get()[1]]
                    out["ext_x"] = [float(v) for v in w2.get()[0]]
                    out["caller_x"] = [float(v) for v in xa]
            return out
        if k == "shiftscale":
            w = Weaver(xa, ya)
            for name, arg in c["ops"]:
                getattr(w, name)(float(Fraction(arg)))
            return {"xy": [[float(v) for v in s] for s in w.get()], "ref": [[float(v) for v in s] for s in w.get_reference()],
                    "orig": [[float(v) for v in s] for s in w.get_original()]}
        lo, hi = float(Fraction(c["lo"])), float(Fraction(c["hi"]))
        arr = xa if c["axis"] == "x" else ya
        import warnings
        with warnings.catch_warnings():
            warnings.simplefilter("ignore")
            if k == "normalize":
                if c.get("bigint"):
                    arr = S.arr([int(Fraction(v)) for v in c[c["axis"]]], dtype=np.int64)
                return {"ok": [float(v) for v in normalize(arr, lo, hi)]}
            w = Weaver(xa, ya)
            getattr(w, "normalize_" + c["axis"])(lo, hi)
            i = 0 if c["axis"] == "x" else 1
            return {"ok": [float(v) for v in w.get()[i]], "ref": [float(v) for v in w.get_reference()[i]],
                    "orig": [float(v) for v in w.get_original()[i]], "other": [float(v) for v in w.get()[1 - i]]}
    except Exception as e:  # noqa
        return {"err": err_kind(e)}


def compare(c, io, mo):
    if "err" in io:
        return f"impl raised {io['err']}"
    x, y = V(c)
    k = c["kind"]
    if k in ("trend", "lintrend"):
        for key, ans in (("y1", mo[0]), ("y2", mo[1])):
            if ans == "nan":
                continue
            mv = parse_rats(ans[3:])
            if not close(io[key], mv):
                return f"trend {key}: impl {io[key][:4]} model {[float(v) for v in mv[:4]]}"
        if not exact(io["x"], x):
            return "trend changed x"
        return None
    if k == "shiftscale":
        X, Y = list(x), list(y)
        for name, arg in c["ops"]:
            a = Fraction(arg)
            if name == "shift_x":
                X = [v + a for v in X]
            elif name == "shift_y":
                Y = [v + a for v in Y]
            elif name == "scale_x":
                X = [v * a for v in X]
            else:
                Y = [v * a for v in Y]
        ok = exact(io["xy"][0], X) and exact(io["xy"][1], Y) and exact(io["ref"][0], X) and exact(io["ref"][1], Y) \
            and exact(io["orig"][0], x) and exact(io["orig"][1], y)
        return None if ok else "shift/scale: working / reference / original differ from the exact pointwise maps"
    ans = mo[0]
    if ans == "nan":
        return None if not all(np.isfinite(io["ok"])) else "normalize: constant data but finite result"
    mv = parse_rats(ans[3:])
    if not close(io["ok"], mv):
        return f"normalize: impl {io['ok'][:4]} model {[float(v) for v in mv[:4]]}"
    if k == "wnormalize":
        if not (close(io["ref"], mv) and close(io["orig"], mv)):
            return "Weaver.normalize_*: reference / original not normalised alike"
        other = y if c["axis"] == "x" else x
        if not exact(io["other"], other):
            return "Weaver.normalize_* changed the other axis"
    return None


def oracle(c, io):
    if "err" in io:
        return f"raised {io['err']}"
    x, y = V(c)
    xf, yf = floats(x), floats(y)
    k = c["kind"]
    if k in ("trend", "lintrend"):
        rng_ = xf[-1] - xf[0]
        args = [v / rng_ for v in xf] if c["normalized"] else xf
        if io["seen"] is not None and io["seen"] != args:
            return f"trend callable was called with {io['seen'][:4]}, expected {args[:4]}"
        f1 = poly([Fraction(v) for v in c["coef"]])
        f2 = poly([Fraction(v) for v in c["coef2"]])
        tol = 1e-9 * max(1.0, max(abs(v) for v in io["y2"]))
        for i in range(len(xf)):
            if abs(io["y1"][i] - (yf[i] + f1(args[i]))) > tol:
                return f"trend: y[{i}] = {io['y1'][i]}, y + f(x) = {yf[i] + f1(args[i])}"
            if abs(io["y2"][i] - (yf[i] + f1(args[i]) + f2(args[i]))) > tol:
                return "two trends do not add up"
        if io["y0"] != yf:
            return "zero trend is not the identity"
        if io["x"] != xf:
            return "trend changed x"
        if io["caller_y"] != yf:
            return "trend modified the caller's y array"
        ext = "sin" if c.get("sin") else c.get("ext")
        if ext and "ext" in io:
            _, ref = ext_fun(ext, args)
            tol2 = 1e-9 * max(1.0, max(abs(v) for v in io["ext"]), max(abs(v) for v in yf))
            for i in range(len(xf)):
                if abs(io["ext"][i] - (yf[i] + ref(args[i]))) > tol2:
                    return (f"trend '{ext}': y[{i}] = {io['ext'][i]}, y + f(x) = {yf[i] + ref(args[i])} "
                            f"(f(x_i) = {ref(args[i])} is not added pointwise)")
            if "ext_x" in io and (io["ext_x"] != xf or io["caller_x"] != xf):
                return f"trend '{ext}' changed the abscissae (or the caller's x array)"
        return None
    if k == "shiftscale":
        return None   # exact pointwise maps are checked in compare against exact arithmetic
    arr = xf if c["axis"] == "x" else yf
    if c.get("bigint"):
        arr = list(x if c["axis"] == "x" else y)       # exact: floats would merge neighbouring readings
    if len(set(arr)) < 2:
        return None
    lo, hi = float(Fraction(c["lo"])), float(Fraction(c["hi"]))
    r = io["ok"]
    tol = 1e-9 * max(1.0, abs(lo), abs(hi))
    if abs(r[arr.index(min(arr))] - lo) > tol or abs(r[arr.index(max(arr))] - hi) > tol:
        return f"normalize: min -> {r[arr.index(min(arr))]}, max -> {r[arr.index(max(arr))]}, expected {lo}, {hi}"
    for i in range(len(arr)):
        for j in range(len(arr)):
            if arr[i] < arr[j] and not r[i] < r[j] + tol:
                return "normalize does not preserve order"
    return None


def tags(c, io, mo):
    t = [f"kind={c['kind']}"]
    if "via" in c:
        t += [f"via={c['via']}", "normalized" if c["normalized"] else "plain"]
    if "axis" in c:
        t.append(f"axis={c['axis']}")
    return t


def nontrivial_key(c, io, mo):
    return c if "err" not in io and len(set(c["y"])) > 1 else None


def matches_known(k, rec):
    return False
