"""C04 - recreated series has an exact n-fold grid structure."""
from __future__ import annotations

from fractions import Fraction

import numpy as np

from .. import rfa_common as R
from ..core import frac

ID = "C04"
THREADS = True       # part of the cases run concurrently in threads of one interpreter (the schedule dimension)
MODULES = ["TWV.Tie.ArrayHelpers", "TWV.Properties.RfaImp", "TWV.Tie.RfaLoops", "TWV.Properties.C04", "TWV.Tie.RfaParams", "TWV.Tie.SmoothGlue"]
TRANSLATORS = ["t8_arrays", "t4_rfaloops", "t12_rfaparams", "t15_smoothglue"]
RULE = ("random cases over all six strategies plus a user-supplied sampling function: m in 2..20 (thorough: every (m,n) with "
        "m<=12, n<=16 per strategy and random m<=60, n<=64), integer or float, uniform or lattice-random x, parameters in "
        "the documented ranges (alpha dyadic in (0,1] or explicit a in 0..n, beta in [0,1], exponents, smoothing), plus "
        "invalid factors n in {1,0,-3,1.5}. Non-trivial: m >= 3 and non-constant y; distinct by full input.")
ASSUMPTIONS = ["CubicSpline / user function values are external: only their grid, container and length are compared"]


def cases(rng, tier):
    if tier == "quick":
        for _ in range(600):
            yield R.gen_case(rng)
        nbad = 40
    elif tier == "thorough":
        for s in R.ALL:
            for m in range(2, 13):
                for n in range(2, 17):
                    c = R.gen_case(rng, strategies=[s], max_m=m, max_n=n)
                    yield c
        for _ in range(3000):
            yield R.gen_case(rng, max_m=60, max_n=64)
        nbad = 300
    else:
        for _ in range(400):
            yield R.gen_case(rng, max_m=10, max_n=10)
        nbad = 30
    for _ in range(nbad):
        c = R.gen_case(rng, max_m=6, max_n=6)
        c["n"] = rng.choice([1, 0, -3, 1.5])
        c["bad_n"] = True
        if "a" in c and c["a"] is not None:
            c["a"] = 1
        yield c


def run_impl(c):
    return R.run_impl(c)


def request(c):
    if c.get("bad_n"):
        return ["rfa pc 1 0 1,2 1,2 - - - -"]
    io = R.run_impl(c)
    lines, kinds = R.requests(c, io)
    c["_kinds"] = kinds
    return lines


def compare(c, io, mo):
    if c.get("bad_n"):
        return None if io.get("err") == "ValueError" and mo[0] == "ERR ValueError" else f"n={c['n']}: impl {io}, model {mo[0]}"
    return R.compare(c, io, mo, c["_kinds"])


def oracle(c, io):
    if c.get("bad_n"):
        return None if io.get("err") == "ValueError" else f"oversampling factor {c['n']} not rejected with ValueError: {str(io)[:100]}"
    if "err" in io:
        return f"valid request raised {io['err']}"
    x, y = R.series(c)
    m, n = len(x), c["n"]
    L = (m - 1) * n + 1
    if io["type_x"] != "ndarray" or io["type_y"] != "ndarray":
        return f"{c['strategy']}: returned containers are {io['type_x']}/{io['type_y']}, not NumPy arrays"
    if io["ndim_x"] != 1 or io["ndim_y"] != 1:
        return f"not one-dimensional: ndim {io['ndim_x']}/{io['ndim_y']}"
    if io["len_x"] != L or io["len_y"] != L:
        return f"lengths {io['len_x']}/{io['len_y']} instead of (m-1)*n+1 = {L}"
    xs, ys = io["xs"], io["ys"]
    if not (np.all(np.isfinite(xs)) and np.all(np.isfinite(ys))):
        return "non-finite values"
    knots = xs[::n]
    if [frac(v) for v in knots] != [Fraction(float(v)) for v in x]:
        return f"every n-th abscissa is not an original abscissa bit for bit"
    for k in range(m - 1):
        seg = xs[k * n:(k + 1) * n + 1]
        d = np.diff(seg)
        if not np.all(d > 0):
            return f"abscissae not strictly increasing in interval {k}"
        step = (float(x[k + 1]) - float(x[k])) / n
        if np.max(np.abs(d - step)) > 1e-9 * max(1.0, abs(step)):
            return f"abscissae of interval {k} not equally spaced"
    return None


def tags(c, io, mo):
    t = [f"strategy={c['strategy']}", f"n~{min(c['n'] // 8 * 8, 64) if not c.get('bad_n') else 'bad'}",
         "int_x" if c.get("int_x") else "float_x"]
    if "err" in io:
        t.append(f"error={io['err']}")
    if R.unmodelled(mo):
        t.append("unmodelled")
    elif R.closed_form_unmodelled(mo):
        t.append("overlapping-windows:imperative-model-only")
    return t


def nontrivial_key(c, io, mo):
    if c.get("bad_n") or "err" in io:
        return None
    if len(c["x"]) >= 3 and len(set(c["y"])) > 1:
        return {k: v for k, v in c.items() if not k.startswith("_")}
    return None


def matches_known(k, rec):
    return False
