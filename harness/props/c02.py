"""C02 - recreate + match preserves every original average (averaging round trip)."""
from __future__ import annotations

import warnings
from fractions import Fraction

import numpy as np

from .. import weaver_common as W
from .. import rfa_common as R

ID = "C02"
THREADS = True       # part of the cases run concurrently in threads of one interpreter (the schedule dimension)
MODULES = ["TWV.Properties.C02", "TWV.Tie.Funfit", "TWV.Tie.MatchFlow", "TWV.Tie.WeaverStep"]
TRANSLATORS = ["t1_funfit", "t11_match", "t9_weaver"]
RULE = ("pipelines Weaver(x, y)[.append_one_sample(p)].recreate_from_average(n, C, **kw).integral_match(target, 'rectangle') "
        "on random series of 2..20 points (thorough: ..60 and every bundled dataset x 6 strategies x n in {2,3,10,60}), "
        "uniform / non-uniform, six strategies with parameters in the documented ranges, n in 2..12 (thorough ..64), both "
        "target rules, all three fixed-point strategies; after every step the three series are compared with the model; "
        "process.average on the result. Non-trivial: m >= 3, non-constant y; distinct by program.")
ASSUMPTIONS = ["cubic-spline values are external data (the theorem holds for ANY recreated values)"]


def gen(rng, max_m, max_n):
    c = W.gen_init(rng, 2, max_m)
    c["x_none"] = False
    ops = []
    if rng.random() < 0.5:
        ops.append({"op": "append", "periodic": rng.random() < 0.5})
    rec = W.gen_reshape_op(rng, ["recreate"])
    rec["n"] = rng.randint(2, max_n)
    ops.append(rec)
    # requests that are refused (and caught by the application) in between must not leave anything behind
    for _ in range(rng.choice([0, 0, 0, 1, 1, 2])):
        ops.insert(rng.randint(0, len(ops)), W.gen_fail_op(rng))
    ops.append({"op": "match", "target": rng.choice(["trapezoid", "rectangle"]), "ref": "rectangle",
                "alpha": rng.choice([1, 2, 3]), "strategy": rng.choice(["closest", "closest", "lower", "higher"])})
    c["ops"] = ops
    if rng.random() < 0.2 and not c.get("int_y") and not c.get("int_x"):
        # the series comes as a two-column table (Weaver.from_2d_array): also the shortest one, two rows
        c["from2d"] = True
        if rng.random() < 0.4:
            c["x"], c["y"] = c["x"][:2], c["y"][:2]
            if c["y"][0] == c["y"][1]:
                c["y"][1] = str(Fraction(c["y"][1]) + 1)
    if rng.random() < 0.15 and len(c["y"]) >= 4:
        # one reading many orders of magnitude above the rest, early in the series (a fill value, a burst): every later
        # interval's average is still a local quantity
        c["y"][rng.choice([0, 1])] = str(rng.choice([6 * 10 ** 17, 3 * 10 ** 18, -2 * 10 ** 17, 2 ** 62]))
        c["int_y"] = False
        c["spike"] = True
    return c


def cases(rng, tier):
    if tier == "quick":
        for _ in range(150):
            yield gen(rng, 20, 12)
    elif tier == "thorough":
        for _ in range(2500):
            yield gen(rng, 60, 64)
        from traffic_weaver.datasets import load_dataset
        from .c18 import tables
        for name in tables()["documented"].get("sandvine", []):
            d = load_dataset(name)
            for s in W.STRATS:
                for n in (2, 3, 10, 60):
                    c = {"x": [str(Fraction(float(v))) for v in d[:, 0]], "y": [str(Fraction(float(v))) for v in d[:, 1]],
                         "as_list": False, "int_x": False, "x_none": False, "dataset": name}
                    rec = {"op": "recreate", "strategy": s, "n": n}
                    if s in R.WINDOW:
                        rec["alpha"] = "1"
                        if s.startswith("exp"):
                            rec["beta"] = "1/2"
                            rec["exp"] = 2
                        if s.endswith("adaptive"):
                            rec["smooth"] = 1
                    c["ops"] = [{"op": "append", "periodic": True}, rec,
                                {"op": "match", "target": rng.choice(["trapezoid", "rectangle"]), "ref": "rectangle",
                                 "alpha": 1, "strategy": "closest"}]
                    yield c
    else:
        for _ in range(120):
            yield gen(rng, 10, 8)


def run_impl(c):
    io = W.run_program(c)
    c["_lines"] = io["lines"]
    last = io["steps"][-1]
    if "state" in last and "err" not in last:
        from traffic_weaver.process import average
        n = [o for o in c["ops"] if o["op"] == "recreate"][0]["n"]
        with warnings.catch_warnings():
            warnings.simplefilter("ignore")
            ax, ay = average(np.array(last["state"]["x"]), np.array(last["state"]["y"]), n)
        io["avg"] = [[float(v) for v in ax], [float(v) for v in ay]]
    return io


def request(c):
    return c["_lines"]


def compare(c, io, mo):
    return W.compare_program(c, io, mo)


def oracle(c, io):
    steps = io["steps"]
    bad = W.accepted_invalid(io)
    if bad:
        return bad
    if any("err" in s for s in steps):
        e = [s["err"] for s in steps if "err" in s][0]
        return f"valid recreate + match pipeline raised {e}"
    names = [o["op"] for o in c["ops"]]
    ir = names.index("recreate") + 1
    before = steps[ir - 1]["state"]
    after = steps[-1]["state"]
    n = c["ops"][ir - 1]["n"]
    target = c["ops"][-1]["target"]
    rx, ry = before["x"], before["y"]
    xs, ys = after["x"], after["y"]
    m = len(rx)
    if len(xs) != (m - 1) * n + 1 or not np.all(np.isfinite(ys)):
        return f"pipeline result has length {len(xs)} / non-finite values"
    if after["rx"] != before["x"] or after["ry"] != before["y"]:
        return "the reference is not the untouched series the pipeline started from"
    scale = max([abs(v) for v in ry] + [abs(v) for v in ys] + [1e-300])     # relative to the data's own magnitude

    def local(q):
        """... of the interval itself (a spike elsewhere in the series must not hide an interval that lost its average)"""
        pre = steps[-2]["state"]["y"] if len(steps) >= 2 and "state" in steps[-2] else []     # the recreated values the
        # match started from: what it subtracts from them is as inexact as they are large
        return max([abs(v) for v in ys[q * n:(q + 1) * n + 1]] + [abs(v) for v in pre[q * n:(q + 1) * n + 1]]
                   + [abs(ry[q]), abs(ry[min(q + 1, m - 1)]), 1e-300])
    for q in range(m - 1):
        sx, sy = xs[q * n:(q + 1) * n + 1], ys[q * n:(q + 1) * n + 1]
        if target == "trapezoid":
            integ = sum((sy[j] + sy[j + 1]) / 2 * (sx[j + 1] - sx[j]) for j in range(n))
        else:
            integ = sum(sy[j] * (sx[j + 1] - sx[j]) for j in range(n))
        mean = integ / (rx[q + 1] - rx[q])
        if abs(mean - ry[q]) > 1e-7 * local(q):
            return (f"mean of the result over original interval {q} under the {target} rule is {mean!r}, the original "
                    f"average is {ry[q]!r}")
    if target == "rectangle" and "avg" in io:
        ax, ay = io["avg"]
        if ax != rx:
            return "block averaging does not return the original abscissae exactly"
        for q in range(m - 1):
            if abs(ay[q] - ry[q]) > 1e-7 * local(q):
                return f"block average {q} is {ay[q]!r}, original average {ry[q]!r}"
    return None


def tags(c, io, mo):
    t = [f"strategy={[o for o in c['ops'] if o['op'] == 'recreate'][0]['strategy']}", f"target={c['ops'][-1]['target']}",
         f"search={c['ops'][-1]['strategy']}", "append" if any(o["op"] == "append" for o in c["ops"]) else "no-append",
         f"refused-requests-in-between={sum(1 for o in c['ops'] if o['op'] == 'fail')}"]
    if "dataset" in c:
        t.append("bundled-dataset")
    return t


def nontrivial_key(c, io, mo):
    if len(c["x"]) >= 3 and not any("err" in s for s in io["steps"]):
        return {"x": c["x"], "y": c["y"], "ops": [{k: v for k, v in o.items() if not k.startswith("_")} for o in c["ops"]]}
    return None


def matches_known(k, rec):
    return False
