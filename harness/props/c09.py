"""C09 - Weaver state stays well-formed; caller data and the original are never corrupted."""
from __future__ import annotations

import copy
from fractions import Fraction

import numpy as np

from .. import scenarios as SC

from .. import weaver_common as W
from ..core import floats

ID = "C09"
THREADS = True       # part of the cases run concurrently in threads of one interpreter (the schedule dimension)
MODULES = ["TWV.Tie.WeaverEffects", "TWV.Properties.C09", "TWV.Tie.WeaverStep", "TWV.Tie.WeaverIO"]
TRANSLATORS = ["t6_effects", "t9_weaver", "t14_weaverio"]
RULE = ("random programs of <= 10 operations over the whole public API (17 kinds: append, shift x/y, scale x/y, normalise x/y, "
        "repeat, truncate by value / index, recreate (6 strategies), integral_match, interpolate (4 methods, n or explicit "
        "grid, list or array), smooth, trend, noise, restore_original) that respect the documented preconditions, on series "
        "of 4..12 points given as lists or arrays; after every step values, container types, ndim and the caller's arrays are "
        "compared with the model; the continuation after restore_original is also executed on a newly constructed object. "
        "Non-trivial: >= 3 operations incl. a reshaping one; distinct by program.")
ASSUMPTIONS = ["values produced by SciPy (smooth, cubic/spline) and the scripted noise draw are external data in the model"]


def gen(rng):
    c = W.gen_init(rng, 4, 12)
    ops = []
    L = rng.randint(1, 10)
    have_restore = False
    for i in range(L):
        r = rng.random()
        if r < 0.45:
            op = W.gen_domain_op(rng)
            if op["op"] == "trunc_v":
                op["fa"], op["fb"] = str(Fraction(rng.randint(0, 3), 16)), str(Fraction(rng.randint(12, 16), 16))
                if op["lk"] == "out" and op["rk"] == "out":
                    op["lk"] = "mid"
            if op["op"] == "trunc_i":
                op["safe"] = True
        elif r < 0.9:
            op = W.gen_reshape_op(rng)
            if op["op"] == "recreate":
                op["n"] = rng.randint(2, 3)
            if op["op"] == "interp" and "n" in op:
                op["n"] = rng.randint(4, 30)
            if op["op"] == "interp" and "grid" in op and rng.random() < 0.5:
                op["same_len"] = True      # a grid with as many points as the series has (buffers could be reused)
                op["as_list"] = False
        else:
            op = {"op": "restore"}
            have_restore = True
        ops.append(op)
    if not have_restore and rng.random() < 0.5 and len(ops) < 10:
        ops.insert(rng.randrange(len(ops) + 1), {"op": "restore"})
    # refused requests (caught by the application) and in-place edits of the arrays get() handed out, anywhere
    c["ops"] = W.sprinkle(rng, ops, 0.12, 0.1)
    return c


def cases(rng, tier):
    for c in _cases(rng, tier):
        if isinstance(c, dict) and "ops" in c:
            for op in c["ops"]:
                if isinstance(op, dict) and op.get("op") == "recreate" and op.get("strategy") == "cubic" and rng.random() < 0.5:
                    # a user-supplied sampling function instead of the default spline: a polynomial, or one that ignores
                    # where it is asked and returns a plain number (called point by point it fills the series)
                    op["strategy"] = "function"
                    op["supplier"] = rng.choice(["const", "poly"])
        yield c


def _cases(rng, tier):
    for _sc in range(6 if tier != "thorough" else 60):
        yield SC.gen(rng, ['csv_twice', 'readonly_view_base'][_sc % 2])
    n_ = {"quick": 300, "thorough": 5000}.get(tier, 200)
    # systematically: every operation kind as the ONLY step before restore_original, then one more step
    for kind in W.DOMAIN + W.RESHAPE:
        for _ in range(1 if tier != "thorough" else 5):
            c = W.gen_init(rng, 5, 10)
            op = W.gen_domain_op(rng, [kind]) if kind in W.DOMAIN else W.gen_reshape_op(rng, [kind])
            if op["op"] == "trunc_i":
                op["safe"] = True
            if op["op"] == "recreate":
                op["n"] = 2
            c["ops"] = [op, {"op": "restore"}, W.gen_domain_op(rng, ["shift_y", "append", "repeat"])]
            if rng.random() < 0.5:
                # right after the restore the caller edits, in place, what get() hands out: working series only -
                # the restored reference and the original are their own arrays
                c["ops"].insert(2, W.gen_poke_op(rng))
            yield c
    for _ in range(n_):
        yield gen(rng)


def run_impl(c):
    if isinstance(c, dict) and "scenario" in c:
        return SC.run(c)
    io = W.run_program(c)
    c["_lines"] = io["lines"]
    # restore == fresh object: run the continuation after the last restore on a new Weaver
    names = [o["op"] for o in c["ops"]]
    if "restore" in names:
        r = len(names) - 1 - names[::-1].index("restore")
        if r + 1 < len(io["steps"]) and "state" in io["steps"][r + 1] and "err" not in io["steps"][r + 1]:
            st = io["steps"][r + 1]["state"]
            c2 = {"x": [str(Fraction(v)) for v in st["ox"]], "y": [str(Fraction(v)) for v in st["oy"]],
                  "as_list": False, "int_x": False, "x_none": False, "ops": copy.deepcopy(c["ops"][r + 1:])}
            io2 = W.run_program(c2)
            io["fresh"] = {"from": r + 1, "steps": io2["steps"]}
    return io


def request(c):
    if isinstance(c, dict) and "scenario" in c:
        return []
    return c["_lines"]


def compare(c, io, mo):
    if isinstance(c, dict) and "scenario" in c:
        return None
    return W.compare_program(c, io, mo)


def oracle(c, io):
    if isinstance(c, dict) and "scenario" in c:
        return io.get("finding")
    steps = io["steps"]
    if "err" in steps[0]:
        return f"valid constructor raised {steps[0]['err']}"
    bad = W.accepted_invalid(io)
    if bad:
        return bad
    prev = None
    for i, st in enumerate(steps):
        k = c["ops"][i - 1]["op"] if i > 0 else "init"
        if "err" in st:
            if st["err"] in ("IndexError", "StopIteration") and k in ("append", "match"):
                return None     # the reference was emptied by an earlier cut: precondition of this operation not met
            return f"step {i}: valid operation {k} raised {st['err']}"
        s = st["state"]
        for key in ("x", "y"):
            if s["types"][key] != "ndarray" or s["ndim"][key] != 1:
                return f"step {i} ({k}): {key} is a {s['types'][key]} with ndim {s['ndim'][key]}, not a 1-D NumPy array"
        if s["x"] is None or s["y"] is None or len(s["x"]) != len(s["y"]):
            return f"step {i} ({k}): x and y have different lengths"
        if not (np.all(np.isfinite(s["x"])) and np.all(np.isfinite(s["y"]))):
            if k in ("norm_y",) or any(o["op"] in ("norm_y", "norm_x") for o in c["ops"][:i]):
                return None      # normalising constant data divides by zero: outside the precondition
            return f"step {i} ({k}): non-finite values"
        if any(b <= a for a, b in zip(s["x"][:-1], s["x"][1:])):
            return f"step {i} ({k}): abscissae not strictly increasing"
        if prev is not None and k not in ("norm_x", "norm_y") and (s["ox"] != prev["ox"] or s["oy"] != prev["oy"]):
            return f"step {i} ({k}): the stored original changed"
        for j, cv in enumerate(s["caller"]):
            if cv is not None and prev is not None and cv != prev["caller"][j]:
                return f"step {i} ({k}): an array handed in by the caller was modified"
        if not all(s.get("handed_in_intact", [])):
            return f"step {i} ({k}): an array handed in by the caller (the grid given to interpolate) was modified"
        if k == "restore":
            if s["x"] != s["ox"] or s["y"] != s["oy"] or s["rx"] != s["ox"] or s["ry"] != s["oy"]:
                return f"step {i}: after restore_original working / reference differ from get_original()"
        prev = s
    fr = io.get("fresh")
    if fr:
        a = steps[fr["from"]:]
        b = fr["steps"]
        for j, (sa, sb) in enumerate(zip(a, b)):
            if ("err" in sa) != ("err" in sb) or sa.get("err") != sb.get("err"):
                return f"after restore_original, operation {j} behaves differently from a newly constructed object: {sa.get('err')} vs {sb.get('err')}"
            if "state" in sa and "state" in sb:
                for key in W.KEYS:
                    u, v = sa["state"][key], sb["state"][key]
                    if u is None or v is None or len(u) != len(v) or not np.allclose(u, v, rtol=1e-12, atol=1e-12, equal_nan=True):
                        return (f"after restore_original, {key} after continuation step {j} differs from the same program on "
                                f"a newly constructed object")
    return None


def tags(c, io, mo):
    if isinstance(c, dict) and "scenario" in c:
        return ["scenario=" + c["scenario"]]
    t = [f"len={len(c['ops'])}", "list-input" if c["as_list"] else "array-input"]
    for o in c["ops"]:
        t.append(f"op={o['op']}")
    for st in io["steps"]:
        if "err" in st:
            t.append(f"error={st['err']}")
    if "fresh" in io:
        t.append("restore-continuation")
    return t


def nontrivial_key(c, io, mo):
    if isinstance(c, dict) and "scenario" in c:
        return c
    names = [o["op"] for o in c["ops"]]
    if len(names) >= 3 and any(n in W.RESHAPE for n in names) and not any("err" in s for s in io["steps"]):
        return {"x": c["x"], "y": c["y"], "ops": [{k: v for k, v in o.items() if not k.startswith("_")} for o in c["ops"]]}
    return None


def matches_known(k, rec):
    return False
