"""C06 - transitions follow the documented geometry and shape functions."""
from __future__ import annotations

from fractions import Fraction

import numpy as np

from .. import rfa_common as R
from ..core import fmt, frac, floats, pw_field, err_kind

ID = "C06"
THREADS = True       # part of the cases run concurrently in threads of one interpreter (the schedule dimension)
MODULES = ["TWV.Properties.RfaImp", "TWV.Tie.RfaLoops", "TWV.Properties.C06", "TWV.Tie.Funfit", "TWV.Tie.RfaParams"]
TRANSLATORS = ["t4_rfaloops", "t1_funfit", "t12_rfaparams"]
TIE = ("translator T1 regenerates the five shape functions from funfit.py's AST; TWV.Tie.Funfit proves them equal to the hand "
       "model; plus differential correspondence on funfit.* and on the four window strategies")
RULE = ("(a) the five funfit functions at lattice arguments x0 < x < x1 (and at both end points) with exponents 1..3 computed by "
        "the model and {0.05, 0.5, 1.5, 2.5, 5} through the power table; (b) the four window strategies as in C05 with adaptive "
        "smoothing fixed at 1, checking border values, straight-line / blend shapes and the adaptive split on the real "
        "outputs. Non-trivial: strictly interior argument resp. a series with a non-zero jump; distinct by full input.")
ASSUMPTIONS = ["adaptive smoothing is fixed at its default 1 (where documentation and code agree), as the property says"]
FUNCS = ["lin_fit", "exp_fit", "exp_xy_fit", "exp_lin_fit", "lin_exp_xy_fit"]


def cases(rng, tier):
    nf, ns = {"quick": (500, 400), "thorough": (6000, 5000)}.get(tier, (300, 250))
    for _ in range(nf):
        x0 = rng.dyadic(-40, 40, 4)
        x1 = x0 + rng.choice([Fraction(1, 4), Fraction(1), Fraction(5, 2), Fraction(7)])
        k = rng.randint(0, 16)
        x = x0 + (x1 - x0) * Fraction(k, 16)
        yield {"fun": rng.choice(FUNCS), "x": str(x), "x0": str(x0), "y0": str(rng.dyadic()), "x1": str(x1),
               "y1": str(rng.dyadic()), "exp": rng.choice([1, 2, 3, 0.05, 0.5, 1.5, 2.5, 5])}
    for i in range({"quick": 2, "thorough": 6}.get(tier, 1)):
        # a few intervals with thousands of samples each (far beyond the documented range of n): the shapes are the same
        c = R.gen_case(rng, strategies=["expfixed", "expadaptive"] if i < 2 else ["expfixed", "expadaptive", "linfixed"],
                       max_m=3, max_n=24)
        c.update({"n": rng.choice([4096, 6000, 8192]), "alpha": "1", "a": None, "objhist": "same", "call": "keyword",
                  "argrep": "plain", "layout": "contig,contig,contig", "hist": "none"})
        if c["strategy"].startswith("exp"):
            c.update({"beta": rng.choice(["0", "1/4"]), "exp": rng.choice([3, 3, 4])})
        if "smooth" in c:
            c["smooth"] = 1
        yield c
    for _ in range(ns):
        c = R.gen_case(rng, strategies=R.WINDOW, max_m=14, max_n=24)
        if "smooth" in c:
            c["smooth"] = 1
        yield c


def run_impl(c):
    if "fun" in c:
        from traffic_weaver import funfit
        args = [float(Fraction(c[k])) for k in ("x", "x0", "y0", "x1", "y1")]
        f = getattr(funfit, c["fun"])
        try:
            if c["fun"] == "lin_fit":
                return {"ok": float(f(args[0], (args[1], args[2]), (args[3], args[4])))}
            return {"ok": float(f(args[0], (args[1], args[2]), (args[3], args[4]), c["exp"]))}
        except Exception as e:  # noqa
            return {"err": err_kind(e)}
    return R.run_impl(c)


def request(c):
    if "fun" in c:
        x, x0, x1 = Fraction(c["x"]), Fraction(c["x0"]), Fraction(c["x1"])
        s = (x - x0) / (x1 - x0)
        pw = pw_field(c["exp"], [s, 1 - s])
        return f"funfit {c['fun']} {pw} {fmt(x)} {fmt(x0)} {fmt(Fraction(c['y0']))} {fmt(x1)} {fmt(Fraction(c['y1']))}"
    io = R.run_impl(c)
    lines, kinds = R.requests(c, io)
    c["_kinds"] = kinds
    return lines


def compare(c, io, mo):
    if "fun" in c:
        if "err" in io:
            return f"{c['fun']} raised {io['err']}"
        mv = Fraction(mo[0][3:])
        return None if abs(io["ok"] - float(mv)) <= 1e-9 * max(1, abs(float(mv))) else f"{c['fun']}: impl {io['ok']} model {float(mv)}"
    return R.compare(c, io, mo, c["_kinds"])


def closed(fun, s, e):
    if fun == "lin_fit":
        return s
    if fun == "exp_fit":
        return s ** e
    if fun == "exp_xy_fit":
        return 1 - (1 - s) ** e
    if fun == "exp_lin_fit":
        return s * s + (s ** e) * (1 - s)
    return s * (1 - (1 - s) ** e) + s * (1 - s)


def oracle(c, io):
    if "err" in io:
        return f"raised {io['err']}"
    if "fun" in c:
        x, x0, y0, x1, y1 = [float(Fraction(c[k])) for k in ("x", "x0", "y0", "x1", "y1")]
        s = (x - x0) / (x1 - x0)
        want = y0 + (y1 - y0) * closed(c["fun"], s, c["exp"])
        if abs(io["ok"] - want) > 1e-9 * max(1.0, abs(want)):
            return f"{c['fun']}(x={x}, ({x0},{y0}), ({x1},{y1}), exponent {c['exp']}) = {io['ok']!r}, documented closed form {want!r}"
        return None
    x, y = R.series(c)
    yf = floats(y)
    m, n, s = len(x), c["n"], c["strategy"]
    xs, ys = io["xs"], io["ys"]
    aL, aR, bL, bR = io["aL"], io["aR"], io["bL"], io["bR"]
    e = c.get("exp", 1)
    tol = 1e-8 * max(1.0, max(abs(v) for v in yf))
    Y = [yf[min(max(k - 1, 0), m - 1)] for k in range(m + 2)]

    def X(k, i):          # extended position (k, i) for positions inside the returned range
        return xs[(k - 1) * n + i]

    def lin(t, p0, p1):
        return p0[1] + (p1[1] - p0[1]) * (t - p0[0]) / (p1[0] - p0[0])
    for k in range(2, m):                   # interior borders between extended intervals k-1 and k
        if s.endswith("fixed") or (aL[k] >= 1 and aR[k - 1] >= 1):
            if aL[k] >= 1:
                z0 = lin(X(k, 0), (X(k - 1, n - aR[k - 1]), Y[k - 1]), (X(k, aL[k]), Y[k]))
                if abs(ys[(k - 1) * n] - z0) > tol:
                    return (f"{s}: value at the border before interval {k-1} is {ys[(k-1)*n]!r}; linear interpolation "
                            f"between the plateau ends gives {z0!r}")
    for k in range(1, m):
        base = (k - 1) * n
        if k == 1:
            continue
        z0 = ys[base]
        if s.startswith("lin"):
            for i in range(1, aL[k]):
                want = lin(X(k, i), (X(k, 0), z0), (X(k, aL[k]), Y[k]))
                if abs(ys[base + i] - want) > tol:
                    return f"{s}: left transition of interval {k-1} is not a straight line at sample {i}"
        else:
            b, a = bL[k], aL[k]
            if a >= 1:
                zlb = lin(X(k, b), (X(k, 0), z0), (X(k, a), Y[k])) if b > 0 else z0
                for i in range(0, b):
                    want = lin(X(k, i), (X(k, 0), z0), (X(k, b), zlb))
                    if abs(ys[base + i] - want) > tol:
                        return f"{s}: linear piece of the left transition of interval {k-1} wrong at sample {i}"
                for i in range(b, a):
                    sv = (X(k, i) - X(k, b)) / (X(k, a) - X(k, b))
                    want = zlb + (Y[k] - zlb) * closed("lin_exp_xy_fit", sv, e)
                    if abs(ys[base + i] - want) > tol:
                        return (f"{s}: blend piece of the left transition of interval {k-1} at sample {i}: {ys[base+i]!r}, "
                                f"documented linear/power blend {want!r}")
    if s.endswith("adaptive"):
        a = io["a"]
        for k in range(1, m):
            nom, den = abs(Y[k + 1] - Y[k]), abs(Y[k] - Y[k - 1])
            if nom > 0 and den > 0:
                if nom > den and aR[k] > aL[k]:
                    return f"{s}: interval {k-1}: right jump {nom} > left jump {den} but right window {aR[k]} > left window {aL[k]}"
                if den > nom and aL[k] > aR[k]:
                    return f"{s}: interval {k-1}: left jump {den} > right jump {nom} but left window {aL[k]} > right window {aR[k]}"
                g = nom / den
                for got, share in ((aL[k], g * a / (1 + g)), (aR[k], a / (1 + g))):
                    sh = min(max(share, 1), a)
                    if abs(sh - round(sh)) > 1e-9 and got != int(sh):
                        return f"{s}: interval {k-1}: window {got} is not the floored share {sh}"
    return None


def tags(c, io, mo):
    if "fun" in c:
        return [f"fun={c['fun']}", f"exp={c['exp']}"]
    return [f"strategy={c['strategy']}"] + ([f"exp={c['exp']}"] if "exp" in c else [])


def nontrivial_key(c, io, mo):
    if "err" in io:
        return None
    if "fun" in c:
        return c if c["x"] not in (c["x0"], c["x1"]) else None
    return {k: v for k, v in c.items() if not k.startswith("_")} if len(set(c["y"])) > 1 else None


def matches_known(k, rec):
    return False
