"""C10 - nearest-sample search returns the defined neighbour for every query."""
from __future__ import annotations

import itertools
import math
from fractions import Fraction

import numpy as np

from .. import shapes as S

from ..core import fmt_list, parse_ints, frac, err_kind

ID = "C10"
THREADS = True       # part of the cases run concurrently in threads of one interpreter (the schedule dimension)
MODULES = ["TWV.Tie.Search", "TWV.Properties.C10"]
TRANSLATORS = ["t5_search"]
RULE = ("exhaustive lattice: every strictly increasing array of <=4 (thorough <=5) elements over {-2..2} ({-2..3}) with "
        "every sorted query multiset of <=3 (<=4) values on the half-integer lattice, all five strategy/fill variants; "
        "plus random float arrays with queries equal to, +-1ulp around, between and beyond the elements, unsorted "
        "queries (model = code, no oracle) and the error branches. Non-trivial: at least one query strictly inside the "
        "array range; distinct by (array, queries, strategy, fill).")
ASSUMPTIONS = ["float comparisons are exact, so the model on the exact rationals must agree bit for bit",
               "for 'closest' the +-1ulp queries are placed around elements, not mid-points (rounded subtraction)"]

VARIANTS = [("closest", True), ("lower", True), ("lower", False), ("higher", True), ("higher", False)]


def _lattice_cases(maxlen, top, maxq):
    lo = -(top // 2)           # the lattice straddles zero (0 is falsy in Python: a classic end-of-iteration slip)
    qvals = [Fraction(k, 2) for k in range(2 * lo - 1, 2 * (lo + top) + 4)]
    for k in range(1, maxlen + 1):
        for arr in itertools.combinations(range(lo, lo + top + 1), k):
            for nq in range(1, maxq + 1):
                for qs in itertools.combinations_with_replacement(qvals, nq):
                    for (s, f) in VARIANTS:
                        yield {"x": [str(Fraction(a)) for a in arr], "q": [str(q) for q in qs], "s": s, "fill": f}


def _float_cases(rng, n):
    for _ in range(n):
        m = rng.randint(1, 12)
        if rng.random() < 0.25:
            # a time axis: readings of one sign, within a factor of two of each other (seconds of a day late in the day,
            # epoch seconds), not on any lattice
            base = rng.choice([86400.0, 1.7e9, 3600.0, 1.0])
            xs = sorted({base * rng.uniform(1.0, 1.9) for _ in range(m)})
        else:
            xs = sorted({rng.uniform(-100, 100) if rng.random() < 0.7 else float(rng.randint(-20, 20)) for _ in range(m)})
        qs = []
        for _ in range(rng.randint(1, 10)):
            r = rng.random()
            e = rng.choice(xs)
            if r < 0.2:
                qs.append(e)
            elif r < 0.32:
                qs.append(math.nextafter(e, math.inf))
            elif r < 0.44:
                qs.append(math.nextafter(e, -math.inf))
            elif r < 0.64 and len(xs) >= 2:
                # the double nearest to the middle of two neighbours, and the doubles next to it: the true middle is in
                # general not a double, so "nearest, ties to the lower" is decided by half an ulp there
                i = rng.randrange(len(xs) - 1)
                mid = (xs[i] + xs[i + 1]) / 2
                qv = rng.choice([mid, mid, math.nextafter(mid, math.inf), math.nextafter(mid, -math.inf)])
                # only where the two distances the scan compares are themselves doubles (neighbours of one sign within a
                # factor of two of each other - time axes): there the code's comparison is the exact one.  Elsewhere the
                # two rounded distances can coincide although the exact ones differ by a fraction of an ulp; which
                # neighbour is returned then is a matter of rounding, outside the exact model (DESIGN 3.1)
                if (Fraction(qv) - Fraction(xs[i]) == Fraction(qv - xs[i])
                        and Fraction(xs[i + 1]) - Fraction(qv) == Fraction(xs[i + 1] - qv)):
                    qs.append(qv)
                else:
                    qs.append(rng.uniform(xs[0] - 5, xs[-1] + 5))
            elif r < 0.88:
                qs.append(rng.uniform(xs[0] - 5, xs[-1] + 5))
            else:
                qs.append(rng.choice([xs[0] - 1.5, xs[-1] + 2.5]))
        qs.sort()
        s, f = rng.choice(VARIANTS)
        yield {"x": [str(Fraction(v)) for v in xs], "q": [str(Fraction(v)) for v in qs], "s": s, "fill": f,
               "float": True}


def _long_cases(rng, n):
    """long arrays with few queries far apart (looking a handful of values up in a long series): positions aligned
    with powers of two and their neighbours, queries equal to / between the elements, first query anywhere"""
    for _ in range(n):
        L = rng.choice([1025, 2049, 4097, 4100, 8193, 9001, 12289, 16385]) + rng.choice([0, 0, 1, -1, 7])
        if rng.random() < 0.5:
            xs = [float(i) for i in range(L)]
        else:
            step = rng.choice([0.25, 0.5, 3.0])
            off = rng.uniform(-50, 50)
            xs = [off + step * i + (0.0 if rng.random() < 0.5 else step * 0.25 * ((i * 7919) % 3 - 1)) for i in range(L)]
            xs = sorted(set(xs))
            L = len(xs)
        k = rng.choice([6, 8, 10, 11, 12, 12, 12, 13])
        pos = []
        p = rng.choice([0, 0, 17, 1, 2 ** k - 1, 2 ** k])
        while p < L:
            pos.append(p)
            p += (2 ** k) * rng.choice([1, 1, 1, 2]) + rng.choice([0, 0, 0, 0, 1, -1])
        pos = sorted({min(max(i, 0), L - 1) for i in pos})[:12]
        qs = []
        for i in pos:
            r = rng.random()
            if r < 0.6:
                qs.append(xs[i])
            elif r < 0.8 and i + 1 < L:
                qs.append((xs[i] + xs[i + 1]) / 2)
            elif r < 0.9:
                qs.append(math.nextafter(xs[i], math.inf))
            else:
                qs.append(math.nextafter(xs[i], -math.inf))
        qs.sort()
        s, f = rng.choice(VARIANTS)
        yield {"x": [str(Fraction(v)) for v in xs], "q": [str(Fraction(v)) for v in qs], "s": s, "fill": f,
               "float": True, "long": True}


def _alias_cases(rng, n):
    """array and queries are two views of ONE buffer: the series matched against its own grid (same object, a plain
    view), against itself shifted by k samples (two overlapping windows of a longer buffer), every second sample"""
    for _ in range(n):
        m = rng.randint(3, 14)
        t = sorted({rng.choice([float(rng.randint(-20, 20)), rng.uniform(-50, 50)]) for _ in range(m + 4)})
        kind = rng.choice(["same", "view", "shift", "shift", "stride"])
        k = rng.randint(1, 3)
        s, f = rng.choice(VARIANTS)
        if kind in ("same", "view"):
            xs, qs = t, t
        elif kind == "shift":
            xs, qs = t[:-k], t[k:]
        else:
            xs, qs = t[:-2:2], t[2::2]
        yield {"x": [str(Fraction(v)) for v in xs], "q": [str(Fraction(v)) for v in qs], "s": s, "fill": f, "float": True,
               "alias": kind, "k": k, "t": [str(Fraction(v)) for v in t], "layout": "contig,contig,contig", "hist": "none"}


def _int_cases(rng, n):
    """integer samples and integer queries of different integer dtypes (unsigned counters looked up with signed
    offsets, narrow and wide types): every value is exact in every dtype it is stored in"""
    for _ in range(n):
        dx, dq = rng.choice([("uint64", "int64"), ("int64", "uint64"), ("uint64", "int64"), ("uint8", "int16"),
                             ("int32", "uint16"), ("uint32", "int8"), ("int64", "int64"), ("uint64", "uint64")])
        lo_x = 0 if dx.startswith("u") else -20
        lo_q = 0 if dq.startswith("u") else -20
        xs = sorted({rng.randint(lo_x, 60) for _ in range(rng.randint(1, 10))})
        qs = sorted(rng.randint(lo_q, 70) for _ in range(rng.randint(1, 8)))
        s, f = rng.choice(VARIANTS)
        if rng.random() < 0.25:
            # values near both ends of the dtype's range (neighbours further apart than half the range); one dtype for
            # samples and queries and the two comparison-only strategies, so that every comparison is an exact integer one
            # (differences of such values, which 'closest' forms, leave the dtype in the pinned code as well)
            dq = dx
            if s == "closest":
                s, f = rng.choice([v for v in VARIANTS if v[0] != "closest"])
            ix, iq = np.iinfo(dx), np.iinfo(dq)
            cand = [int(ix.min), int(ix.min) + 3, int(ix.min) // 2, int(ix.max) // 2, int(ix.max) - 3, int(ix.max)] \
                + ([-1, 0, 1] if ix.min < 0 else [0, 1])
            xs = sorted(set(rng.sample(cand, rng.randint(2, 4))))
            lo_, hi_ = max(int(ix.min), int(iq.min)), min(int(ix.max), int(iq.max))
            qs = sorted(min(max(v + rng.choice([-1, 0, 1]), lo_), hi_) for v in rng.sample(xs, min(3, len(xs))))
        yield {"x": [str(Fraction(v)) for v in xs], "q": [str(Fraction(v)) for v in qs], "s": s, "fill": f,
               "dtypes": [dx, dq], "layout": "contig,contig,contig"}


def _malformed(rng, n):
    for _ in range(n):
        xs = sorted({rng.randint(-5, 5) for _ in range(rng.randint(0, 4))})
        qs = [rng.randint(-6, 6) for _ in range(rng.randint(0, 4))]
        kind = rng.choice(["unsorted", "empty_x", "empty_q", "strategy"])
        s, f = rng.choice(VARIANTS)
        if kind == "empty_x":
            xs = []
        elif kind == "empty_q":
            qs = []
        elif kind == "strategy":
            s = rng.choice(["nearest", "", "Lower", "closest "])
            xs = xs or [0]
            qs = sorted(qs) or [0]
        yield {"x": [str(Fraction(v)) for v in xs], "q": [str(Fraction(v)) for v in qs], "s": s, "fill": f,
               "malformed": kind}


def cases(rng, tier):
    if tier == "quick":
        yield from _long_cases(rng, 60)
        yield from _alias_cases(rng, 150)
        yield from _int_cases(rng, 300)
        yield from _lattice_cases(4, 4, 3)
        yield from _float_cases(rng, 2000)
        yield from _malformed(rng, 300)
    elif tier == "thorough":
        yield from _long_cases(rng, 600)
        yield from _alias_cases(rng, 2000)
        yield from _int_cases(rng, 4000)
        yield from _lattice_cases(5, 5, 4)
        yield from _float_cases(rng, 20000)
        yield from _malformed(rng, 2000)
    else:  # search
        yield from _long_cases(rng, 40)
        yield from _alias_cases(rng, 100)
        yield from _int_cases(rng, 200)
        yield from _float_cases(rng, 1500)
        yield from _lattice_cases(3, 3, 2)
        yield from _malformed(rng, 100)


def _vals(c):
    return [Fraction(v) for v in c["x"]], [Fraction(v) for v in c["q"]]


def request(c):
    x, q = _vals(c)
    s = c["s"].replace(" ", "_") or "_"
    return f"search {s} {1 if c['fill'] else 0} {fmt_list(x)} {fmt_list(q)}"


def run_impl(c):
    from traffic_weaver import sorted_array_utils as sau
    x, q = _vals(c)
    xa = S.arr([float(v) for v in x], dtype=float)
    qa = S.arr([float(v) for v in q], dtype=float)
    if c.get("dtypes"):
        xa = S.arr([int(v) for v in x], dtype=c["dtypes"][0])
        qa = S.arr([int(v) for v in q], dtype=c["dtypes"][1])
    if c.get("alias"):
        t = np.array([float(Fraction(v)) for v in c["t"]], dtype=float)
        k = c["k"]
        xa, qa = {"same": lambda: (t, t), "view": lambda: (t, t.view()), "shift": lambda: (t[:-k], t[k:]),
                  "stride": lambda: (t[:-2:2], t[2::2])}[c["alias"]]()
        assert [float(v) for v in xa] == [float(v) for v in x] and [float(v) for v in qa] == [float(v) for v in q]
    try:
        r = sau.find_closest_element_indices_to_values(xa, qa, strategy=c["s"], fill_not_valid=c["fill"])
        return {"ok": [int(v) for v in r]}
    except Exception as e:  # noqa
        return {"err": err_kind(e)}


def compare(c, io, mo):
    m = mo[0]
    if "err" in io:
        return None if m == f"ERR {io['err']}" else f"impl raised {io['err']}, model says {m}"
    if not m.startswith("ok "):
        return f"impl returned {io['ok']}, model says {m}"
    got = parse_ints(m[3:])
    return None if got == io["ok"] else f"impl {io['ok']} != model {got}"


def spec(x, t, s, fill):
    n = len(x)
    if s == "lower":
        le = [i for i in range(n) if x[i] <= t]
        return le[-1] if le else (0 if fill else -1)
    if s == "higher":
        ge = [i for i in range(n) if x[i] >= t]
        return ge[0] if ge else (n - 1 if fill else n)
    best = 0
    for i in range(n):
        if abs(x[i] - t) < abs(x[best] - t):
            best = i
    return best


def oracle(c, io):
    if c.get("malformed") == "unsorted":
        return None
    x, q = _vals(c)
    if c.get("malformed") == "strategy":
        return None if io.get("err") == "ValueError" else f"unknown strategy {c['s']!r} not rejected with ValueError: {io}"
    if not x or not q:
        return None
    if "err" in io:
        return f"valid query raised {io['err']}"
    want = [spec(x, t, c["s"], c["fill"]) for t in q]
    if want != io["ok"]:
        return f"strategy={c['s']} fill={c['fill']} x={c['x']} q={c['q']}: returned {io['ok']}, defined neighbours are {want}"
    return None


def tags(c, io, mo):
    t = [f"strategy={c['s']}" if not c.get("malformed") else f"malformed={c['malformed']}",
         f"len_x={min(len(c['x']), 7)}"]
    if c.get("float"):
        t.append("float-array")
    if "err" in io:
        t.append(f"error={io['err']}")
    return t


def nontrivial_key(c, io, mo):
    x, q = _vals(c)
    if not x or not q or "err" in io:
        return None
    if any(x[0] < t < x[-1] for t in q):
        return [c["x"], c["q"], c["s"], c["fill"]]
    return None


def matches_known(k, rec):
    return False
