"""C13 - interpolation honours the data and the requested grid."""
from __future__ import annotations

import warnings
from fractions import Fraction

import numpy as np

from .. import scenarios as SC
from .. import shapes as S

from .. import weaver_common as W
from ..core import fmt_list, parse_rats, frac, err_kind, close, exact, floats

ID = "C13"
MODULES = ["TWV.Properties.C13", "TWV.Tie.ProcessFns", "TWV.Tie.WeaverStep"]
TRANSLATORS = ["t10_process", "t9_weaver"]
RULE = ("(a) process.interpolate for the four methods on lattice series of 4..16 points with sorted new grids mixing knots, "
        "mid-points and points beyond the range on both sides (for cubic/spline the harness evaluates SciPy itself with the "
        "arguments the model says are forwarded and hands the values to the model as data), unknown method names, affine "
        "data; (b) Weaver.interpolate(n) for n in 2..40 and Weaver.interpolate(new_x=grid) with matching / different end "
        "points, list or array grids. Non-trivial: a grid with a point strictly between two samples; distinct by input.")
ASSUMPTIONS = ["'cubic' and 'spline' are SciPy's CubicSpline / splrep+BSpline: their knot-interpolation and affine-reproduction "
               "clauses are checked on the real code only (assumed in the model)"]
PARTIAL = "the numerical content of the cubic / spline methods is SciPy's (external data in the model)"
METHODS = ["linear", "constant", "cubic", "spline"]


def gen_direct(rng):
    n = rng.randint(4, 16)
    x = rng.increasing(n)
    if rng.random() < 0.25:
        # regularly sampled with a step that is not a binary fraction (np.linspace): new points that coincide with
        # samples must still get the sample's own value
        n = rng.choice([4, 10, 26, 49, 97])
        lo = rng.choice([0.0, 5.0, -3.0])
        x = [Fraction(float(v)) for v in np.linspace(lo, lo + rng.choice([1.0, 10.0, 24.0]), n)]
    affine = rng.random() < 0.25
    if affine:
        a, b0 = rng.dyadic(-16, 16, 4), rng.dyadic(-16, 16, 4)
        y = [a * v + b0 for v in x]
    else:
        y = rng.values(n)
    pts = set()
    for _ in range(rng.randint(1, 14)):
        i = rng.randrange(n)
        r = rng.random()
        if r < 0.35:
            pts.add(x[i])
        elif r < 0.75:
            pts.add((x[i] + x[min(i + 1, n - 1)]) / 2)
        elif r < 0.88:
            pts.add(x[0] - rng.choice([Fraction(1, 2), 2, 5]))
        else:
            pts.add(x[-1] + rng.choice([Fraction(1, 2), 2, 5]))
    if rng.random() < 0.15 or (len(x) > 16 and rng.random() < 0.6):
        pts = set(x) | pts
    if rng.random() < 0.12:
        pts = {Fraction(int(v)) for v in pts}
    m = rng.choice(METHODS) if rng.random() < 0.92 else rng.choice(["quadratic", "nearest", "Linear", ""])
    c = {"kind": "direct", "x": [str(v) for v in x], "y": [str(v) for v in y], "new": [str(v) for v in sorted(pts)],
         "method": m, "affine": affine, "container": rng.choice(["array", "array", "array", "labels"])}
    if m in DEFAULT_KW and rng.random() < 0.3:
        # pass-through keywords of the NumPy / SciPy routine, spelled out with their documented default values
        # (a wrapper that forwards its own optional arguments): the result must be what it is without them
        c["kw"] = rng.randrange(len(DEFAULT_KW[m]))
    return c


DEFAULT_KW = {
    "linear": [{"left": None}, {"right": None}, {"period": None}, {"left": None, "right": None, "period": None}],
    "constant": [{"left": None}],
    "cubic": [{"bc_type": "not-a-knot"}, {"extrapolate": None}, {"axis": 0}],
    "spline": [{"s": None}, {"k": 3}, {"w": None}, {"per": 0}, {"t": None, "task": 0}, {"xb": None, "xe": None}, {"s": None, "k": 3}],
}


def gen_counts(rng):
    """a longer series of small signed integer readings (differences of counters): many repeated values, among them
    -1 and -2; another series that looks alike (same abscissae, readings swapped where CPython hashes them alike) is
    interpolated just before"""
    n = rng.randint(30, 48)
    step = rng.choice([1, 2, Fraction(1, 2)])
    x = [Fraction(i) * step for i in range(n)]
    y = [Fraction(rng.choice([-2, -1, -1, -2, 0, 1, 2, 3])) for _ in range(n)]
    pts = set(x)
    for _ in range(rng.randint(1, 8)):
        i = rng.randrange(n - 1)
        pts.add((x[i] + x[i + 1]) / 2)
    return {"kind": "direct", "x": [str(v) for v in x], "y": [str(v) for v in y], "new": [str(v) for v in sorted(pts)],
            "method": rng.choice(["cubic", "spline", "linear"]), "affine": False, "hist": rng.choice(["hash_twin", "hash_twin", "refill"]),
            "layout": "contig,contig,contig"}


def gen_intstamps(rng):
    """integer time stamps stored in an integer dtype (unsigned micro-second counters), the new grid in the same dtype,
    with points before the first and after the last sample"""
    n = rng.randint(5, 14)
    x0 = rng.randint(5, 40)
    x = [Fraction(x0)]
    for _ in range(n - 1):
        x.append(x[-1] + rng.randint(1, 6))
    affine = rng.random() < 0.5
    a, b0 = rng.dyadic(-8, 8, 2), rng.dyadic(-8, 8, 2)
    y = [a * v + b0 for v in x] if affine else rng.values(n)
    pts = {x[0] - rng.randint(1, 4), x[-1] + rng.randint(1, 4)} | {rng.choice(x) for _ in range(3)} \
        | {Fraction(rng.randint(int(x[0]), int(x[-1]))) for _ in range(4)}
    return {"kind": "direct", "x": [str(v) for v in x], "y": [str(v) for v in y], "new": [str(v) for v in sorted(pts)],
            "method": rng.choice(METHODS), "affine": affine, "xdtype": rng.choice(["uint64", "uint64", "int64", "uint32", "uint16"])}


def gen_weaver(rng):
    c = W.gen_init(rng, 5, 12)
    c["kind"] = "weaver"
    c["x_none"] = False
    op = W.gen_reshape_op(rng, ["interp"])
    r = rng.random()
    if r < 0.12:
        op["method"] = rng.choice(["quadratic", "nearest"])
    if "grid" in op and rng.random() < 0.25:
        op["bad_ends"] = True
    c["ops"] = [op]
    if rng.random() < 0.35:
        # the request made of an object with a history: the series was re-sampled (its grid is no longer the reference's
        # grid) and then went through an operation whose effect depends on the grid; the new grid is defined by the
        # series the object holds NOW
        pre = [W.gen_reshape_op(rng, ["interp", "recreate"])]
        if "grid" in pre[0]:
            pre[0] = {"op": "interp", "method": "linear", "n": rng.randint(5, 24)}
        pre[0]["method"] = "linear" if pre[0]["op"] == "interp" else pre[0].get("method")
        if pre[0].get("method") is None:
            pre[0].pop("method", None)
        for _ in range(rng.randint(1, 2)):
            pre.append(W.gen_domain_op(rng, ["append", "repeat", "trunc_i", "trunc_v", "shift_x", "scale_x"]))
        op["target"] = True                 # the operation the oracle looks at (earlier ones may be skipped at run time)
        c["ops"] = pre + [op]
        c["pre"] = len(pre)
        return c
    if rng.random() < 0.2:
        # a bursty non-negative series (idle most of the time); the application runs with warnings as errors, catches
        # whatever surfaces and resamples linearly instead
        n = len(c["x"])
        c["y"] = [str(rng.choice([0, 0, 0, 0, rng.randint(3, 9)])) for _ in range(n)]
        if len(set(c["y"])) == 1:
            c["y"][n // 2] = "7"
        c["int_y"] = False
        c["werror"] = True
        op["method"] = rng.choice(["cubic", "spline"])
        op.pop("bad_ends", None)
        c["ops"] = [op, {"op": "interp", "method": "linear", "n": rng.randint(4, 20)}]
    return c


def cases(rng, tier):
    for _sc in range(6 if tier != "thorough" else 60):
        yield SC.gen(rng, ['csv_twice'][_sc % 1])
    na, nb = {"quick": (300, 120), "thorough": (4000, 1200)}.get(tier, (200, 80))
    for _ in range(max(6, na // 25)):
        yield gen_counts(rng)
    for _ in range(max(20, na // 10)):
        yield gen_intstamps(rng)
    for _ in range(na):
        yield gen_direct(rng)
    for _ in range(nb):
        yield gen_weaver(rng)


def V(c):
    g = lambda k: [Fraction(v) for v in c[k]]
    return g("x"), g("y"), g("new")


def scipy_values(x, y, new, method):
    from scipy.interpolate import CubicSpline, BSpline, splrep
    xa, ya, na = np.array(floats(x)), np.array(floats(y)), np.array(floats(new))
    with warnings.catch_warnings():
        warnings.simplefilter("ignore")
        if method == "cubic":
            return [float(v) for v in CubicSpline(xa, ya)(na)]
        return [float(v) for v in BSpline(*splrep(xa, ya))(na)]


def run_impl(c):
    if isinstance(c, dict) and "scenario" in c:
        return SC.run(c)
    if c["kind"] == "direct":
        from traffic_weaver.process import interpolate
        x, y, new = V(c)
        try:
            with warnings.catch_warnings():
                warnings.simplefilter("ignore")
                na = S.arr(floats(new))
            if all(v.denominator == 1 for v in new):
                na = S.arr([int(v) for v in new])        # an integer-dtype grid (np.arange, a list of ints)
            xa, ya = S.arr(floats(x)), S.arr(floats(y))
            if c.get("xdtype"):
                xa = S.arr([int(v) for v in x], dtype=c["xdtype"])
                na = S.arr([int(v) for v in new], dtype=c["xdtype"])
            if c.get("container") == "labels":
                ya = S.LabelSeries(ya)                 # a column of a sorted data frame
            kw = DEFAULT_KW[c["method"]][c["kw"]] if "kw" in c else {}
            r = interpolate(xa, ya, na, method=c["method"], **kw)
            if r is None:
                return {"none": True}
            out = {"ok": [float(v) for v in r]}
            with warnings.catch_warnings():
                warnings.simplefilter("ignore")
                out["knots"] = [float(v) for v in interpolate(xa, ya, np.array(floats(x)), method=c["method"], **kw)]
            return out
        except Exception as e:  # noqa
            return {"err": err_kind(e)}
    io = W.run_program(c)
    c["_lines"] = io["lines"]
    return io


def request(c):
    if isinstance(c, dict) and "scenario" in c:
        return []
    if c["kind"] == "direct":
        x, y, new = V(c)
        ext = "-"
        if c["method"] in ("cubic", "spline"):
            ext = fmt_list([frac(v) for v in scipy_values(x, y, new, c["method"])])
        m = c["method"] or "_"
        return f"interp {m} {fmt_list(x)} {fmt_list(y)} {fmt_list(new)} {ext}"
    return c["_lines"]


def compare(c, io, mo):
    if isinstance(c, dict) and "scenario" in c:
        return None
    if c["kind"] == "direct":
        m = mo[0]
        if io.get("none"):
            return f"impl returned None for method {c['method']!r}, model says {m}"
        if "err" in io:
            return None if m == f"ERR {io['err']}" else f"impl raised {io['err']}, model says {m[:60]}"
        if not m.startswith("ok"):
            return f"impl returned values, model says {m[:60]}"
        mv = parse_rats(m[3:]) if len(m) > 3 else []
        return None if close(io["ok"], mv) else f"{c['method']}: impl {io['ok'][:5]} model {[float(v) for v in mv[:5]]}"
    return W.compare_program(c, io, mo)


def oracle(c, io):
    if isinstance(c, dict) and "scenario" in c:
        return io.get("finding")
    if c["kind"] == "direct":
        x, y, new = V(c)
        xf, yf, nf = floats(x), floats(y), floats(new)
        m = c["method"]
        if m not in METHODS:
            return None if io.get("err") == "ValueError" else f"unknown interpolation method {m!r} not rejected with ValueError: {str(io)[:60]}"
        if "err" in io or io.get("none"):
            return f"valid interpolation failed: {io}"
        scale = max(1.0, max(abs(v) for v in yf))
        tol = 0 if m in ("linear", "constant") else 1e-8 * scale
        if any(abs(a - b) > tol for a, b in zip(io["knots"], yf)):
            return f"{m}: interpolating at the original abscissae does not return the original values"
        r = io["ok"]
        for t, v in zip(nf, r):
            if m == "constant":
                le = [i for i, xv in enumerate(xf) if xv <= t]
                want = yf[le[-1]] if le else yf[0]
                if v != want:
                    return f"constant: value at {t} is {v}, last sample at or before it has {want}"
            elif m == "linear":
                if t <= xf[0]:
                    want = yf[0]
                elif t >= xf[-1]:
                    want = yf[-1]
                else:
                    j = max(i for i, xv in enumerate(xf) if xv <= t)
                    want = yf[j] + (yf[j + 1] - yf[j]) * (t - xf[j]) / (xf[j + 1] - xf[j])
                if abs(v - want) > 1e-9 * scale:
                    return f"linear: value at {t} is {v}, straight-line value between the neighbours is {want}"
        if c["affine"] and m != "constant":
            a = (yf[1] - yf[0]) / (xf[1] - xf[0])
            b0 = yf[0] - a * xf[0]
            for t, v in zip(nf, r):
                if xf[0] <= t <= xf[-1] and abs(v - (a * t + b0)) > 1e-8 * scale:
                    return f"{m}: affine data not reproduced at {t}: {v} vs {a * t + b0}"
        return None
    steps = io["steps"]
    if not c["ops"]:
        return None
    k = 0
    if c.get("pre"):
        ks = [i for i, o in enumerate(c["ops"]) if o.get("target")]
        if not ks or len(steps) <= ks[0] + 1 or any("err" in t for t in steps[1:ks[0] + 1]):
            return None
        k = ks[0]
    op = c["ops"][k]
    st = steps[k + 1]
    if st is None or st.get("skipped"):
        return None
    before = steps[k]["state"]
    if op["method"] not in METHODS:
        if st.get("err") != "ValueError":
            return f"Weaver.interpolate with unknown method not rejected with ValueError: {st.get('err')}"
        return None if st["state"]["x"] == before["x"] and st["state"]["y"] == before["y"] else "rejected interpolate changed the series"
    if op.get("bad_ends"):
        if st.get("err") != "ValueError":
            return f"interpolation grid with different end points not rejected with ValueError: {st.get('err')}"
        return None if st["state"]["x"] == before["x"] and st["state"]["y"] == before["y"] else "rejected interpolate changed the series"
    if "err" in st:
        return f"valid Weaver.interpolate raised {st['err']}"
    s = st["state"]
    if s["types"]["x"] != "ndarray" or s["types"]["y"] != "ndarray":
        return f"after interpolate the series are {s['types']['x']}/{s['types']['y']}, not NumPy arrays"
    if "n" in op:
        n = op["n"]
        xs = s["x"]
        if len(xs) != n or len(s["y"]) != n:
            return f"interpolate({n}) produced {len(xs)} points"
        if xs[0] != before["x"][0] or xs[-1] != before["x"][-1]:
            return "interpolate(n) does not span the same range"
        d = np.diff(xs)
        if len(d) and np.max(np.abs(d - d[0])) > 1e-9 * max(1.0, abs(d[0])):
            return "interpolate(n) points are not equally spaced"
    return None


def tags(c, io, mo):
    if isinstance(c, dict) and "scenario" in c:
        return ["scenario=" + c["scenario"]]
    if c["kind"] == "direct":
        return ([f"method={c['method']}", "affine" if c["affine"] else "generic"] + ([f"error={io['err']}"] if "err" in io else [])
                + (["default-kwargs"] if "kw" in c else []))
    if not c["ops"]:
        return ["weaver", "skipped"]
    op = ([o for o in c["ops"] if o.get("target")] or [c["ops"][0]])[0]
    return ["weaver"] + (["with-history"] if c.get("pre") else []) + [f"method={op.get('method')}", "n" if "n" in op else ("bad-ends" if op.get("bad_ends") else "grid")]


def nontrivial_key(c, io, mo):
    if isinstance(c, dict) and "scenario" in c:
        return c
    if c["kind"] == "direct":
        xs = set(c["x"])
        return c if "ok" in io and any(v not in xs for v in c["new"]) else None
    return {"x": c["x"], "y": c["y"], "op": [{k: v for k, v in o.items() if not k.startswith("_")} for o in c["ops"]]}


def matches_known(k, rec):
    return False
