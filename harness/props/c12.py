"""C12 - repeat is a periodic extension with the original spacing."""
from __future__ import annotations

from fractions import Fraction

import numpy as np

from .. import shapes as S

from ..core import fmt_list, parse_rats, frac, err_kind, close, exact, floats

ID = "C12"
THREADS = True       # part of the cases run concurrently in threads of one interpreter (the schedule dimension)
MODULES = ["TWV.Tie.ArrayHelpers", "TWV.Properties.C12", "TWV.Tie.WeaverStep"]
TRANSLATORS = ["t8_arrays", "t9_weaver"]
RULE = ("random series of 2..40 points, uniform / non-uniform, integer or float abscissae, r in 1..12, through process.repeat "
        "and through Weaver.repeat (working and reference series), plus all factor pairs a*b <= 12 for the composition law. "
        "Non-trivial: r >= 2 and >= 3 points; distinct by full input.")
ASSUMPTIONS = ["abscissae on a dyadic lattice, so the shifted copies are exact in floating point"]


def cases(rng, tier):
    n_ = {"quick": 400, "thorough": 5000}.get(tier, 300)
    for _ in range({"quick": 1, "thorough": 6}.get(tier, 1)):
        yield mem_case(rng)
    for _ in range(n_):
        n = rng.randint(2, 40 if rng.random() < 0.3 else 8)
        x = rng.increasing(n, jitter=rng.random() < 0.2)
        if rng.random() < 0.1:
            x = [v / 2 ** 30 for v in x]          # small-scale abscissae (steps far below 1e-8)
        integer = rng.random() < 0.25 and all(v.denominator <= 4 for v in x)
        if integer:
            x = sorted({Fraction(int(v * 4)) for v in x})
            n = len(x)
            if n < 2:
                x = [Fraction(0), Fraction(3)]
                n = 2
        c = {"argrep": S.pick_argrep(rng, 0.7), "container": rng.choice(["array", "array", "array", "labels", "interval", "interval-corrected"]),
             "x": [str(v) for v in x], "y": [str(v) for v in rng.values(n)], "r": rng.randint(1, 12),
             "int": integer, "via": rng.choice(["process", "weaver"]), "a": rng.randint(1, 4), "b": rng.randint(1, 3)}
        if integer and rng.random() < 0.6:
            narrow_abscissae(c, rng)
        yield c


NARROW = [("uint8", 0, 2 ** 8), ("int8", -2 ** 7, 2 ** 7), ("uint16", 0, 2 ** 16), ("int16", -2 ** 15, 2 ** 15),
          ("uint32", 0, 2 ** 32), ("int32", -2 ** 31, 2 ** 31)]


def narrow_abscissae(c, rng):
    """integer abscissae in a narrow NumPy dtype (a tick counter, sample numbers, seconds of a day in uint32): every
    sample fits, and half of the time the series is moved / stretched so that it uses the dtype's range - then the span
    plus the last step (one period) does NOT fit although every sample does.  The extension is defined on the numbers."""
    x = [Fraction(v) for v in c["x"]]
    name, lo, hi = rng.choice(NARROW)
    span = x[-1] - x[0]
    if span >= hi - lo:
        return
    if rng.random() < 0.5:
        # one full cycle of the counter: first sample at the bottom of the range, last sample near the top
        k = int((hi - lo - 1) // span) if span else 1
        k = max(1, k)
        x = [(v - x[0]) * k + lo for v in x]
    else:
        shift = rng.randint(lo, hi - 1 - int(span)) - x[0]
        x = [v + shift for v in x]
    if not all(v.denominator == 1 and lo <= v < hi for v in x):
        return
    c["x"] = [str(v) for v in x]
    c["xdtype"] = name


def mem_case(rng):
    """a long series repeated under a capped address space (ulimit -v / RLIMIT_AS): whichever allocation fails, the
    call either raises MemoryError or returns the periodic extension - never something else"""
    return {"mem": True, "n": rng.choice([200000, 300000, 500000]), "r": rng.choice([8, 12]), "x": ["0", "1"], "y": ["0", "1"],
            "int": False, "via": "process", "a": 1, "b": 1, "steps": [str(rng.dyadic(1, 9, 4)) for _ in range(5)],
            "layout": "contig,contig,contig", "hist": "none"}


def run_mem(c):
    import json
    import os
    import resource
    from traffic_weaver.process import repeat
    n, r = c["n"], c["r"]
    steps = np.array([float(Fraction(v)) for v in c["steps"]])
    x = np.concatenate([[0.75], 0.75 + np.cumsum(np.resize(steps, n - 1))])
    y = np.resize(np.array([1.0, -2.5, 4.0, 0.5, 3.25, -1.0, 2.0]), n)
    A = n * r * 8
    verdicts = []
    for q in range(12, 42):                     # room above the current size: 1.5 A ... 5.1 A in steps of A / 8
        rd, wr = os.pipe()
        pid = os.fork()
        if pid == 0:
            code = 0
            try:
                os.close(rd)
                vm = 0
                for ln in open("/proc/self/status"):
                    if ln.startswith("VmSize:"):
                        vm = int(ln.split()[1]) * 1024
                soft, hard = resource.getrlimit(resource.RLIMIT_AS)
                resource.setrlimit(resource.RLIMIT_AS, (vm + (A * q) // 8, hard))
                try:
                    try:
                        rx, ry = repeat(x, y, r)
                    finally:
                        resource.setrlimit(resource.RLIMIT_AS, (soft, hard))     # the check itself is not capped
                    P = (x[-1] - x[0]) + (x[-1] - x[-2])
                    ok = (len(rx) == n * r and len(ry) == n * r and bool(np.array_equal(rx[:n], x))
                          and bool(np.array_equal(ry, np.tile(y, r))))
                    for i in range(1, r):
                        if not ok:
                            break
                        ok = bool(np.allclose(rx[i * n:(i + 1) * n], x + i * P, rtol=1e-12, atol=1e-9 * abs(rx[-1])))
                    v = "ok" if ok else f"WRONG: first x {float(rx[0])!r} (input {float(x[0])!r}), min step {float(np.min(np.diff(rx)))!r}"
                except MemoryError:
                    v = "MemoryError"
                except Exception as e:  # noqa
                    v = "raised " + type(e).__name__
                os.write(wr, json.dumps(v).encode())
            except BaseException:  # noqa
                code = 1
            finally:
                os._exit(code)
        os.close(wr)
        with os.fdopen(rd, "rb") as f:
            data = f.read()
        os.waitpid(pid, 0)
        verdicts.append([q / 8, json.loads(data) if data else "child died"])
    return {"mem": verdicts}


def V(c):
    return [Fraction(v) for v in c["x"]], [Fraction(v) for v in c["y"]]


def request(c):
    if c.get("mem"):
        return []
    x, y = V(c)
    return [f"repeat {c['r']} {fmt_list(x)} {fmt_list(y)}", f"repeat {c['a'] * c['b']} {fmt_list(x)} {fmt_list(y)}"]


def run_impl(c):
    if c.get("mem"):
        return run_mem(c)
    from traffic_weaver.process import repeat
    from traffic_weaver import Weaver
    x, y = V(c)
    xa = S.arr([int(v) for v in x], dtype=c.get("xdtype")) if c["int"] else S.arr(floats(x))
    ya = S.arr(floats(y))
    if c.get("container") == "labels" and c["via"] == "process":
        xa, ya = S.LabelSeries(xa), S.LabelSeries(ya)      # columns of a sorted data frame
    if str(c.get("container", "")).startswith("interval") and c["via"] == "process":
        # the library's own array-like, fresh or looked at and then corrected in place
        h = "fresh" if c["container"] == "interval" else "corrected"
        k = 1 + len(x) % 4
        yint = all(v.denominator == 1 for v in y)
        xa, ya = S.interval_container(x, k, h, integral=c["int"]), S.interval_container(y, k, h, integral=yint)
    R = S.count(c["r"], c.get("argrep", "plain"), narrow=False)      # the count as int, numpy.int64 / int32, a 0-d array (the pinned code overflows with int8 counts)
    try:
        if c["via"] == "process":
            rx, ry = repeat(xa, ya, R)
            ref = None
        else:
            w = Weaver(xa, ya).repeat(R)
            rx, ry = w.get()
            ref = [[float(v) for v in s] for s in w.get_reference()]
        ax, ay = repeat(xa, ya, c["a"])
        bx, by = repeat(ax, ay, c["b"])
        return {"ok": [[float(v) for v in rx], [float(v) for v in ry]], "ref": ref,
                "ab": [[float(v) for v in bx], [float(v) for v in by]], "type": type(rx).__name__}
    except Exception as e:  # noqa
        return {"err": err_kind(e)}


def compare(c, io, mo):
    if c.get("mem"):
        return None
    if "err" in io:
        return f"impl raised {io['err']}"
    for key, ans in (("ok", mo[0]), ("ab", mo[1])):
        if not ans.startswith("ok "):
            return f"model says {ans}"
        f = ans[3:].split(" ")
        mx, my = parse_rats(f[0]), parse_rats(f[1])
        ix, iy = io[key]
        n = len(c["x"])
        if not (exact(ix[:n], mx[:n]) and exact(iy, my) and close(ix, mx)):
            return f"{key}: impl x {ix[:6]} y {iy[:4]} model x {[float(v) for v in mx[:6]]}"
    if io["ref"] is not None and io["ref"] != io["ok"]:
        return "Weaver.repeat: reference differs from the working series"
    return None


def oracle(c, io):
    if c.get("mem"):
        bad = [(room, v) for room, v in io["mem"] if v not in ("ok", "MemoryError", "child died")]
        if bad:
            return (f"repeat of {c['n']} samples x {c['r']} with room for {bad[0][0]} result arrays above the process size "
                    f"returned normally but not the periodic extension: {bad[0][1]}")
        return None
    if "err" in io:
        return f"repeat raised {io['err']}"
    x, y = V(c)
    xf, yf = floats(x), floats(y)
    n, r = len(x), c["r"]
    rx, ry = io["ok"]
    if len(rx) != n * r or len(ry) != n * r:
        return f"repeat({r}) of {n} samples has {len(rx)} samples"
    if ry != yf * r:
        return "values are not the original values tiled r times"
    if rx[:n] != xf:
        return "first copy differs from the input"
    P = (xf[-1] - xf[0]) + (xf[-1] - xf[-2])
    tol = 1e-9 * max(1.0, abs(rx[-1]))
    for j in range(1, len(rx)):
        d = rx[j] - rx[j - 1]
        if d <= 0:
            return f"abscissae not strictly increasing at {j}"
        want = (xf[j % n] - xf[j % n - 1]) if j % n else (xf[-1] - xf[-2])
        if abs(d - want) > tol:
            return f"spacing at {j} is {d}, original pattern / last step gives {want}"
    bx, by = io["ab"]
    from traffic_weaver.process import repeat
    xa = np.array([int(v) for v in x]) if c["int"] else np.array(xf)
    cx, cy = repeat(xa, np.array(yf), c["a"] * c["b"])
    if not (np.allclose(bx, cx, rtol=1e-12, atol=tol) and list(by) == [float(v) for v in cy]):
        return f"repeat({c['a']}) then repeat({c['b']}) differs from repeat({c['a']*c['b']})"
    if io["ref"] is not None and io["ref"] != io["ok"]:
        return "Weaver.repeat does not repeat the reference alike"
    return None


def tags(c, io, mo):
    if c.get("mem"):
        return ["capped-address-space"] + sorted({f"capped:{v.split(':')[0].split(' ')[0]}" for _, v in io["mem"]})
    return _tags(c, io, mo)


def _tags(c, io, mo):
    return [f"via={c['via']}", "int" if c["int"] else "float", f"r={min(c['r'], 5)}{'+' if c['r'] >= 5 else ''}"]


def nontrivial_key(c, io, mo):
    if c.get("mem"):
        return c if any(v == "ok" for _, v in io["mem"]) and any(v == "MemoryError" for _, v in io["mem"]) else None
    return c if c["r"] >= 2 and len(c["x"]) >= 3 and "err" not in io else None


def matches_known(k, rec):
    return False
