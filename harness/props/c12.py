"""C12 - repeat is a periodic extension with the original spacing."""
from __future__ import annotations

from fractions import Fraction

import numpy as np

from .. import shapes as S

from ..core import fmt_list, parse_rats, frac, err_kind, close, exact, floats

ID = "C12"
MODULES = ["TWV.Properties.C12"]
RULE = ("random series of 2..40 points, uniform / non-uniform, integer or float abscissae, r in 1..12, through process.repeat "
        "and through Weaver.repeat (working and reference series), plus all factor pairs a*b <= 12 for the composition law. "
        "Non-trivial: r >= 2 and >= 3 points; distinct by full input.")
ASSUMPTIONS = ["abscissae on a dyadic lattice, so the shifted copies are exact in floating point"]


def cases(rng, tier):
    n_ = {"quick": 400, "thorough": 5000}.get(tier, 300)
    for _ in range(n_):
        n = rng.randint(2, 40 if rng.random() < 0.3 else 8)
        x = rng.increasing(n, jitter=rng.random() < 0.2)
        if rng.random() < 0.1:
            x = [v / 2 ** 30 for v in x]          # small-scale abscissae (steps far below 1e-8)
        integer = rng.random() < 0.25 and all(v.denominator <= 4 for v in x)
        if integer:
            x = sorted({Fraction(int(v * 4)) for v in x})
            n = len(x)
            if n < 2:
                x = [Fraction(0), Fraction(3)]
                n = 2
        yield {"x": [str(v) for v in x], "y": [str(v) for v in rng.values(n)], "r": rng.randint(1, 12),
               "int": integer, "via": rng.choice(["process", "weaver"]), "a": rng.randint(1, 4), "b": rng.randint(1, 3)}


def V(c):
    return [Fraction(v) for v in c["x"]], [Fraction(v) for v in c["y"]]


def request(c):
    x, y = V(c)
    return [f"repeat {c['r']} {fmt_list(x)} {fmt_list(y)}", f"repeat {c['a'] * c['b']} {fmt_list(x)} {fmt_list(y)}"]


def run_impl(c):
    from traffic_weaver.process import repeat
    from traffic_weaver import Weaver
    x, y = V(c)
    xa = S.arr([int(v) for v in x]) if c["int"] else S.arr(floats(x))
    ya = S.arr(floats(y))
    try:
        if c["via"] == "process":
            rx, ry = repeat(xa, ya, c["r"])
            ref = None
        else:
            w = Weaver(xa, ya).repeat(c["r"])
            rx, ry = w.get()
            ref = [[float(v) for v in s] for s in w.get_reference()]
        ax, ay = repeat(xa, ya, c["a"])
        bx, by = repeat(ax, ay, c["b"])
        return {"ok": [[float(v) for v in rx], [float(v) for v in ry]], "ref": ref,
                "ab": [[float(v) for v in bx], [float(v) for v in by]], "type": type(rx).__name__}
    except Exception as e:  # noqa
        return {"err": err_kind(e)}


def compare(c, io, mo):
    if "err" in io:
        return f"impl raised {io['err']}"
    for key, ans in (("ok", mo[0]), ("ab", mo[1])):
        if not ans.startswith("ok "):
            return f"model says {ans}"
        f = ans[3:].split(" ")
        mx, my = parse_rats(f[0]), parse_rats(f[1])
        ix, iy = io[key]
        n = len(c["x"])
        if not (exact(ix[:n], mx[:n]) and exact(iy, my) and close(ix, mx)):
            return f"{key}: impl x {ix[:6]} y {iy[:4]} model x {[float(v) for v in mx[:6]]}"
    if io["ref"] is not None and io["ref"] != io["ok"]:
        return "Weaver.repeat: reference differs from the working series"
    return None


def oracle(c, io):
    if "err" in io:
        return f"repeat raised {io['err']}"
    x, y = V(c)
    xf, yf = floats(x), floats(y)
    n, r = len(x), c["r"]
    rx, ry = io["ok"]
    if len(rx) != n * r or len(ry) != n * r:
        return f"repeat({r}) of {n} samples has {len(rx)} samples"
    if ry != yf * r:
        return "values are not the original values tiled r times"
    if rx[:n] != xf:
        return "first copy differs from the input"
    P = (xf[-1] - xf[0]) + (xf[-1] - xf[-2])
    tol = 1e-9 * max(1.0, abs(rx[-1]))
    for j in range(1, len(rx)):
        d = rx[j] - rx[j - 1]
        if d <= 0:
            return f"abscissae not strictly increasing at {j}"
        want = (xf[j % n] - xf[j % n - 1]) if j % n else (xf[-1] - xf[-2])
        if abs(d - want) > tol:
            return f"spacing at {j} is {d}, original pattern / last step gives {want}"
    bx, by = io["ab"]
    from traffic_weaver.process import repeat
    xa = np.array([int(v) for v in x]) if c["int"] else np.array(xf)
    cx, cy = repeat(xa, np.array(yf), c["a"] * c["b"])
    if not (np.allclose(bx, cx, rtol=1e-12, atol=tol) and list(by) == [float(v) for v in cy]):
        return f"repeat({c['a']}) then repeat({c['b']}) differs from repeat({c['a']*c['b']})"
    if io["ref"] is not None and io["ref"] != io["ok"]:
        return "Weaver.repeat does not repeat the reference alike"
    return None


def tags(c, io, mo):
    return [f"via={c['via']}", "int" if c["int"] else "float", f"r={min(c['r'], 5)}{'+' if c['r'] >= 5 else ''}"]


def nontrivial_key(c, io, mo):
    return c if c["r"] >= 2 and len(c["x"]) >= 3 and "err" not in io else None


def matches_known(k, rec):
    return False
