"""C17 - array helpers, interval view and block averaging keep their contracts."""
from __future__ import annotations

import math
from fractions import Fraction

import numpy as np

from .. import shapes as S

from ..core import fmt, fmt_list, fmt_ints, fmt_opt, parse_rats, frac, err_kind, close, exact, floats

ID = "C17"
THREADS = True       # part of the cases run concurrently in threads of one interpreter (the schedule dimension)
MODULES = ["TWV.Tie.ArrayHelpers", "TWV.Properties.C17", "TWV.Tie.Vector", "TWV.Tie.IntervalArray", "TWV.Tie.ProcessFns"]
TRANSLATORS = ["t8_arrays", "t3_vector", "t13_interval", "t10_process"]
RULE = ("random cases per helper (oversample lin/pc, extend lin/const in three directions with default or explicit end "
        "values, append_one_sample, integral rules, sum_over_indices, IntervalArray get/set/to_2d_array(_closed_intervals)/"
        "nr_of_full_intervals, process.average, average-of-oversampling round trip): arrays of 1..50 elements on a dyadic "
        "lattice, n in 1..16, interval sizes that do and do not divide the length. Non-trivial: array of >= 3 elements and "
        "n >= 2; distinct by full input.")
ASSUMPTIONS = ["NaN padding is the tag 'nan' in the model (Option.none)"]

KINDS = ["iaseq", "oversample", "oversample", "extendlin", "extendlin", "extendconst", "appendone", "integral", "sumidx",
         "iaget", "iaset", "to2d", "to2dclosed", "average", "roundtrip"]


def cases(rng, tier):
    n_ = {"quick": 1500, "thorough": 20000}.get(tier, 800)
    for _ in range(n_):
        kind = rng.choice(KINDS)
        m = rng.randint(1, 50) if rng.random() < 0.5 else rng.randint(1, 8)
        a = rng.values(m) if kind not in ("oversample",) or rng.random() < 0.4 else rng.increasing(m, jitter=rng.random() < 0.5)
        n = rng.randint(1, 16)
        c = {"kind": kind, "a": [str(v) for v in a], "n": n, "argrep": S.pick_argrep(rng, 0.7)}
        if kind == "oversample":
            c["sub"] = rng.choice(["lin", "pc"])
        elif kind == "extendlin":
            c["dir"] = rng.choice(["both", "left", "right"])
            c["lstart"] = None if rng.random() < 0.6 else str(rng.dyadic())
            c["rstop"] = None if rng.random() < 0.6 else str(rng.dyadic())
            if rng.random() < 0.8:
                c["n"] = rng.randint(1, max(1, min(16, m - 1))) if m > 1 else 1
        elif kind == "extendconst":
            c["dir"] = rng.choice(["both", "left", "right"])
        elif kind == "appendone":
            c["x"] = [str(v) for v in rng.increasing(m)]
            c["periodic"] = rng.random() < 0.5
        elif kind == "integral":
            c["x"] = [str(v) for v in rng.increasing(m)]
            c["rule"] = rng.choice(["trapezoid", "rectangle", "trapezoid", "rectangle", "simpson"])
        elif kind == "sumidx":
            k = rng.randint(0, min(6, m))
            c["idx"] = sorted(rng.randint(0, m) for _ in range(k))
        elif kind == "iaseq":
            rows = max(1, m // n)
            c["sets"] = [[rng.randint(0, rows - 1), rng.randint(0, n - 1), str(rng.dyadic())] for _ in range(rng.randint(1, 3))]
            c["sets"] = [s_ for s_ in c["sets"] if s_[0] * n + s_[1] < m] or [[0, 0, "5"]]
        elif kind in ("iaget", "iaset"):
            rows = max(1, m // n)
            c["i"] = rng.randint(0, rows + 1)
            c["j"] = rng.randint(-n, n + 1)
            c["v"] = str(rng.dyadic())
        elif kind == "to2dclosed":
            c["drop"] = rng.random() < 0.5
        elif kind in ("average", "roundtrip"):
            c["x"] = [str(v) for v in rng.increasing(m, jitter=rng.random() < 0.3)]
            if m >= 3 and rng.random() < 0.2:
                # one sample many orders of magnitude above the others: every block mean is a local quantity
                c["a"][rng.randrange(0, max(1, m // 2))] = str(rng.choice([10 ** 22, -25 * 10 ** 20, 3 * 10 ** 18]))
            if kind == "roundtrip":
                c["n"] = rng.randint(2, 16)
            elif rng.random() < 0.15:
                # saturated / divided-by-zero readings: a block that holds +inf has mean +inf (only the NaN padding is
                # ignored); not expressible over an ordered field, so these cases are judged by the oracle alone
                c["inf"] = sorted({rng.randrange(m) for _ in range(rng.randint(1, 3))})
                c["infsign"] = rng.choice([1, 1, -1])
        yield c


def A(c, k="a"):
    return [Fraction(v) for v in c[k]]


def request(c):
    k, n = c["kind"], c["n"]
    a = A(c)
    if c.get("inf"):
        return []
    if k == "oversample":
        return f"oversample {c['sub']} {n} {fmt_list(a)}"
    if k == "extendlin":
        ls = "none" if c["lstart"] is None else fmt(Fraction(c["lstart"]))
        rs = "none" if c["rstop"] is None else fmt(Fraction(c["rstop"]))
        return f"extendlin {n} {c['dir']} {ls} {rs} {fmt_list(a)}"
    if k == "extendconst":
        return f"extendconst {n} {c['dir']} {fmt_list(a)}"
    if k == "appendone":
        return f"appendone {1 if c['periodic'] else 0} {fmt_list(A(c, 'x'))} {fmt_list(a)}"
    if k == "integral":
        return f"integral {c['rule']} {fmt_list(A(c, 'x'))} {fmt_list(a)}"
    if k == "sumidx":
        return f"sumidx {fmt_list(a)} {fmt_ints(c['idx'])}"
    if k == "iaget":
        return f"iaget {n} {c['i']} {c['j']} {fmt_list(a)}"
    if k == "iaset":
        return f"iaset {n} {c['i']} {c['j']} {fmt(Fraction(c['v']))} {fmt_list(a)}"
    if k == "iaseq":
        b = list(a)
        for i, j, v in c["sets"]:
            b[i * n + j] = Fraction(v)
        return [f"to2d {n} {fmt_list(b)}", f"to2dclosed {n} 0 {fmt_list(b)}"]
    if k == "to2d":
        return f"to2d {n} {fmt_list(a)}"
    if k == "to2dclosed":
        return f"to2dclosed {n} {1 if c['drop'] else 0} {fmt_list(a)}"
    if k == "average":
        return f"average {n} {fmt_list(A(c, 'x'))} {fmt_list(a)}"
    if k == "roundtrip":
        return [f"oversample pc {n} {fmt_list(a)}", f"oversample lin {n} {fmt_list(A(c, 'x'))}"]
    raise ValueError(k)


def lst(v):
    return [float(t) for t in np.asarray(v, dtype=float).ravel()]


def mat(v):
    return [[None if math.isnan(t) else float(t) for t in row] for row in np.asarray(v, dtype=float)]


def run_impl(c):
    from traffic_weaver import sorted_array_utils as sau
    from traffic_weaver.interval import IntervalArray
    from traffic_weaver.process import average
    k, n = c["kind"], c["n"]
    rep = c.get("argrep", "plain")
    if k in ("oversample", "extendlin", "extendconst", "roundtrip", "average"):
        # the count as int or as a NumPy integer (int64 / int32; the narrowest type that holds it where the pinned code
        # itself copes with narrow types: the piece-wise constant oversampling). 0-d arrays are not counts for these helpers.
        narrow = k == "oversample" and c.get("sub") == "pc"
        n = S.count(n, {"0d": "alt"}.get(rep, rep), narrow=narrow)
    a = S.arr(floats(A(c)), dtype=float)
    try:
        if k == "oversample":
            f = sau.oversample_linspace if c["sub"] == "lin" else sau.oversample_piecewise_constant
            r = f(a, n)
            if n >= 2 and isinstance(a, np.ndarray) and a.flags.writeable and a.size:
                # the caller goes on using its buffer for the next block of readings: an n-fold oversampling (n >= 2) is a
                # new array and keeps the original elements
                a[...] = a * -3.0 + 7.0
            return {"ok": lst(r)}
        if k == "extendlin":
            ls = None if c["lstart"] is None else float(Fraction(c["lstart"]))
            rs = None if c["rstop"] is None else float(Fraction(c["rstop"]))
            return {"ok": lst(sau.extend_linspace(a, n, direction=c["dir"], lstart=ls, rstop=rs))}
        if k == "extendconst":
            return {"ok": lst(sau.extend_constant(a, n, direction=c["dir"]))}
        if k == "appendone":
            x, y = sau.append_one_sample(S.arr(floats(A(c, "x"))), a, make_periodic=S.flag(c["periodic"], rep))
            return {"ok": [lst(x), lst(y)]}
        if k == "integral":
            return {"ok": lst(sau.integral(S.arr(floats(A(c, "x"))), a, c["rule"]))}
        if k == "sumidx":
            return {"ok": lst(sau.sum_over_indices(a, np.array(c["idx"], dtype=int)))}
        if k == "iaget":
            return {"ok": float(IntervalArray(a, n)[c["i"], c["j"]])}
        if k == "iaset":
            ia = IntervalArray(a.copy(), n)
            ia[c["i"], c["j"]] = float(Fraction(c["v"]))
            return {"ok": lst(ia.array)}
        if k == "iaseq":
            # layout, write through the view, layout again - on ONE object
            ia = IntervalArray(a.copy(), n)
            ia.to_2d_array()
            ia.to_2d_array_closed_intervals(drop_last=False)
            for i, j, v in c["sets"]:
                ia[i, j] = float(Fraction(v))
            return {"ok": mat(ia.to_2d_array()), "closed": mat(ia.to_2d_array_closed_intervals(drop_last=False)),
                    "flat": lst(ia.array)}
        if k == "to2d":
            ia = IntervalArray(a, n)
            return {"ok": mat(ia.to_2d_array()), "full": int(ia.nr_of_full_intervals()), "len": len(ia)}
        if k == "to2dclosed":
            return {"ok": mat(IntervalArray(a, n).to_2d_array_closed_intervals(drop_last=c["drop"]))}
        if k == "average":
            import warnings
            with warnings.catch_warnings():
                warnings.simplefilter("ignore")
                if c.get("inf"):
                    a = np.array(a, dtype=float)
                    a[c["inf"]] = c["infsign"] * np.inf
                    a = S.arr(a)
                x, y = average(S.arr(floats(A(c, "x"))), a, n)
            return {"ok": [lst(x), lst(y)]}
        if k == "roundtrip":
            x = S.arr(floats(A(c, "x")))
            xs = sau.oversample_linspace(x, n)
            ys = sau.oversample_piecewise_constant(a, n)
            ax, ay = average(xs, ys, n)
            return {"ok": [lst(ys), lst(xs)], "avg": [lst(ax), lst(ay)]}
    except Exception as e:  # noqa
        return {"err": err_kind(e)}
    raise ValueError(k)


def parse_rows(s):
    if s == "-":
        return []
    return [[None if t == "nan" else Fraction(t) for t in ([] if r == "-" else r.split(","))] for r in s.split(";")]


def rows_eq(impl, model):
    if len(impl) != len(model):
        return False
    for ri, rm in zip(impl, model):
        if len(ri) != len(rm):
            return False
        for u, v in zip(ri, rm):
            if (u is None) != (v is None):
                return False
            if u is not None and frac(u) != v:
                return False
    return True


def compare(c, io, mo):
    k = c["kind"]
    if c.get("inf"):
        return None
    m0 = mo[0]
    if "err" in io:
        if m0 == f"ERR {io['err']}" or m0 == "unmodelled":
            return None
        return f"{k}: impl raised {io['err']}, model says {m0[:60]}"
    if m0 == "unmodelled":
        return None
    if not m0.startswith("ok"):
        return f"{k}: impl returned a value, model says {m0[:60]}"
    f = m0[3:].split(" ") if len(m0) > 3 else []
    if k in ("oversample", "extendlin", "extendconst", "integral", "sumidx", "iaset"):
        mv = parse_rats(f[0]) if f else []
        ok = close(io["ok"], mv) and len(io["ok"]) == len(mv)
        if k in ("oversample",) and c.get("sub") == "pc" or k in ("extendconst", "iaset"):
            ok = exact(io["ok"], mv)
        return None if ok else f"{k}: impl {io['ok'][:6]} model {[float(v) for v in mv[:6]]} (len {len(io['ok'])}/{len(mv)})"
    if k in ("appendone", "average"):
        mx, my = parse_rats(f[0]), parse_rats(f[1])
        ix, iy = io["ok"]
        okx = exact(ix, mx) if k == "average" else (exact(ix[:-1], mx[:-1]) and close(ix, mx))
        oky = close(iy, my) if k == "average" else exact(iy, my)
        return None if okx and oky else f"{k}: impl {ix[:5]}/{iy[:5]} model {[float(v) for v in mx[:5]]}/{[float(v) for v in my[:5]]}"
    if k == "iaget":
        return None if frac(io["ok"]) == Fraction(f[0]) else f"iaget: impl {io['ok']} model {f[0]}"
    if k == "iaseq":
        mr = parse_rows(f[2])
        mc = parse_rows(mo[1][3:].split(" ")[1])
        if not rows_eq(io["ok"], mr):
            return f"iaseq: layout after writes differs: impl {io['ok'][:2]} model {f[2][:60]}"
        return None if rows_eq(io["closed"], mc) else "iaseq: closed layout after writes differs"
    if k == "to2d":
        full, rows = int(f[0]), int(f[1])
        mr = parse_rows(f[2])
        if full != io["full"]:
            return f"nr_of_full_intervals impl {io['full']} model {full}"
        return None if rows_eq(io["ok"], mr) else f"to2d: impl {io['ok'][:3]} model rows {rows}"
    if k == "to2dclosed":
        mr = parse_rows(f[1])
        return None if rows_eq(io["ok"], mr) else f"to2dclosed: impl {io['ok'][:3]} model {f[1][:80]}"
    if k == "roundtrip":
        my = parse_rats(f[0])
        mx = parse_rats(mo[1][3:].split(" ")[0])
        if not exact(io["ok"][0], my) or not close(io["ok"][1], mx):
            return "roundtrip: oversampled series differ"
        return None
    return f"unknown kind {k}"


def oracle(c, io):
    k, n = c["kind"], c["n"]
    a = A(c)
    af = floats(a)
    m = len(a)
    if "err" in io:
        return None   # out-of-contract sizes (IndexError etc.) are not part of the property
    r = io["ok"]
    if k == "oversample":
        if n < 2:
            return None if r == af else "n < 2 does not return the input"
        if len(r) != (m - 1) * n + 1:
            return f"oversample length {len(r)} != {(m-1)*n+1}"
        if r[::n] != af:
            return "oversampling does not keep every original element at every n-th position"
        for q in range(m - 1):
            for j in range(n):
                want = af[q] if c["sub"] == "pc" else af[q] + j * (af[q + 1] - af[q]) / n
                if abs(r[q * n + j] - want) > 1e-9 * max(1, abs(want)):
                    return f"gap {q} sample {j}: {r[q*n+j]} != {want}"
    elif k in ("extendlin", "extendconst"):
        d = c["dir"]
        nl = n if d in ("both", "left") else 0
        nr = n if d in ("both", "right") else 0
        if len(r) != m + nl + nr:
            return f"extend adds {len(r) - m} elements instead of {nl + nr}"
        if r[nl:nl + m] != af:
            return "extend does not leave the original elements in the middle"
        if k == "extendconst":
            if any(v != af[0] for v in r[:nl]) or any(v != af[-1] for v in r[nl + m:]):
                return "constant extension does not repeat the first/last value"
        else:
            if nl:
                ls = float(Fraction(c["lstart"])) if c["lstart"] is not None else 2 * af[0] - af[n]
                for i in range(n):
                    want = ls + i * (af[0] - ls) / n
                    if abs(r[i] - want) > 1e-9 * max(1, abs(want)):
                        return f"left linear extension element {i}: {r[i]} != {want}"
            if nr and (c["rstop"] is not None or m >= n + 1):
                rs = float(Fraction(c["rstop"])) if c["rstop"] is not None else 2 * af[-1] - af[-n - 1]
                for i in range(n):
                    want = af[-1] + (i + 1) * (rs - af[-1]) / n
                    if abs(r[nl + m + i] - want) > 1e-9 * max(1, abs(want)):
                        return f"right linear extension element {i}: {r[nl+m+i]} != {want}"
    elif k == "appendone":
        x = floats(A(c, "x"))
        rx, ry = r
        if rx[:-1] != x or ry[:-1] != af:
            return "append_one_sample changed existing samples"
        if abs(rx[-1] - (2 * x[-1] - x[-2])) > 1e-12 * max(1, abs(rx[-1])):
            return "appended abscissa does not continue by the last step"
        if ry[-1] != (af[0] if c["periodic"] else af[-1]):
            return "appended value is not the last (or, if periodic, first) value"
    elif k in ("iaget", "iaset"):
        p = c["i"] * n + c["j"]
        if p < 0:
            p += m
        if k == "iaget":
            if r != af[p]:
                return f"a[{c['i']},{c['j']}] read {r}, flat element is {af[p]}"
        else:
            want = list(af)
            want[p] = float(Fraction(c["v"]))
            if r != want:
                return f"a[{c['i']},{c['j']}] = v wrote somewhere else"
    elif k == "iaseq":
        want = list(af)
        for i, j, v in c["sets"]:
            want[i * n + j] = float(Fraction(v))
        flat = [v for row in r for v in row if v is not None]
        if flat != want or io["flat"] != want:
            return f"after a[i,j] = v the row-by-row layout does not show the written values: {flat[:6]} vs {want[:6]}"
    elif k == "to2d":
        rows = -(-m // n)
        if len(r) != rows or io["full"] != m // n:
            return f"to_2d_array has {len(r)} rows / {io['full']} full intervals for {m} elements, n={n}"
        for ri, row in enumerate(r):
            for ci, v in enumerate(row):
                p = ri * n + ci
                if (v is None) != (p >= m) or (v is not None and v != af[p]):
                    return f"to_2d_array entry ({ri},{ci}) = {v}"
    elif k == "to2dclosed":
        rows = -(-m // n)
        if len(r) != (rows - 1 if c["drop"] else rows):
            return f"closed intervals: {len(r)} rows"
        for ri, row in enumerate(r):
            if len(row) != n + 1:
                return "closed interval row width"
            p = (ri + 1) * n
            want = af[p] if p < m and ri + 1 < rows else None
            if row[n] != want:
                return f"closed interval row {ri} ends with {row[n]}, next row starts with {want}"
    elif k == "average":
        x = floats(A(c, "x"))
        rx, ry = r
        rows = -(-m // n)
        if len(rx) != rows or len(ry) != rows:
            return "average: wrong number of rows"
        for j in c.get("inf", []):
            af[j] = c["infsign"] * math.inf
        for ri in range(rows):
            blk = af[ri * n:(ri + 1) * n]
            if any(math.isinf(v) for v in blk):
                if rx[ri] != x[ri * n] or ry[ri] != c["infsign"] * math.inf:
                    return f"average row {ri}: ({rx[ri]}, {ry[ri]}), block {blk} (an infinite reading is not padding)"
                continue
            if rx[ri] != x[ri * n] or abs(ry[ri] - sum(blk) / len(blk)) > 1e-9 * max(1, abs(ry[ri])):
                return f"average row {ri}: ({rx[ri]}, {ry[ri]}), block {blk}"
    elif k == "roundtrip":
        x = floats(A(c, "x"))
        ax, ay = io["avg"]
        if ax != x or any(abs(u - v) > 1e-9 * max(1, abs(v)) for u, v in zip(ay, af)) or len(ay) != m:
            return "averaging an n-fold piecewise-constant oversampling does not return the input"
    elif k == "integral":
        if c["rule"] not in ("trapezoid", "rectangle"):
            return "unknown rule accepted"
        x = floats(A(c, "x"))
        for i in range(m - 1):
            want = (af[i] + af[i + 1]) / 2 * (x[i + 1] - x[i]) if c["rule"] == "trapezoid" else af[i] * (x[i + 1] - x[i])
            if len(r) != m - 1 or abs(r[i] - want) > 1e-9 * max(abs(want), abs(af[i]) * (x[i + 1] - x[i]), 1e-300):
                return f"{c['rule']} integral of interval {i} is {r[i] if i < len(r) else None!r}, the rule gives {want!r}"
    elif k == "sumidx":
        idx = c["idx"]
        want = [sum(af[s_:e_]) for s_, e_ in zip(idx[:-1], idx[1:])]
        if len(r) != len(want) or any(abs(u - v) > 1e-9 * max(1.0, abs(v)) for u, v in zip(r, want)):
            return f"sum_over_indices({idx}) = {r}, expected {want}"
    return None


def tags(c, io, mo):
    t = [f"kind={c['kind']}", f"n={'1' if c['n'] < 2 else '2+'}",
         "divides" if c["n"] and len(c["a"]) % c["n"] == 0 else "not-divides"]
    if "err" in io:
        t.append(f"error={io['err']}")
    if "dir" in c:
        t.append(f"dir={c['dir']}")
    return t


def nontrivial_key(c, io, mo):
    if "err" in io or len(c["a"]) < 3 or c["n"] < 2:
        return None
    return c


def matches_known(k, rec):
    return False
