"""C19 - remote dataset cache is never corrupt, stale-crossed or fed unchecked data."""
from __future__ import annotations

import itertools
import os
import pickle
import shutil
import tempfile

import numpy as np

from .. import cache_runner as CR
from ..core import scratch_dir

ID = "C19"
SHAPES = False      # layout / object-history dimensions do not apply: the inputs are names and files
MODULES = ["TWV.Tie.LoaderProtocol", "TWV.Properties.C19", "TWV.Properties.C18"]
TRANSLATORS = ["t7_loader", "t2_tables"]
TIE = ("trace validation of the real loader against the protocol model: urlretrieve / _sha256 / np.loadtxt / pickle.dump / "
       "os.rename / os.path.exists / pickle.load are wrapped from the outside; the stutter-free sequence of file-system "
       "states, the outcome and the number of download attempts must be a run of the model")
RULE = ("(a) single loader: every fault script of length <= n_retries+2 over {URLError, TimeoutError, other exception, good, "
        "corrupted, truncated payload} for n_retries in {0,1} (thorough: {0,1,3}), plain and gzip, the four flag combinations, "
        "cache entry absent / present; (b) crash points: the loader is killed (os._exit in a forked child) at every boundary "
        "before/inside/after download, verification, parse, pickle, rename, then the directory is inspected and a fresh load "
        "runs; (c) schedules: 2..6 (thorough ..16) real processes loading two datasets with seeded delays, interacting "
        "operations logged atomically, the observed interleaving replayed in the model. Non-trivial: a run with a download; "
        "distinct by case.")
ASSUMPTIONS = ["POSIX rename(2) is atomic; temporary directory names are unique; a kill is a process kill, not power loss",
               "CPython closes the pickle file object (flushing it) before os.rename runs",
               "SHA-256 is computed by the real code on the scripted payloads (the pinned checksum is that of the 'good' payload)"]
TRUSTED = ["that distinct datasets use distinct cache slots is C18's kernel-decided theorem cache_slots_nodup (module built here too)"]

ANSWERS = ["u", "t", "o", "g", "c", "x"]
CRASH_POINTS = [("urlretrieve", "before"), ("urlretrieve", "inside"), ("urlretrieve", "after"), ("sha", "before"),
                ("sha", "after"), ("loadtxt", "before"), ("loadtxt", "after"), ("dump", "before"), ("dump", "inside"),
                ("dump", "after"), ("rename", "before"), ("rename", "after")]
KILL_STEPS = {("urlretrieve", "before"): 1, ("urlretrieve", "inside"): 1, ("urlretrieve", "after"): 2, ("sha", "before"): 2,
              ("sha", "after"): 3, ("loadtxt", "before"): 3, ("loadtxt", "after"): 4, ("dump", "before"): 5,
              ("dump", "inside"): 5, ("dump", "after"): 6, ("rename", "before"): 6, ("rename", "after"): 7}


def scripts(retries):
    out = []
    for L in range(1, retries + 3):
        for s in itertools.product(ANSWERS, repeat=L):
            # a script is consumed until the first non-retryable answer; drop redundant tails
            cut = next((i for i, a in enumerate(s) if a not in ("u", "t")), None)
            if cut is not None and cut != L - 1:
                continue
            if cut is None and L < retries + 1:
                continue          # incomplete: the loader would ask for more answers
            out.append(list(s))
    return out


def cases(rng, tier):
    rets = [0, 1] if tier != "thorough" else [0, 1, 3]
    allc = []
    for r in rets:
        for s in scripts(r):
            allc.append({"kind": "script", "retries": r, "script": s, "dl": True, "even": False, "entry": "none", "gz": False})
    if tier == "search":
        allc = rng.sample(allc, 40)
    for c in allc:
        yield c
    # flags x entry x gzip
    for dl in (True, False):
        for even in (True, False):
            for entry in ("none", "good"):
                for gz in (False, True):
                    for s in (["g"], ["u", "g"], ["c"]):
                        yield {"kind": "script", "retries": 1, "script": s, "dl": dl, "even": even, "entry": entry, "gz": gz}
    # a gzip archive of several members
    for sc in (["g"], ["u", "g"], ["c"]):
        yield {"kind": "script", "retries": 1, "script": sc, "dl": True, "even": False, "entry": "none", "gz": "multi"}
    # crash points
    pts = CRASH_POINTS if tier != "search" else rng.sample(CRASH_POINTS, 4)
    for cp in pts:
        for gz in ((False, True) if tier == "thorough" else (False,)):
            for pre in ([], ["u"]):
                for entry in ("none", "good"):
                    yield {"kind": "crash", "retries": 2, "script": pre + ["g"], "crash_at": list(cp), "gz": gz,
                           "entry": entry, "even": entry == "good"}
                    if not pre:
                        # the data home on another file system than the system temporary directory
                        yield {"kind": "crash", "retries": 2, "script": ["g"], "crash_at": list(cp), "gz": gz,
                               "entry": entry, "even": entry == "good", "home_fs": "other"}
    # two loader threads of one interpreter, a transient failure in one while the other parses
    for gz in (False, True):
        yield {"kind": "threads2", "gz": gz}
    # orderings of two real datasets (fake network): results must not depend on what was loaded before
    from .c18 import tables
    names = [n for k, v in tables()["documented"].items() if k != "sandvine" for n in v]
    npairs = {"quick": 30, "thorough": 300}.get(tier, 10)
    pairs = [("ams-ix-grx_weekly", "ams-ix-grx_monthly"), ("ams-ix-grx_monthly", "ams-ix-grx_weekly")]
    while len(pairs) < npairs:
        a, b2 = rng.sample(names, 2)
        pairs.append((a, b2))
    # two datasets served by the same loader module, the first one requested with explicit options
    for fam in ("ix-br", "ams-ix", "mix-it"):
        members = [n for n in names if n.startswith(fam)]
        if len(members) >= 2:
            for kw in ({"unpack_dataset_columns": True}, {"download_even_if_available": True, "n_retries": 0}):
                a, b2 = rng.sample(members, 2)
                yield {"kind": "pair", "first": a, "second": b2, "first_kwargs": kw}
    for i, (a, b2) in enumerate(pairs):
        c = {"kind": "pair", "first": a, "second": b2} if i % 4 else {"kind": "pair", "first": a, "second": b2, "home_fs": "other"}
        if i % 5 == 2:
            c["first_fails"] = True
        if i % 3 == 1 and not c.get("first_fails"):
            c["first_kwargs"] = rng.choice([{"unpack_dataset_columns": True}, {"download_even_if_available": True, "n_retries": 0},
                                            {"download_if_missing": True, "n_retries": 2}, {"n_retries": 1, "delay": 0.0}])
        if i % 6 == 1:
            # two datasets of the same family (they share a module)
            fam = [n for n in names if n.split("_")[0].split("-")[:2] == a.split("_")[0].split("-")[:2] and n != a]
            if fam:
                c["second"] = rng.choice(fam)
        yield c
    # schedules
    ns = {"quick": 20, "thorough": 300}.get(tier, 6)
    for i in range(ns):
        n = rng.randint(2, 6 if tier != "thorough" else 16)
        procs = []
        for _ in range(n):
            sc = rng.choice([["g"], ["g"], ["u", "g"], ["c"], ["t", "t", "g"], ["u", "u"], ["x"]])
            procs.append({"ds": rng.choice([0, 0, 1]), "script": sc, "dl": rng.random() < 0.9, "even": rng.random() < 0.2,
                          "retries": 1, "gz": False})
        yield {"kind": "schedule", "procs": procs, "seed": rng.randint(0, 10 ** 6), "entries": rng.choice([[], [], [0], [0, 1]])}


def prefill(home, ds):
    d = os.path.join(home, CR.FOLDER)
    os.makedirs(d, exist_ok=True)
    with open(os.path.join(d, CR.slot_name(ds)), "wb") as f:
        pickle.dump(CR.good_array(ds), f)


def abstract(entry, tmps):
    return [entry, tmps[0] if tmps else "none"]


def load_pair(c):
    """load `second` alone and after `first` through the real load_dataset with a fake network"""
    import traffic_weaver.datasets._base as base
    from traffic_weaver.datasets import load_dataset
    from .c18 import tables, fake_payload
    by_url = {r["url"]: r for r in tables()["remotes"]}
    res = {}
    for mode in ("alone", "after"):
        home = scratch_dir("twv-c19p-", other_fs=c.get("home_fs") == "other")
        paths = {}

        down = {"on": False}

        def fake_retrieve(url, path):
            if down["on"]:
                from urllib.error import URLError
                raise URLError("network is down")
            paths[path] = url
            with open(path, "w") as f:
                f.write(fake_payload(url))
            return path, None

        def fake_sha(path):
            u = paths.get(path)
            return by_url[u]["checksum"] if u in by_url else "0" * 64
        old = (base.urlretrieve, base._sha256, os.environ.get("TRAFFIC_WEAVER_DATA"))
        base.urlretrieve, base._sha256 = fake_retrieve, fake_sha
        os.environ["TRAFFIC_WEAVER_DATA"] = home
        try:
            import traffic_weaver.datasets._datasets as dsmod

            def fetch(name, **kw):
                # the public per-dataset functions take the loader's options; load_dataset forwards only the unpack flag
                return getattr(dsmod, "fetch_" + name.replace("-", "_"))(**kw)
            if mode == "after":
                if c.get("first_kwargs"):
                    fetch(c["second"])                 # the second dataset is in the cache already
                    # the first load passes explicit options; they are the FIRST load's business only
                    fetch(c["first"], **c["first_kwargs"])
                elif c.get("first_fails"):
                    # the network is down for the whole first load (every retry fails; the error reaches the caller, no
                    # cache entry is left), then it is back: the second load must not care
                    down["on"] = True
                    import time as _time
                    real_sleep, _time.sleep = _time.sleep, (lambda s_: None)
                    try:
                        load_dataset(c["first"])
                    except Exception:  # noqa: expected
                        pass
                    finally:
                        _time.sleep = real_sleep
                        down["on"] = False
                else:
                    load_dataset(c["first"])
                before = len(paths)
            res[mode] = np.asarray(fetch(c["second"]) if c.get("first_kwargs") else load_dataset(c["second"])).tolist()
            if mode == "after" and c.get("first_kwargs"):
                res["network_on_cached"] = len(paths) > before
        except Exception as e:  # noqa
            res[mode] = {"err": type(e).__name__}
        finally:
            base.urlretrieve, base._sha256 = old[0], old[1]
            if old[2] is None:
                os.environ.pop("TRAFFIC_WEAVER_DATA", None)
            else:
                os.environ["TRAFFIC_WEAVER_DATA"] = old[2]
            shutil.rmtree(home, ignore_errors=True)
    return res


def run_impl(c):
    if c["kind"] == "pair":
        return load_pair(c)
    if c["kind"] == "threads2":
        home = scratch_dir("twv-c19t-")
        try:
            code, res = CR.run_in_child(lambda: CR.run_two_threads(home, c["gz"]))
            return res if res is not None else {"child_exit": code}
        finally:
            shutil.rmtree(home, ignore_errors=True)
    home = scratch_dir("twv-c19-", other_fs=c.get("home_fs") == "other")
    try:
        if c["kind"] == "script":
            if c["entry"] == "good":
                prefill(home, 0)
            seq = []

            def obs(tag):
                a = abstract(*CR.observe(home, 0))
                if not seq or seq[-1] != a:
                    seq.append(a)
            out = CR.run_loader(home, 0, c["script"], c["dl"], c["even"], c["retries"], c["gz"], observer=obs)
            out["seq"] = seq
            out["final"] = abstract(*CR.observe(home, 0))
            if "ok" in out:
                out["ok"] = "good" if np.array_equal(np.array(out["ok"]), CR.good_array(0)) else "other"
            return out
        if c["kind"] == "crash":
            if c["entry"] == "good":
                prefill(home, 0)
            code, _ = CR.run_in_child(lambda: CR.run_loader(home, 0, c["script"], True, c["even"], c["retries"], c["gz"],
                                                             crash_at=tuple(c["crash_at"])))
            after = CR.observe(home, 0)
            second = CR.run_loader(home, 0, ["g"] * (c["retries"] + 1), True, False, c["retries"], c["gz"])
            if "ok" in second:
                second["ok"] = "good" if np.array_equal(np.array(second["ok"]), CR.good_array(0)) else "other"
            final = CR.observe(home, 0)
            return {"exit": code, "after": [after[0], after[1]], "second": second, "final": [final[0], final[1]]}
        for ds in c["entries"]:
            prefill(home, ds)
        log, outs = CR.run_schedule(home, c["procs"], c["seed"])
        for o, p in zip(outs, c["procs"]):
            if "ok" in o:
                o["ok"] = "good" if np.array_equal(np.array(o["ok"]), CR.good_array(p["ds"])) else "other"
        return {"log": log, "outs": outs, "final": [CR.observe(home, 0)[0], CR.observe(home, 1)[0]],
                "garbage": CR.observe(home, 0)[1]}
    finally:
        shutil.rmtree(home, ignore_errors=True)


def b(v):
    return "1" if v else "0"


def request(c):
    if c["kind"] == "threads2":
        return None
    if c["kind"] == "script":
        return f"cachesolo {b(c['dl'])} {b(c['even'])} {c['retries']} {c['entry']} {','.join(c['script'])} -1"
    if c["kind"] == "pair":
        return None
    if c["kind"] == "crash":
        return (f"cachesolo 1 {b(c['even'])} {c['retries']} {c['entry']} {','.join(c['script'])} "
                f"{KILL_STEPS[tuple(c['crash_at'])] + c['script'].count('u')}")
    return None   # schedules need the observed log: built in compare through a second driver call


TMP_OF = {"init": "none", "fetching": "empty", "fetched": "archive", "verified": "archive", "parsed": "archive",
          "dumping": "archive+partial", "dumped": "archive+pickle", "renamed": "archive", "cleaned": "none",
          "readcache": "none", "done": "none", "failed": "none"}


def model_seq(trace, entry0):
    entry = "complete:good" if entry0 == "good" else "absent"
    seq = [[entry, "none"]]
    for pc in trace:
        name = pc.split(":")[0]
        if name == "renamed":
            entry = "complete:good"
        a = [entry, TMP_OF[name]]
        if seq[-1] != a:
            seq.append(a)
    return seq


def attempts_of(trace):
    n, prev = 0, "init"
    for pc in trace:
        if prev.startswith("fetching"):
            n += 1
        prev = pc
    return n


def outcome_of(io):
    if "ok" in io:
        return "done:101000" if io["ok"] == "good" else "done:other"
    return "failed:" + io["err"]


def parse_list(s):
    return [] if s == "-" else s.split(",")


def compare(c, io, mo):
    if c["kind"] in ("pair", "threads2"):
        return None
    if c["kind"] == "script":
        f = mo[0].split(" ")
        trace, entry = parse_list(f[1]), f[2]
        last = trace[-1] if trace else "init"
        if outcome_of(io) != last:
            return f"outcome impl {outcome_of(io)} model {last} (script {c['script']})"
        ms = model_seq(trace, c["entry"])
        if io["seq"] != ms:
            return f"file-system state sequence impl {io['seq']} model {ms}"
        if io["attempts"] != attempts_of(trace):
            return f"download attempts impl {io['attempts']} model {attempts_of(trace)}"
        want = "absent" if entry == "absent" else "complete:good"
        if io["final"][0] != want:
            return f"final entry impl {io['final'][0]} model {entry}"
        return None
    if c["kind"] == "crash":
        f = mo[0].split(" ")
        e1, tr2, e2 = f[2], parse_list(f[3]), f[4]
        if io["exit"] != 17:
            return f"child did not reach the crash point {c['crash_at']} (exit {io['exit']})"
        want1 = "absent" if e1 == "absent" else "complete:good"
        if io["after"][0] != want1:
            return f"entry after kill at {c['crash_at']}: impl {io['after'][0]} model {e1}"
        if outcome_of(io["second"]) != (tr2[-1] if tr2 else "?"):
            return f"fresh load after kill: impl {outcome_of(io['second'])} model {tr2[-1] if tr2 else '?'}"
        if io["final"][0] != ("absent" if e2 == "absent" else "complete:good"):
            return f"final entry after fresh load: impl {io['final'][0]} model {e2}"
        return None
    # schedule: replay the observed interleaving in the model
    from ..core import run_driver
    procs = c["procs"]
    evs = []
    for p, tag in io["log"]:
        tag = tag.rstrip("!")
        if tag.startswith("dl:"):
            evs.append(f"r{p}:{tag[3:]}")
        else:
            evs.append(f"r{p}:o")
    line = (f"cacherun 0,1 {','.join(str(p['ds']) for p in procs)} "
            f"{';'.join(b(p['dl']) + '/' + b(p['even']) + '/' + str(p['retries']) for p in procs)} "
            f"{','.join(str(e) for e in c['entries']) or '-'} {','.join(evs) or '-'}")
    ans = run_driver([line])[0]
    f = ans.split(" ")
    pcs, ents = parse_list(f[1]), parse_list(f[2])
    for i, (o, pc) in enumerate(zip(io["outs"], pcs)):
        want = pc.replace(f"done:{101000 + procs[i]['ds']}", "done:101000")
        if outcome_of(o) != want:
            return f"schedule: process {i} impl {outcome_of(o)} model {pc}; log {io['log']}"
    for s in (0, 1):
        want = "absent" if ents[s] == "absent" else "complete:good"
        if io["final"][s] != want:
            return f"schedule: final entry of slot {s} impl {io['final'][s]} model {ents[s]}"
    return None


def oracle(c, io):
    def entry_ok(e):
        return e in ("absent", "complete:good")
    if c["kind"] == "threads2":
        if io.get("A") != "good" or io.get("B") != "good" or io.get("attempts_B") != 2 \
                or any(not entry_ok(e) for e in io.get("entries", [])):
            return (f"two loader threads, one transient network error in thread B while thread A parses its download: "
                    f"A {io.get('A')}, B {io.get('B')} after {io.get('attempts_B')} download attempt(s) (a transient error "
                    f"must be absorbed by the retry), cache entries {io.get('entries')}")
        return None
    if c["kind"] == "pair" and io.get("network_on_cached"):
        return (f"load_dataset({c['second']!r}) went to the network although the dataset was in the cache, after "
                f"{c['first']!r} had been loaded with {c.get('first_kwargs')}: one load's options leak into the next")
    if c["kind"] == "pair":
        if io["alone"] != io["after"] or isinstance(io["alone"], dict):
            return (f"what load_dataset({c['second']!r}) returns depends on whether {c['first']!r} was loaded before "
                    f"(alone: {str(io['alone'])[:60]}, after: {str(io['after'])[:60]})")
        return None
    if c["kind"] == "script":
        if not entry_ok(io["final"][0]):
            return f"cache entry is {io['final'][0]} after script {c['script']}"
        if io.get("ok") == "other":
            return "data differing from the verified payload was returned"
        s, r = c["script"], c["retries"]
        avail = c["entry"] == "good"
        downloads = (c["dl"] and not avail) or (c["dl"] and c["even"] and avail)
        if not downloads:
            if io["attempts"] != 0:
                return "a cached dataset / a no-download request touched the network"
            if avail and io.get("ok") != "good":
                return f"cached dataset not served: {io}"
            if not avail and io.get("err") != "OSError":
                return f"missing data with download_if_missing=False: {io}"
            return None
        k = next((i for i, a in enumerate(s) if a not in ("u", "t")), len(s))
        if k <= r and k < len(s):
            a = s[k]
            if a == "g" and io.get("ok") != "good":
                return f"{k} transient failures (<= n_retries={r}) were not absorbed: {io}"
            if a in ("c", "x") and io.get("err") != "OSError":
                return f"payload with a wrong SHA-256 was not refused with OSError: {io}"
            if a in ("c", "x") and io["final"][0] != ("complete:good" if avail else "absent"):
                return "unverified data reached the cache"
        elif k >= r + 1:
            want = "URLError" if s[r] == "u" else "TimeoutError"
            if io.get("err") != want or io["attempts"] != r + 1:
                return f"{r+1} failures with n_retries={r}: expected {want} after {r+1} attempts, got {io.get('err')} after {io['attempts']}"
        return None
    if c["kind"] == "crash":
        if not entry_ok(io["after"][0]):
            return f"kill at {c['crash_at']} left the cache entry {io['after'][0]}"
        if io["second"].get("ok") != "good" or io["final"][0] != "complete:good":
            return f"a later load after a kill at {c['crash_at']} did not succeed with the verified data: {io['second']}, entry {io['final'][0]}"
        return None
    for e in io["final"]:
        if not entry_ok(e):
            return f"concurrent loaders left a cache entry {e}"
    for o, p in zip(io["outs"], c["procs"]):
        if o.get("ok") == "other":
            return "a concurrent loader returned data of another dataset / unverified data"
    return None


def tags(c, io, mo):
    t = [f"kind={c['kind']}"]
    if c["kind"] == "script":
        t += [f"outcome={outcome_of(io).split(':')[0]}" + (":" + io["err"] if "err" in io else ""), f"gz={c['gz']}",
              f"flags={b(c['dl'])}{b(c['even'])}", f"entry={c['entry']}"]
    elif c["kind"] in ("pair", "threads2"):
        pass
    elif c["kind"] == "crash":
        t.append(f"crash={c['crash_at'][0]}:{c['crash_at'][1]}")
    else:
        t.append(f"nprocs={len(c['procs'])}")
    return t


def nontrivial_key(c, io, mo):
    if c["kind"] == "script":
        return c if io["attempts"] > 0 else None
    return c


def matches_known(k, rec):
    return False
