"""C07 - recreation commutes with changes of units and acts locally."""
from __future__ import annotations

from fractions import Fraction

import numpy as np

from .. import rfa_common as R
from ..core import floats

ID = "C07"
THREADS = True       # part of the cases run concurrently in threads of one interpreter (the schedule dimension)
MODULES = ["TWV.Tie.ArrayHelpers", "TWV.Properties.RfaImp", "TWV.Tie.RfaLoops", "TWV.Properties.C07", "TWV.Tie.Funfit", "TWV.Tie.RfaParams"]
TRANSLATORS = ["t8_arrays", "t4_rfaloops", "t1_funfit", "t12_rfaparams"]
RULE = ("metamorphic pairs/triples of <Strategy>(...).rfa() runs over all six strategies: y -> a*y+b (generic dyadic a != 0, b "
        "for non-adaptive strategies; power-of-two a and integer b on integer-valued series for the adaptive ones), "
        "x -> c*x+d (c > 0), a change of one average (locality footprint: 1 neighbour, 2 for adaptive), and a convex mix of "
        "two value vectors (linearity of the non-adaptive strategies). Both runs of every pair are also compared with the "
        "model. Non-trivial: window strategy, non-constant y; distinct by full input.")
ASSUMPTIONS = ["the cubic spline's equivariance is SciPy's (checked on the real code only)"]


def cases(rng, tier):
    n_ = {"quick": 400, "thorough": 5000}.get(tier, 300)
    for _ in range(n_):
        base = R.gen_case(rng, strategies=R.WINDOW * 2 + ["pc", "cubic"], max_m=10, max_n=12, integer_ok=False)
        adaptive = base["strategy"].endswith("adaptive")
        m = len(base["x"])
        kind = rng.choice(["y_affine", "y_affine", "x_affine", "local", "mix"])
        if adaptive and kind == "mix":
            kind = "y_affine"
        c = {"base": base, "kind": kind}
        if kind == "y_affine":
            if adaptive:
                base["y"] = [str(Fraction(int(Fraction(v) * 2))) for v in base["y"]]
                c["a"] = str(rng.choice([Fraction(2), Fraction(-2), Fraction(1, 2), Fraction(4), Fraction(-1),
                                         Fraction(1, 2 ** 40), Fraction(-1, 2 ** 36), Fraction(2 ** 10)]))
                c["b"] = str(Fraction(rng.choice([rng.randint(-8, 8), 2 ** 20, -2 ** 24, 0])))
                if rng.random() < 0.35:
                    # jumps in perfect-square ratios with a square-root smoothing: the window shares are rational, and for
                    # many window sizes share * a is a whole number - the split must not depend on the unit of y
                    k0, lev, ys = rng.choice([1, 2, 3, 6]), Fraction(rng.randint(-8, 8)), []
                    for _ in range(m):
                        ys.append(lev)
                        lev += rng.choice([1, -1]) * k0 * rng.choice([1, 4, 9, 16, 4, 9])
                    base["y"] = [str(v) for v in ys]
                    base["smooth"] = 0.5
                    base["alpha"], base["a"] = None, rng.randint(2, base["n"])
                    base.pop("afloat", None)
                    c["a"] = str(rng.choice([Fraction(2), Fraction(1, 2), Fraction(8), Fraction(-2), Fraction(1, 8)]))
                    c["b"] = str(Fraction(rng.choice([0, 3, 1, -5])))
            else:
                a = rng.dyadic(-24, 24, 8)
                c["a"] = str(a if a != 0 else Fraction(3, 2))
                c["b"] = str(rng.dyadic(-40, 40, 8))
        elif kind == "x_affine":
            c["c"] = str(rng.choice([Fraction(1, 2), Fraction(2), Fraction(3), Fraction(5, 4), Fraction(8)]))
            c["d"] = str(rng.dyadic(-40, 40, 4))
        elif kind == "local":
            c["q"] = rng.randrange(m)
            c["delta"] = str(rng.choice([Fraction(1, 2), Fraction(-3, 4), Fraction(5), Fraction(-2)]))
        else:
            c["y3"] = [str(v) for v in rng.values(m)]
            c["t"] = str(rng.choice([Fraction(1, 4), Fraction(1, 2), Fraction(3, 4), Fraction(3, 2), Fraction(-1, 2)]))
        yield c


def variants(c):
    b = c["base"]
    x, y = R.series(b)
    out = [b]
    k = c["kind"]
    if k == "y_affine":
        a, bb = Fraction(c["a"]), Fraction(c["b"])
        out.append({**b, "y": [str(Fraction(float(a * v + bb))) for v in y]})
    elif k == "x_affine":
        cc, d = Fraction(c["c"]), Fraction(c["d"])
        out.append({**b, "x": [str(Fraction(float(cc * v + d))) for v in x]})
    elif k == "local":
        y2 = list(y)
        y2[c["q"]] += Fraction(c["delta"])
        out.append({**b, "y": [str(v) for v in y2]})
    else:
        y3 = [Fraction(v) for v in c["y3"]]
        t = Fraction(c["t"])
        out.append({**b, "y": c["y3"]})
        out.append({**b, "y": [str(Fraction(float(t * u + (1 - t) * v))) for u, v in zip(y, y3)]})
    return out


def run_impl(c):
    ios = [R.run_impl(v) for v in variants(c)]
    c["_ios"] = ios
    return {"runs": ios}


def request(c):
    lines, spans = [], []
    for v, io in zip(variants(c), c["_ios"]):
        ls, kinds = R.requests(v, io)
        spans.append((len(lines), len(lines) + len(ls), kinds))
        lines += ls
    c["_spans"] = spans
    return lines


def compare(c, io, mo):
    for v, r, (a, b, kinds) in zip(variants(c), io["runs"], c["_spans"]):
        d = R.compare(v, r, mo[a:b], kinds)
        if d:
            return d
    return None


def near(u, v, tol=1e-8):
    u, v = np.asarray(u, dtype=float), np.asarray(v, dtype=float)
    return u.shape == v.shape and np.all(np.abs(u - v) <= tol * max(1.0, float(np.max(np.abs(v)))))


def oracle(c, io):
    runs = io["runs"]
    if any("err" in r for r in runs):
        return f"valid request raised {[r.get('err') for r in runs]}"
    b = c["base"]
    s, n = b["strategy"], b["n"]
    x, y = R.series(b)
    m = len(x)
    r1, r2 = runs[0], runs[1]
    k = c["kind"]
    if k == "y_affine":
        a, bb = float(Fraction(c["a"])), float(Fraction(c["b"]))
        if not near(r2["xs"], r1["xs"], 1e-12):
            return "rescaling the values changed the abscissae"
        if not near(r2["ys"], [a * v + bb for v in r1["ys"]]):
            i = int(np.argmax(np.abs(np.array(r2["ys"]) - (a * np.array(r1["ys"]) + bb))))
            return (f"{s}: recreate(a*y+b) != a*recreate(y)+b at sample {i}: {r2['ys'][i]!r} vs {a * r1['ys'][i] + bb!r} "
                    f"(a={a}, b={bb})")
    elif k == "x_affine":
        cc, d = float(Fraction(c["c"])), float(Fraction(c["d"]))
        if not near(r2["xs"], [cc * v + d for v in r1["xs"]]):
            return "recreate(c*x+d): abscissae are not c*xs+d"
        if not near(r2["ys"], r1["ys"]):
            i = int(np.argmax(np.abs(np.array(r2["ys"]) - np.array(r1["ys"]))))
            return f"{s}: values depend on the time unit: sample {i} {r2['ys'][i]!r} vs {r1['ys'][i]!r} (c={cc}, d={d})"
    elif k == "local":
        if s == "cubic":
            return None
        reach = 2 if s.endswith("adaptive") else 1
        q = c["q"]
        for j in range(len(r1["ys"])):
            interval = min(j // n, m - 2) if j < (m - 1) * n else m - 1
            if abs(interval - q) > reach and abs(r1["ys"][j] - r2["ys"][j]) > 1e-9 * max(1.0, abs(r1["ys"][j])):
                return (f"{s}: changing average {q} changed sample {j} (interval {interval}), more than {reach} "
                        f"interval(s) away")
    else:
        t = float(Fraction(c["t"]))
        r3 = runs[2]
        want = [t * u + (1 - t) * v for u, v in zip(r1["ys"], r2["ys"])]
        if not near(r3["ys"], want):
            return f"{s}: not linear in the values with weights summing to one"
    return None


def tags(c, io, mo):
    t = [f"kind={c['kind']}", f"strategy={c['base']['strategy']}"]
    if any(R.unmodelled(mo[a:b]) for (a, b, _) in c["_spans"]):
        t.append("unmodelled")
    return t


def nontrivial_key(c, io, mo):
    b = c["base"]
    if b["strategy"] in R.WINDOW and len(set(b["y"])) > 1 and not any("err" in r for r in io["runs"]):
        return {k: v for k, v in c.items() if not k.startswith("_")}
    return None


def matches_known(k, rec):
    return False
