"""C20 - invalid requests are refused with ValueError and leave the Weaver untouched."""
from __future__ import annotations

from fractions import Fraction

import numpy as np

from .. import scenarios as SC

from .. import weaver_common as W
from ..core import err_kind

ID = "C20"
MODULES = ["TWV.Tie.WeaverEffects", "TWV.Properties.C20", "TWV.Tie.WeaverStep", "TWV.Tie.ProcessFns", "TWV.Tie.MatchFlow", "TWV.Tie.RfaParams", "TWV.Tie.WeaverIO"]
TRANSLATORS = ["t6_effects", "t9_weaver", "t10_process", "t11_match", "t12_rfaparams", "t14_weaverio"]
RULE = ("malformed stream of the session correspondence: each invalid-argument class (x/y length mismatch, non (N,2) array, "
        "oversampling factor < 2, unknown integration rule on either side, unknown search strategy, unknown interpolation "
        "method, fixed points that are not samples / outnumber the samples, empty or inverted truncation range (absolute and "
        "ratio, incl. the mixed-bounds case after a non-aligned truncation), out-of-range index bounds, slicing value that is "
        "not a sample, interpolation grid with different end points, unknown dataset name) is issued after a random valid "
        "history (0..5 operations incl. recreate, so that working, reference and original series differ); the error kind and "
        "the three series before/after are compared with the model. Non-trivial: history of >= 2 operations; distinct by "
        "program.")
ASSUMPTIONS = ["exceptions of other kinds on out-of-contract input (IndexError from an emptied reference, TypeError) are outside the statement"]

CLASSES = ["len_mismatch", "bad_shape", "small_n", "bad_ref_rule", "bad_target_rule", "bad_strategy", "bad_method",
           "fp_not_samples", "fp_too_many", "fpi_too_many", "trunc_inverted", "trunc_ratio_inverted", "trunc_mixed",
           "trunci_bounds", "slice_absent", "slicei_bounds", "grid_ends", "grid_ref_ends", "dataset"]


def harvested_methods():
    """names that exist in the library's own namespace (functions and helpers of traffic_weaver.process, with and without
    their prefixes / suffixes) but are not documented interpolation methods: a name table built by reflection accepts them"""
    from ..core import repo_on_path
    repo_on_path()
    import traffic_weaver.process as proc
    out = set()
    for name in dir(proc):
        if name.startswith("__"):
            continue
        base = name.strip("_")
        out.add(base)
        for affix in ("_interpolate", "interpolate_", "_interpolation", "interpolate"):
            if affix in base:
                out.add(base.replace(affix, "").strip("_"))
    return sorted(n for n in out if n and n not in ("linear", "constant", "cubic", "spline"))


def harvested_dataset_names():
    """names that exist in the namespaces of the dataset modules (helpers such as load_csv_dataset_from_resources,
    load_dataset_description, get_data_home; classes, constants, sub-modules), with and without the prefixes a loader
    table built by reflection would strip, in both spellings - none of them is a documented dataset"""
    import importlib
    import pkgutil
    from ..core import repo_on_path
    repo_on_path()
    import traffic_weaver.datasets as D
    import traffic_weaver.datasets._datasets as DS
    mods = [D] + [importlib.import_module(f"traffic_weaver.datasets.{m.name}") for m in pkgutil.iter_modules(D.__path__)]
    documented = {n for n in dir(DS) if n.startswith(("load_", "fetch_"))}
    names = set()
    for m in mods:
        for n in dir(m):
            if n.startswith("__") or not n.isascii():
                continue
            names.add(n)
            for pre in ("load_", "fetch_", "get_", "clear_", "_"):
                if n.startswith(pre):
                    names.add(n[len(pre):])
    out = []
    for n in sorted(names):
        if not n or ("load_" + n) in documented or ("fetch_" + n) in documented or n in documented:
            continue
        out.append(n)
        if "_" in n.strip("_"):
            out.append(n.replace("_", "-"))
    return out


def history(rng):
    ops = []
    for _ in range(rng.randint(0, 5)):
        r = rng.random()
        if r < 0.6:
            op = W.gen_domain_op(rng)
            if op["op"] == "trunc_v":
                op["fa"], op["fb"] = str(Fraction(rng.randint(0, 3), 16)), str(Fraction(rng.randint(12, 16), 16))
            if op["op"] == "trunc_i":
                op["safe"] = True
        else:
            op = W.gen_reshape_op(rng, ["recreate", "trend", "interp", "noise"])
            if op["op"] == "recreate":
                op["n"] = 2
                op["strategy"] = rng.choice(["pc", "linfixed", "expadaptive"]) if op["strategy"] == "cubic" else op["strategy"]
            if op["op"] == "interp":
                op["method"] = rng.choice(["linear", "constant"])
        ops.append(op)
    if rng.random() < 0.3:
        ops = W.sprinkle(rng, ops, 0.3, 0.0)       # earlier refused requests, caught by the application
    return ops


def gen(rng):
    cls = rng.choice(CLASSES)
    c = W.gen_init(rng, 5, 10)
    c["x_none"] = False
    c["cls"] = cls
    c["ops"] = history(rng)
    c["queries"] = []
    if cls == "len_mismatch":
        c["bad_len"] = True
        c["ops"] = []
    elif cls == "bad_shape":
        c["from2d"] = True
        c["bad_shape"] = rng.choice(["cols", "ndim"])
        c["ops"] = []
    elif cls == "small_n":
        c["ops"].append({"op": "recreate", "strategy": rng.choice(["pc", "linfixed", "expadaptive", "cubic"]),
                         "n": rng.choice([1, 0, -2, 1.5, 1.75, 450 / 300, 1.9999999999999998]), "force": True})
    elif cls == "bad_ref_rule":
        c["ops"].append({"op": "match", "target": "trapezoid", "ref": rng.choice(["simpson", "rect", "Rectangle"]), "alpha": 1,
                         "strategy": "closest", "force": True})
    elif cls == "bad_target_rule":
        c["ops"].append({"op": "match", "target": rng.choice(["simpson", "trapz", "Trapezoid"]), "ref": "rectangle", "alpha": 1,
                         "strategy": "closest", "force": True})
    elif cls == "bad_strategy":
        c["ops"].append({"op": "match", "target": "trapezoid", "ref": "rectangle", "alpha": 1,
                         "strategy": rng.choice(["nearest", "floor", "Closest"]), "force": True})
    elif cls == "bad_method":
        op = {"op": "interp", "method": rng.choice(["quadratic", "nearest", "Linear"] + harvested_methods()), "force": True}
        if rng.random() < 0.5:
            op["n"] = rng.randint(2, 9)
        else:
            op["grid"] = ["1/2"]
        c["ops"].append(op)
    elif cls == "fp_not_samples":
        c["ops"].append({"op": "match", "target": "trapezoid", "ref": "rectangle", "alpha": 1, "strategy": "closest",
                         "fp_kind": "not_samples", "force": True})
    elif cls == "fp_too_many":
        c["ops"].append({"op": "match", "target": "trapezoid", "ref": "rectangle", "alpha": 1, "strategy": "closest",
                         "fp_kind": "too_many", "force": True})
    elif cls == "fpi_too_many":
        c["ops"].append({"op": "match", "target": "trapezoid", "ref": "rectangle", "alpha": 1, "strategy": "closest",
                         "fp_kind": "too_many_idx", "force": True})
    elif cls == "trunc_inverted":
        c["ops"].append({"op": "trunc_v", "fa": "3/4", "fb": "1/4", "lk": rng.choice(["mid", "on"]), "rk": rng.choice(["mid", "on"]),
                         "lr": False, "rr": False, "force": True, "swap": True})
    elif cls == "trunc_ratio_inverted":
        c["ops"].append({"op": "trunc_v", "fa": "3/4", "fb": "1/4", "lk": "rawratio", "rk": "rawratio", "lr": True, "rr": True,
                         "force": True})
    elif cls == "trunc_mixed":
        # recreate, a truncation that is not aligned with the reference grid, then mixed ratio / absolute bounds that are
        # ordered for the working series but not for the reference
        c["x"] = ["0", "1", "2", "3"]
        c["y"] = ["1", "2", "3", "4"]
        c["as_list"] = False
        c["int_x"] = c["int_y"] = False
        c["ops"] = [{"op": "recreate", "strategy": "linfixed", "n": 4, "alpha": "1"},
                    {"op": "trunc_v", "fa": "3/10", "fb": "11/5", "lk": "raw", "rk": "raw", "lr": False, "rr": False, "force": True},
                    {"op": "trunc_v", "fa": "4/5", "fb": "2", "lk": "raw", "rk": "raw", "lr": True, "rr": False, "force": True}]
    elif cls == "trunci_bounds":
        c["ops"].append({"op": "trunc_i", "a": rng.choice([-1, 0, 2]), "b": rng.choice([10 ** 6, 5000]), "force": True}
                        if rng.random() < 0.6 else {"op": "trunc_i", "a": -rng.randint(1, 3), "b": None, "force": True})
    elif cls == "slice_absent":
        absent = rng.choice(["977/1024", "977/1024", "nan", "inf"])
        c["queries"] = [{"q": "slice_v", "start": rng.choice([None, "@0", absent]), "stop": absent, "step": 1}
                        if rng.random() < 0.5 else {"q": "slice_v", "start": rng.choice(["-977/1024", "nan", "-inf"]),
                                                    "stop": rng.choice([None, "@-1"]), "step": 1}]
    elif cls == "slicei_bounds":
        c["queries"] = [{"q": "slice_i", "start": rng.choice([-1, -3]), "stop": None, "step": 1}
                        if rng.random() < 0.5 else {"q": "slice_i", "start": 0, "stop": 10 ** 6, "step": 1}]
    elif cls == "grid_ends":
        c["ops"].append({"op": "interp", "method": rng.choice(["linear", "constant"]), "grid": ["1/2", "1/4"], "bad_ends": True,
                         "force": True})
        if rng.random() < 0.3:
            # end points that miss the series' by one unit in the last place (a range recomputed by the caller)
            c["ops"][-1]["bad_ends"] = "ulp"
        if rng.random() < 0.5:
            # keyword arguments that Weaver.interpolate passes through to the interpolation routine
            c["ops"][-1]["kwargs"] = rng.choice([{"period": 24.0}, {"period": 1.0}, {"left": 0.0}, {"right": 0.0},
                                                 {"left": 0.0, "right": 1.0}])
            c["ops"][-1]["method"] = "linear"
    elif cls == "grid_ref_ends":
        # working and reference series span different ranges; the grid has the REFERENCE's end points
        c["x"] = ["5", "6", "7", "8", "9", "10", "11", "12"]
        c["y"] = [str(v) for v in rng.values(8)]
        c["as_list"] = False
        c["int_x"] = c["int_y"] = False
        c["ops"] = [{"op": "recreate", "strategy": "linfixed", "n": 4, "alpha": "1"},
                    {"op": "trunc_v", "fa": "13/2", "fb": "21/2", "lk": "raw", "rk": "raw", "lr": False, "rr": False, "force": True},
                    {"op": "interp", "method": "linear", "grid": ["1/2"], "ref_ends": True, "force": True}]
    elif cls == "dataset":
        c["dataset"] = rng.choice(["no-such-dataset", "sandvine_nothing", "ams-ix_hourly", ""])
        c["bad_home"] = rng.random() < 0.4
        c["ops"] = []
    return c


def cases(rng, tier):
    for _sc in range(8 if tier != "thorough" else 80):
        yield SC.gen(rng, ['nan_refused'][_sc % 1])
    n_ = {"quick": 400, "thorough": 4000}.get(tier, 250)
    # every name of the library's own namespace that is not a documented method, once
    for name in harvested_methods():
        c = W.gen_init(rng, 5, 10)
        c.update({"x_none": False, "cls": "bad_method", "queries": [], "ops": history(rng)[:2]})
        c["ops"].append({"op": "interp", "method": name, "force": True, **({"n": rng.randint(2, 9)} if rng.random() < 0.5 else {"grid": ["1/2"]})})
        yield c
    # every name of the dataset modules' own namespaces that is not a documented dataset, once
    for name in harvested_dataset_names():
        c = W.gen_init(rng, 5, 6)
        c.update({"x_none": False, "cls": "dataset", "queries": [], "ops": [], "dataset": name, "bad_home": False})
        yield c
    for _ in range(n_):
        yield gen(rng)


def run_impl(c):
    if isinstance(c, dict) and "scenario" in c:
        return SC.run(c)
    # resolve the run-time dependent arguments of the invalid operation
    for op in c["ops"]:
        if op["op"] == "trunc_v" and op.get("lk") in ("raw", "rawratio"):
            op["lk"] = op["rk"] = "raw"
    if c.get("dataset") is not None:
        from traffic_weaver.datasets import load_dataset
        import os
        import tempfile
        old_home = os.environ.get("TRAFFIC_WEAVER_DATA")
        blocker = None
        if c.get("bad_home"):
            # a data home that cannot be created (a path below a regular file): an unknown name is refused all the same
            fd, blocker = tempfile.mkstemp(prefix="twv-c20-")
            os.close(fd)
            os.environ["TRAFFIC_WEAVER_DATA"] = os.path.join(blocker, "cache")
        try:
            load_dataset(c["dataset"])
            io = {"steps": [{"ok": True}], "lines": []}
        except Exception as e:  # noqa
            io = {"steps": [{"err": err_kind(e)}], "lines": []}
        finally:
            if blocker:
                os.unlink(blocker)
                if old_home is None:
                    os.environ.pop("TRAFFIC_WEAVER_DATA", None)
                else:
                    os.environ["TRAFFIC_WEAVER_DATA"] = old_home
        c["_lines"] = [f"resolve {c['dataset'] or '_'} load_sandvine_audio,fetch_mix_it_milan_daily"]
        return io
    for op in c["ops"]:
        if op.get("fp_kind"):
            op["_fp"] = True
    io = run_with_fp(c)
    c["_lines"] = io["lines"]
    return io


def run_with_fp(c):
    """fixed-point arguments depend on the state reached: wrap apply_op"""
    orig = W.apply_op

    def patched(w, op, rng_state=None):
        if op.get("fp_kind") and "fpx" not in op and "fpi" not in op:
            xs = [Fraction(float(v)) for v in w.x]
            n = len(xs)
            if op["fp_kind"] == "not_samples":
                op["fpx"] = [str(xs[0]), str((xs[0] + xs[1]) / 2 + Fraction(1, 1024)), str(xs[-1])]
            elif op["fp_kind"] == "too_many":
                op["fpx"] = [str(xs[i % n]) for i in range(n + 2)]
            else:
                op["fpi"] = [i % n for i in range(n + 2)]
        if op["op"] == "trunc_v" and op.get("swap"):
            pass
        return orig(w, op, rng_state)
    W.apply_op = patched
    try:
        return W.run_program(c)
    finally:
        W.apply_op = orig


def request(c):
    if isinstance(c, dict) and "scenario" in c:
        return []
    return c["_lines"]


def compare(c, io, mo):
    if isinstance(c, dict) and "scenario" in c:
        return None
    if c.get("dataset") is not None:
        st = io["steps"][0]
        return None if mo[0] == f"ERR {st.get('err')}" else f"dataset {c['dataset']!r}: impl {st}, model {mo[0]}"
    return W.compare_program(c, io, mo)


def oracle(c, io):
    if isinstance(c, dict) and "scenario" in c:
        return io.get("finding")
    steps = io["steps"]
    cls = c["cls"]
    bad = W.accepted_invalid(io)
    if bad:
        return bad
    if cls in ("len_mismatch", "bad_shape", "dataset"):
        return None if steps[0].get("err") == "ValueError" else f"{cls}: not rejected with ValueError: {steps[0]}"
    nops = len(c["ops"])
    if cls in ("slice_absent", "slicei_bounds"):
        q = [s for s in steps if "query" in s or "query_err" in s]
        if any("err" in s for s in steps):
            return None
        if not q or q[0].get("query_err") != "ValueError":
            return f"{cls}: not rejected with ValueError: {q[:1]}"
        return None
    # the invalid operation is the last one executed
    errs = [i for i, s in enumerate(steps) if "err" in s]
    if not errs:
        if cls == "bad_target_rule":
            return None       # with fewer than two fixed points no window exists and the rule is never looked at
        return f"{cls}: invalid request was accepted"
    i = errs[0]
    if i != nops:
        if steps[i]["err"] == "ValueError":
            return None      # the valid history itself ran into a rejected request (e.g. an empty range): nothing to judge
        return f"valid history raised {steps[i]['err']}"
    if steps[i]["err"] != "ValueError":
        return f"{cls}: rejected with {steps[i]['err']} instead of ValueError"
    before, after = steps[i - 1]["state"], steps[i]["state"]
    def same(u, v):
        # NaN entries (constant data normalised earlier in the history) are equal to themselves here
        if u is None or v is None or len(u) != len(v):
            return u == v
        return all(a == b or (a != a and b != b) for a, b in zip(u, v))
    for k in W.KEYS:
        if not same(before[k], after[k]):
            return (f"{cls}: the rejected operation changed {k} (len {len(before[k] or [])} -> {len(after[k] or [])}); a "
                    f"rejected Weaver operation must leave the series as they were")
    return None


def tags(c, io, mo):
    if isinstance(c, dict) and "scenario" in c:
        return ["scenario=" + c["scenario"]]
    t = [f"class={c['cls']}", f"history={len(c['ops'])}"]
    for s in io["steps"]:
        if "err" in s:
            t.append(f"error={s['err']}")
        if "query_err" in s:
            t.append(f"error={s['query_err']}")
    return t


def nontrivial_key(c, io, mo):
    if isinstance(c, dict) and "scenario" in c:
        return c
    if len(c["ops"]) >= 2:
        return {"cls": c["cls"], "x": c["x"], "ops": [{k: v for k, v in o.items() if not k.startswith("_")} for o in c["ops"]],
                "queries": c.get("queries")}
    return None


def matches_known(k, rec):
    return False
