"""C03 - matching moves only interior samples, along the documented profile."""
from __future__ import annotations

import itertools
from fractions import Fraction

import numpy as np

from .. import shapes as S

from ..core import fmt, fmt_list, parse_rats, frac, err_kind, close, vclose, floats
from . import c01

ID = "C03"
THREADS = True       # part of the cases run concurrently in threads of one interpreter (the schedule dimension)
MODULES = ["TWV.Properties.C03", "TWV.Tie.Vector", "TWV.Tie.MatchFlow", "TWV.Tie.WeaverStep"]
TRANSLATORS = ["t3_vector", "t11_match", "t9_weaver"]
RULE = ("(a) the C01 generator (reference matching: n 3..60, three fixed-point modes, 2x2 rules, integer and table exponents) "
        "with the displacement-profile oracle and a second matching pass (idempotence); (b) the stretching kernel alone on "
        "rational grids of <= 8 points from a small lattice (thorough: every increasing grid of 3..6 points over {0..7}/2 "
        "x 3 exponents x 2 rules) with random y and targets, comparing the displacement vector and the affine law. "
        "Non-trivial: some interior sample is displaced; distinct by full input.")
ASSUMPTIONS = c01.ASSUMPTIONS


def kernel_case(rng, x=None, alpha=None, rule=None):
    if x is None:
        n = rng.randint(2, 8)
        x = rng.increasing(n)
    n = len(x)
    return {"kernel": True, "x": [str(v) for v in x], "y": [str(v) for v in rng.values(n)],
            "y2": [str(v) for v in rng.values(n)], "I": str(rng.dyadic()), "I2": str(rng.dyadic()),
            "a": str(rng.dyadic(-16, 16, 4)),
            "rule": rule or rng.choice(c01.RULES), "alpha": alpha or rng.choice([1, 2, 3])}


def cases(rng, tier):
    if tier == "quick":
        for c in c01.cases(rng, "quick"):
            yield c
        for _ in range(200):
            k = kernel_case(rng)
            yield k
            # a twin with the same end points, sample count and exponent but different interior samples, evaluated in
            # the same process (a result must not depend on earlier calls)
            x = [Fraction(v) for v in k["x"]]
            if len(x) >= 4:
                inner = sorted(rng.sample([x[0] + (x[-1] - x[0]) * Fraction(j, 64) for j in range(1, 64)], len(x) - 2))
                yield kernel_case(rng, [x[0]] + inner + [x[-1]], k["alpha"], k["rule"])
    elif tier == "thorough":
        for c in c01.cases(rng, "thorough"):
            yield c
        lat = [Fraction(k, 2) for k in range(8)]
        for k in range(3, 7):
            for grid in itertools.combinations(lat, k):
                for alpha in (1, 2, 3):
                    for rule in c01.RULES:
                        yield kernel_case(rng, list(grid), alpha, rule)
    else:
        for c in c01.cases(rng, "search"):
            yield c
        for _ in range(200):
            yield kernel_case(rng)


def kvals(c):
    g = lambda k: [Fraction(v) for v in c[k]]
    return g("x"), g("y"), g("y2"), Fraction(c["I"]), Fraction(c["I2"]), Fraction(c["a"])


def request(c):
    if c.get("kernel"):
        x, y, y2, I, I2, a = kvals(c)
        return f"stretch {c['rule']} {c['alpha']} {fmt_list(x)} {fmt_list(y)} {fmt(I)}"
    return c01.request(c)


def _kernel(x, y, I, rule, alpha):
    from traffic_weaver.match import _integral_matching_stretch
    return [float(v) for v in _integral_matching_stretch(S.arr(floats(x)), S.arr(floats(y)),
                                                           integral_value=float(I), integral_method=rule, alpha=alpha)]


def run_impl(c):
    if c.get("kernel"):
        x, y, y2, I, I2, a = kvals(c)
        try:
            b = 1 - a
            ymix = [a * u + b * v for u, v in zip(y, y2)]
            return {"ok": _kernel(x, y, I, c["rule"], c["alpha"]),
                    "ok2": _kernel(x, y2, I2, c["rule"], c["alpha"]),
                    "mix": _kernel(x, ymix, a * I + b * I2, c["rule"], c["alpha"])}
        except Exception as e:  # noqa
            return {"err": err_kind(e)}
    io = c01.run_impl(c)
    if "ok" in io:
        # second pass: match the result again with the same arguments
        c2 = dict(c)
        c2["y"] = [str(Fraction(v)) for v in io["ok"]]
        io2 = c01.run_impl(c2)
        io["again"] = io2.get("ok", io2)
    return io


def compare(c, io, mo):
    if c.get("kernel"):
        m = mo[0]
        if "err" in io:
            return f"kernel raised {io['err']}, model says {m}"
        if m == "nan":
            return None if not all(np.isfinite(io["ok"])) else "model undefined, impl finite"
        mv = parse_rats(m[3:])
        x, y, *_ = kvals(c)
        dm = [a - b for a, b in zip(mv, y)]
        di = [a - float(b) for a, b in zip(io["ok"], y)]
        return None if vclose(di, dm, 1e-9, ref=list(y) + [Fraction(c["I"])]) else f"displacement vectors differ: impl {di[:4]} model {[float(v) for v in dm[:4]]}"
    return c01.compare(c, io, mo)


def oracle(c, io):
    if c.get("kernel"):
        if "err" in io:
            return f"kernel raised {io['err']}"
        x, y, y2, I, I2, a = kvals(c)
        n = len(x)
        if n < 2:
            return None
        d = [u - float(v) for u, v in zip(io["ok"], y)]
        if n > 2:
            ctr = (x[-1] + x[0]) / 2
            w = [1 - float(2 * abs(ctr - xi) / (x[-1] - x[0])) ** c["alpha"] for xi in x]
        else:
            w = [1.0, 1.0]
        scale = max(1.0, max(abs(v) for v in d))
        for i in range(n):
            for j in range(i + 1, n):
                if abs(d[i] * w[j] - d[j] * w[i]) > 1e-9 * scale:
                    return f"displacements not proportional to 1-(2|x-c|/width)^alpha: d={d}, w={w}"
        if n > 2 and (abs(d[0]) > 1e-9 * scale or abs(d[-1]) > 1e-9 * scale):
            return f"end samples moved: {d[0]}, {d[-1]}"
        b = 1 - a
        want = [float(a) * u + float(b) * v for u, v in zip(io["ok"], io["ok2"])]
        if not close(io["mix"], [Fraction(v) for v in want], 1e-8):
            return "kernel is not affine in (y, target)"
        return None
    pre = c01.preconditions(c)
    if pre is None or "err" in io:
        return None
    F, R = pre
    x, y, xref, yref = c01.vals(c)
    z = io["ok"]
    yf = floats(y)
    scale = max([abs(v) for v in z] + [abs(v) for v in yf] + [1e-300])
    for j in range(len(x)):
        if (j <= F[0] or j >= F[-1] or j in F) and abs(z[j] - yf[j]) > 1e-9 * scale:
            return f"sample {j} (outside the fixed span or a fixed point) moved from {yf[j]} to {z[j]}"
    for s, e in zip(F[:-1], F[1:]):
        ctr = (x[e] + x[s]) / 2
        w = [1 - float(2 * abs(ctr - x[i]) / (x[e] - x[s])) ** c["alpha"] for i in range(s, e + 1)]
        d = [z[i] - yf[i] for i in range(s, e + 1)]
        sc = max([abs(v) for v in d] + [1e-9 * scale])
        if any(u > 1e-9 * sc for u in d) and any(u < -1e-9 * sc for u in d):
            return f"window {s}..{e}: interior samples displaced in different directions: {d}"
        for i in range(len(d)):
            for j in range(i + 1, len(d)):
                if abs(d[i] * w[j] - d[j] * w[i]) > 1e-8 * sc:
                    return f"window {s}..{e}: displacements not proportional to the documented profile"
    again = io.get("again")
    if not isinstance(again, list) or not vclose(again, [Fraction(v) for v in z], 1e-8):
        return f"matching an already matched function changed it (or failed): {str(again)[:80]}"
    return None


def tags(c, io, mo):
    if c.get("kernel"):
        return ["kernel", f"kernel-n={len(c['x'])}", f"kernel-rule={c['rule']}", f"kernel-alpha={c['alpha']}"]
    return c01.tags(c, io, mo)


def nontrivial_key(c, io, mo):
    if c.get("kernel"):
        if "err" in io:
            return None
        y = [float(Fraction(v)) for v in c["y"]]
        if len(y) > 2 and any(abs(a - b) > 1e-12 for a, b in zip(io["ok"], y)):
            return {k: c[k] for k in ("x", "y", "I", "rule", "alpha")}
        return None
    return c01.nontrivial_key(c, io, mo)


def matches_known(k, rec):
    return False
