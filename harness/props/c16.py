"""C16 - smoothing and the spline function respect the smoothing condition."""
from __future__ import annotations

import warnings
from fractions import Fraction

import numpy as np

from .. import shapes as S

from ..core import fmt_list, frac, err_kind, floats

ID = "C16"
MODULES = ["TWV.Properties.C16", "TWV.Tie.WeaverStep", "TWV.Tie.SmoothGlue", "TWV.Tie.WeaverIO"]
TRANSLATORS = ["t9_weaver", "t15_smoothglue", "t14_weaverio"]
RULE = ("random series of 5..40 points (uniform or not, smooth or noisy, affine), s in {None, 0} u [1e-4, 1e2]; the harness calls "
        "SciPy (splrep + BSpline) itself with the triple (x, y, s_eff) the model says is forwarded - s_eff = len(y)*var(y) "
        "computed by the model for s=None - and compares with Weaver.smooth(s).get(), Weaver.to_function(s)(x) and "
        "process.spline_smooth; runs in which FITPACK warns about non-convergence are discarded and counted. "
        "Non-trivial: non-affine data with s > 0; distinct by input.")
ASSUMPTIONS = ["FITPACK's contract (sum of squared deviations <= s*(1+1e-3), exact interpolation for s=0, reproduction of "
               "polynomials of degree <= 3) is assumed in the theorems and only observed on the real code"]
PARTIAL = "everything about the spline itself is SciPy/FITPACK (assumed contract); proved: the forwarded triple, default s, frame"


LONG_SIZES = [65537, 98305, 131073, 196609, 262145, 393217, 524289, 786433]      # 2**k + 1 and 3 * 2**k + 1


def long_case(rng, size=None):
    """a long series (hundreds of thousands of samples) with implicit or integer abscissae, smoothed with s = 0 (the only
    setting FITPACK answers quickly at this size): the result is the series"""
    return {"long": size or rng.choice(LONG_SIZES), "xkind": rng.choice(["none", "int", "table"]), "x": ["0", "1"],
            "y": [str(v) for v in rng.values(9)], "s": 0.0, "shape": "noisy", "int_y": False,
            "layout": "contig,contig,contig", "hist": "none"}


def run_long(c):
    from traffic_weaver import Weaver
    n = c["long"]
    pat = np.array(floats([Fraction(v) for v in c["y"]]))
    y = np.resize(pat, n) + np.arange(n) % 5 * 0.25
    if c["xkind"] == "none":
        w = Weaver(None, y.copy())
    elif c["xkind"] == "int":
        w = Weaver(np.arange(n), y.copy())
    else:
        w = Weaver.from_2d_array(np.column_stack([np.arange(n, dtype=float), y]))
    with warnings.catch_warnings():
        warnings.simplefilter("ignore")
        try:
            r = w.smooth(0.0).get()[1]
        except Exception as e:  # noqa
            return {"err": err_kind(e)}
    r = np.asarray(r, dtype=float)
    bad = np.nonzero(~(np.abs(r - y) <= 1e-7 * max(1.0, float(np.max(np.abs(y))))))[0] if len(r) == n else np.array([-1])
    return {"long_ok": len(bad) == 0, "len": int(len(r)), "first_bad": int(bad[0]) if len(bad) else None,
            "bad_value": (float(r[bad[0]]) if len(bad) and bad[0] >= 0 else None), "warned": False}


def cases(rng, tier):
    n_ = {"quick": 200, "thorough": 2000}.get(tier, 150)
    if tier == "thorough":
        for sz in LONG_SIZES:
            yield long_case(rng, sz)
    else:
        yield long_case(rng, 786433 if tier == "quick" else None)
        yield long_case(rng)
    for _ in range(n_):
        n = rng.randint(5, 40)
        x = rng.increasing(n)
        shape = rng.choice(["noisy", "smooth", "affine"])
        if shape == "affine":
            a, b0 = rng.dyadic(-16, 16, 4), rng.dyadic(-16, 16, 4)
            y = [a * v + b0 for v in x]
        elif shape == "smooth":
            y = [Fraction(int(8 * np.sin(float(v) / 3)), 8) for v in x]
        else:
            y = rng.values(n)
        s = rng.choice([None, 0.0, 1e-4, 1e-2, 0.5, 1.0, 10.0, 100.0])
        if shape == "noisy" and rng.random() < 0.15:
            # an extra reading a few billionths of the sampling interval after a regular one (two sources, a retransmission):
            # still two distinct samples with their own readings
            j = rng.randrange(1, n - 1)
            x = x[:j + 1] + [x[j] + Fraction(1, 2 ** 28)] + x[j + 1:]
            y = y[:j + 1] + [y[j] + rng.choice([1, -1]) * rng.choice([Fraction(1, 2), 1, 2])] + y[j + 1:]
            n += 1
            shape = "twin"
        if rng.random() < 0.12:
            # a ripple on a high level (a counter far from zero): the default smoothing condition is about the SPREAD
            shape = "level"
            level = rng.choice([10 ** 9, 2 ** 33, -(10 ** 9)])
            y = [Fraction(level) + Fraction(int(8 * np.sin(float(v) / 3) + rng.randint(-2, 2)), 8) for v in x]
            s = rng.choice([None, None, 0.5])
        int_y = rng.random() < 0.2 and shape != "level"
        if int_y:
            y = [Fraction(int(v * 4)) for v in y]          # counts: held with an integer dtype
            if shape == "affine":
                shape = "noisy"                             # truncation to integers destroys exact affinity
        c = {"x": [str(v) for v in x], "y": [str(v) for v in y], "s": s, "shape": shape, "int_y": int_y}
        if rng.random() < 0.4 and shape not in ("level", "twin"):
            # the function / the smoothing asked of an object with a history: operations of the facade that change the
            # samples first (the spline is a function of the samples the object holds NOW, whatever was done before)
            ops = []
            for _ in range(rng.randint(1, 3)):
                k = rng.choice(["append_periodic", "append_periodic", "append", "shift_y", "scale_y", "shift_x", "scale_x",
                                "trend", "repeat", "cut"])
                ops.append({"append_periodic": ["append", True], "append": ["append", False],
                            "shift_y": ["shift_y", float(rng.dyadic(-8, 8, 4))],
                            "scale_y": ["scale_y", float(rng.choice([2, -1, 0.5, 3]))],
                            "shift_x": ["shift_x", float(rng.dyadic(-8, 8, 4))], "scale_x": ["scale_x", float(rng.choice([2, 0.5, 4]))],
                            "trend": ["trend", float(rng.choice([1, -2, 0.5, 3]))], "repeat": ["repeat", 2],
                            "cut": ["cut", 1]}[k])
            c["prelude"] = ops
        yield c


def request(c):
    if c.get("long"):
        return []
    return f"defaults {fmt_list([Fraction(v) for v in c['y']])}"


def run_impl(c):
    if c.get("long"):
        return run_long(c)
    from traffic_weaver import Weaver
    from traffic_weaver.process import spline_smooth
    x = S.arr(floats([Fraction(v) for v in c["x"]]))
    y = S.arr(floats([Fraction(v) for v in c["y"]]))
    if c.get("int_y"):
        y = S.arr([int(Fraction(v)) for v in c["y"]])
    out = {}
    with warnings.catch_warnings(record=True) as wl:
        warnings.simplefilter("always")
        try:
            f = spline_smooth(x, y, c["s"])
            out["direct"] = [float(v) for v in f(x)]
            if c["s"] is not None:
                w = Weaver(x, y)
                out["smooth"] = [float(v) for v in w.smooth(c["s"]).get()[1]]
                out["smooth_x"] = [float(v) for v in w.get()[0]]
                out["fun"] = [float(v) for v in Weaver(x, y).to_function(c["s"])(x)]
            out["fun0"] = [float(v) for v in Weaver(x, y).to_function()(x)]
            # sampled again after the samples were edited through the arrays get() returns
            w2 = Weaver(x.copy(), y.copy())
            w2.to_function()
            gy = w2.get()[1]
            gy[len(gy) // 2] += 3.0
            out["fun0_after_edit"] = [float(v) for v in w2.to_function()(w2.get()[0])]
            out["y_after_edit"] = [float(v) for v in w2.get()[1]]
            mid = (x[:-1] + x[1:]) / 2
            out["fun0_mid"] = [float(v) for v in Weaver(x, y).to_function()(mid)]
            if c.get("prelude"):
                w3 = Weaver(x.copy(), y.copy())
                for op, a in c["prelude"]:
                    if op == "append":
                        w3.append_one_sample(make_periodic=a)
                    elif op == "trend":
                        w3.trend(lambda t, a=a: a * t)
                    elif op == "cut":
                        if len(w3) >= 8:
                            w3.truncate_by_index(a, len(w3) - a)
                    elif op == "repeat":
                        if len(w3) <= 60:
                            w3.repeat(a)
                    else:
                        getattr(w3, op)(a)
                px, py = (np.array(v, dtype=float, copy=True) for v in w3.get())
                out["hist_x"], out["hist_y"] = [float(v) for v in px], [float(v) for v in py]
                out["hist_fun0"] = [float(v) for v in w3.to_function(0.0)(px)]
                if c["s"]:
                    out["hist_fun_s"] = [float(v) for v in w3.to_function(c["s"])(px)]
                    out["hist_smooth"] = [float(v) for v in w3.smooth(c["s"]).get()[1]]
        except Exception as e:  # noqa
            return {"err": err_kind(e)}
        out["warned"] = any("fp" in str(m.message) or "iter" in str(m.message).lower() or "RuntimeWarning" in str(m.category)
                            for m in wl)
    return out


def scipy_direct(x, y, s):
    from scipy.interpolate import BSpline, splrep
    with warnings.catch_warnings():
        warnings.simplefilter("ignore")
        return [float(v) for v in BSpline(*splrep(x, y, s=s))(x)]


def compare(c, io, mo):
    if "err" in io:
        return f"impl raised {io['err']}"
    if io["warned"] or c.get("long"):
        return None
    x = S.arr(floats([Fraction(v) for v in c["x"]]))
    y = S.arr(floats([Fraction(v) for v in c["y"]]))
    s_model = float(Fraction(mo[0][3:]))
    s_eff = s_model if c["s"] is None else c["s"]
    want = scipy_direct(x, y, s_eff)
    # relative to the spread of the data, plus the rounding that the level itself forces on every value
    scale = max(1.0, float(np.max(np.abs(y - np.mean(y))))) + 1e-7 ** -1 * 256 * 2.3e-16 * float(np.max(np.abs(y)))
    for key in ("direct", "smooth", "fun"):
        if key in io and np.max(np.abs(np.array(io[key]) - np.array(want))) > 1e-7 * scale:
            return (f"{key}: differs from SciPy called with the forwarded triple (x, y, s={s_eff}); "
                    f"max deviation {float(np.max(np.abs(np.array(io[key]) - np.array(want))))}")
    if "hist_fun_s" in io:
        hx, hy = np.array(io["hist_x"]), np.array(io["hist_y"])
        want = scipy_direct(hx, hy, c["s"])
        hscale = max(1.0, float(np.max(np.abs(hy - np.mean(hy))))) + 1e-7 ** -1 * 256 * 2.3e-16 * float(np.max(np.abs(hy)))
        for key in ("hist_fun_s", "hist_smooth"):
            if len(io[key]) != len(want) or np.max(np.abs(np.array(io[key]) - np.array(want))) > 1e-7 * hscale:
                return (f"{key} after {c['prelude']}: differs from SciPy called with the samples the object held and s={c['s']}")
    return None


def oracle(c, io):
    if "err" in io:
        return f"smoothing raised {io['err']}"
    if c.get("long"):
        if not io["long_ok"]:
            return (f"smooth(0) of a series of {c['long']} samples ({c['xkind']} abscissae) is not the series: length {io['len']}, "
                    f"sample {io['first_bad']} became {io['bad_value']!r} (summed squared deviation > s = 0)")
        return None
    if io["warned"]:
        return None
    y = floats([Fraction(v) for v in c["y"]])
    x = floats([Fraction(v) for v in c["x"]])
    n = len(y)
    mean_ = sum(y) / n
    # relative to the spread of the data, plus the rounding that the level itself forces on every value
    scale = max(1.0, max(abs(v - mean_) for v in y)) + 1e-7 ** -1 * 256 * 2.3e-16 * max(abs(v) for v in y)
    if any(abs(a - b) > 1e-7 * scale for a, b in zip(io["fun0"], y)):
        return "to_function() with its default zero smoothing does not pass through every sample"
    if "fun0_after_edit" in io and any(abs(a - b) > 1e-7 * scale for a, b in zip(io["fun0_after_edit"], io["y_after_edit"])):
        return "to_function() is not consistent with get(): after the samples changed it still returns the old fit"
    s = c["s"]
    if s is None:
        mean = sum(y) / n
        s = sum((v - mean) ** 2 for v in y)
    for key in ("direct", "smooth"):
        if key not in io:
            continue
        r = io[key]
        if len(r) != n:
            return f"{key}: length changed"
        dev = sum((a - b) ** 2 for a, b in zip(r, y))
        if dev > s * (1 + 1e-3) + 1e-9 * scale * scale:
            return f"{key}: summed squared deviation {dev} exceeds the smoothing condition s={s}"
        if c["s"] == 0.0 and any(abs(a - b) > 1e-7 * scale for a, b in zip(r, y)):
            return f"{key}: s = 0 is not the identity"
        if c["shape"] == "affine" and any(abs(a - b) > 1e-6 * scale for a, b in zip(r, y)):
            return f"{key}: affine data changed by smoothing"
    if "smooth_x" in io and io["smooth_x"] != x:
        return "smooth changed x"
    if "hist_fun0" in io:
        hy = io["hist_y"]
        hm = sum(hy) / len(hy)
        hscale = max(1.0, max(abs(v - hm) for v in hy)) + 1e-7 ** -1 * 256 * 2.3e-16 * max(abs(v) for v in hy)
        bad = [i for i, (a, b) in enumerate(zip(io["hist_fun0"], hy)) if not abs(a - b) <= 1e-7 * hscale]
        if bad or len(io["hist_fun0"]) != len(hy):
            i = bad[0] if bad else -1
            return (f"after {c['prelude']} to_function(0) does not pass through the samples the object holds: at sample {i} of "
                    f"{len(hy)} it gives {io['hist_fun0'][i]!r}, the series has {hy[i]!r}")
        if "hist_fun_s" in io:
            for key in ("hist_fun_s", "hist_smooth"):
                dev = sum((a - b) ** 2 for a, b in zip(io[key], hy))
                if len(io[key]) != len(hy) or dev > c["s"] * (1 + 1e-3) + 1e-9 * hscale * hscale:
                    return f"{key} after {c['prelude']}: summed squared deviation {dev} exceeds the smoothing condition s={c['s']}"
    return None


def tags(c, io, mo):
    if c.get("long"):
        return ["long-series", f"long:x={c['xkind']}"]
    return [f"s={c['s']}", f"shape={c['shape']}"] + (["fitpack-warning-discarded"] if io.get("warned") else [])


def nontrivial_key(c, io, mo):
    return c if c["shape"] != "affine" and (c["s"] is None or c["s"] > 0) and "err" not in io and not io.get("warned") else None


def matches_known(k, rec):
    return False
