"""C08 - reference series tracks domain transformations through any history."""
from __future__ import annotations

import itertools
import warnings
from fractions import Fraction

import numpy as np

from .. import shapes as S

from .. import scenarios as SC
from .. import weaver_common as W
from ..core import floats

ID = "C08"
THREADS = True       # part of the cases run concurrently in threads of one interpreter (the schedule dimension)
MODULES = ["TWV.Tie.WeaverEffects", "TWV.Properties.C08", "TWV.Properties.C08Commute", "TWV.Tie.WeaverStep"]
TRANSLATORS = ["t6_effects", "t9_weaver"]
RULE = ("random histories (length 0..8) of the ten domain operations (append, shift x/y, scale x/y, normalise x/y, repeat, "
        "truncate by value with absolute / ratio / on-sample bounds, truncate by index) on random series of 4..12 points, "
        "followed by a recreate (six strategies, n 2..5) + integral_match (2x2 rules, alpha 1..3) pipeline; thorough adds "
        "every sequence of <= 3 operations over a fixed 20-letter argument alphabet. After EVERY step working, reference and "
        "original series are compared with the model. Non-trivial: >= 2 domain operations; distinct by program.")
ASSUMPTIONS = ["cubic-spline values are external data in the model"]

ALPHABET = [
    {"op": "append", "periodic": False}, {"op": "append", "periodic": True},
    {"op": "shift_x", "v": "3/2"}, {"op": "shift_y", "v": "-5/4"},
    {"op": "scale_x", "v": "2"}, {"op": "scale_x", "v": "1/2"}, {"op": "scale_y", "v": "-3"}, {"op": "scale_y", "v": "1/4"},
    {"op": "norm_x", "lo": "0", "hi": "10"}, {"op": "norm_y", "lo": "-1", "hi": "1"},
    {"op": "repeat", "r": 1}, {"op": "repeat", "r": 2}, {"op": "repeat", "r": 3},
    {"op": "trunc_v", "fa": "1/8", "fb": "7/8", "lk": "mid", "rk": "mid", "lr": False, "rr": False},
    {"op": "trunc_v", "fa": "1/4", "fb": "3/4", "lk": "mid", "rk": "mid", "lr": True, "rr": True},
    {"op": "trunc_v", "fa": "1/4", "fb": "3/4", "lk": "on", "rk": "mid", "lr": False, "rr": True},
    {"op": "trunc_v", "fa": "0", "fb": "1", "lk": "end", "rk": "end", "lr": True, "rr": True},
    {"op": "trunc_i", "fa": "1/8", "fb": "7/8", "stop_none": False},
    {"op": "trunc_i", "fa": "0", "fb": "1", "stop_none": True},
    {"op": "trunc_i", "fa": "1/4", "fb": "1/2", "stop_none": False},
]


def pipeline(rng):
    rec = W.gen_reshape_op(rng, ["recreate"])
    mat = W.gen_reshape_op(rng, ["match"])
    mat["strategy"] = "closest"
    mat.pop("s", None)        # the averages are reproduced by the matching itself; a final smoothing would move them
    return [rec, mat]


def cases(rng, tier):
    n_ = {"quick": 300, "thorough": 3000}.get(tier, 200)
    for _ in range(30 if tier != "thorough" else 400):
        yield SC.gen(rng, "match_reads_reference")
    for _ in range(n_):
        c = W.gen_init(rng)
        c["ops"] = [W.gen_domain_op(rng) for _ in range(rng.randint(0, 8))]
        if rng.random() < 0.8:
            c["ops"] += pipeline(rng)
            if rng.random() < 0.3:
                c["ops"].append(W.gen_reshape_op(rng, ["trend", "interp", "smooth", "noise"]))
        if rng.random() < 0.3:
            c["ops"] = W.sprinkle(rng, c["ops"], 0.2, 0.0)      # refused requests in between leave nothing behind
        yield c
    if tier == "thorough":
        for L in range(0, 4):
            for seq in itertools.product(ALPHABET, repeat=L):
                c = W.gen_init(rng, 5, 7)
                c["ops"] = [dict(o) for o in seq]
                yield c


def run_impl(c):
    if isinstance(c, dict) and "scenario" in c:
        return SC.run(c)
    io = W.run_program(c)
    c["_lines"] = io["lines"]
    return io


def request(c):
    if isinstance(c, dict) and "scenario" in c:
        return []
    return c["_lines"]


def compare(c, io, mo):
    if isinstance(c, dict) and "scenario" in c:
        return None
    return W.compare_program(c, io, mo)


def expected_domain(c, io):
    """apply the plain process / helper functions to the original, step by step"""
    from traffic_weaver import sorted_array_utils as sau
    from traffic_weaver import process
    x = S.arr(floats([Fraction(v) for v in c["x"]]))
    y = S.arr(floats([Fraction(v) for v in c["y"]]))
    if c.get("x_none"):
        x = np.arange(len(y)).astype(float)
    ox, oy = x.copy(), y.copy()
    out = [(x, y, ox, oy)]
    for op, st in zip(c["ops"], io["steps"][1:]):
        k = op["op"]
        if k == "fail" and "err" not in st:
            out.append((x, y, ox, oy))      # a refused request changes nothing
            continue
        if k not in W.DOMAIN or "err" in st:
            break
        if k == "append":
            x, y = sau.append_one_sample(x, y, make_periodic=op["periodic"])
        elif k == "shift_x":
            x = x + float(Fraction(op["v"]))
        elif k == "shift_y":
            y = y + float(Fraction(op["v"]))
        elif k == "scale_x":
            x = x * float(Fraction(op["v"]))
        elif k == "scale_y":
            y = y * float(Fraction(op["v"]))
        elif k == "norm_x":
            with warnings.catch_warnings():
                warnings.simplefilter("ignore")
                x = process.normalize(x, float(Fraction(op["lo"])), float(Fraction(op["hi"])))
                ox = process.normalize(ox, float(Fraction(op["lo"])), float(Fraction(op["hi"])))
        elif k == "norm_y":
            with warnings.catch_warnings():
                warnings.simplefilter("ignore")
                y = process.normalize(y, float(Fraction(op["lo"])), float(Fraction(op["hi"])))
                oy = process.normalize(oy, float(Fraction(op["lo"])), float(Fraction(op["hi"])))
        elif k == "repeat":
            x, y = process.repeat(x, y, op["r"])
        elif k == "trunc_v":
            x, y = process.truncate(x, y, op["_args"][0], op["_args"][1], op["lr"], op["rr"])
        elif k == "trunc_i":
            f = op["_line"].split(" ")
            a = int(f[2])
            b = None if f[3] == "none" else int(f[3])
            x, y = x[a:b], y[a:b]
        out.append((x, y, ox, oy))
    return out


def same(a, b):
    a, b = np.asarray(a, dtype=float), np.asarray(b, dtype=float)
    return a.shape == b.shape and (a.size == 0 or np.allclose(a, b, rtol=0, atol=1e-9 * (float(np.max(np.abs(b))) or 1e-300)))


def oracle(c, io):
    if isinstance(c, dict) and "scenario" in c:
        return io.get("finding")
    steps = io["steps"]
    if "err" in steps[0]:
        return None
    bad = W.accepted_invalid(io)
    if bad:
        return bad
    exp = expected_domain(c, io)
    reshaped = False
    prev = None
    for i, st in enumerate(steps):
        if "state" not in st:
            continue
        s = st["state"]
        k = c["ops"][i - 1]["op"] if i > 0 else "init"
        if any(s[key] is None or not np.all(np.isfinite(s[key])) for key in W.KEYS):
            return None
        if "err" in st:
            return None
        if k in W.RESHAPE:
            if prev is not None and (s["rx"] != prev["rx"] or s["ry"] != prev["ry"]):
                return f"step {i}: reshaping operation {k} altered the reference series"
            if prev is not None and (s["ox"] != prev["ox"] or s["oy"] != prev["oy"]):
                return f"step {i}: {k} altered the original series"
            reshaped = True
        elif not reshaped and i < len(exp):
            x, y, ox, oy = exp[i]
            if not (same(s["x"], x) and same(s["y"], y)):
                return f"step {i} ({k}): working series is not the original with the transformations applied"
            if not (same(s["rx"], x) and same(s["ry"], y)):
                return (f"step {i} ({k}): reference series differs from the transformed original "
                        f"(len ref {len(s['rx'])}, expected {len(x)})")
            if s["rx"] != s["x"] or s["ry"] != s["y"]:
                return f"step {i} ({k}): working and reference series are not identical"
            if not (same(s["ox"], ox) and same(s["oy"], oy)):
                return f"step {i} ({k}): the stored original changed"
        prev = s
    # pipeline: recreate + match reproduces the transformed averages
    names = [o["op"] for o in c["ops"]]
    if "recreate" in names and "match" in names and names.index("match") == names.index("recreate") + 1 \
            and not c["ops"][names.index("match")].get("fpi"):
        ir = names.index("recreate") + 1
        im = ir + 1
        if im < len(steps) and "state" in steps[im] and "err" not in steps[im] and "err" not in steps[ir]:
            before = steps[ir - 1]["state"]
            after = steps[im]["state"]
            n = c["ops"][ir - 1]["n"]
            target = c["ops"][im - 1]["target"]
            refrule = c["ops"][im - 1]["ref"]
            rx, ry = before["x"], before["y"]
            xs, ys = after["x"], after["y"]
            if len(xs) == (len(rx) - 1) * n + 1 and all(np.isfinite(ys)):
                for q in range(len(rx) - 1):
                    seg_x = xs[q * n:(q + 1) * n + 1]
                    seg_y = ys[q * n:(q + 1) * n + 1]
                    if target == "trapezoid":
                        got = sum((seg_y[j] + seg_y[j + 1]) / 2 * (seg_x[j + 1] - seg_x[j]) for j in range(n))
                    else:
                        got = sum(seg_y[j] * (seg_x[j + 1] - seg_x[j]) for j in range(n))
                    want = (ry[q] if refrule == "rectangle" else (ry[q] + ry[q + 1]) / 2) * (rx[q + 1] - rx[q])
                    # relative to the magnitudes that enter this interval's arithmetic: its own values before and after the
                    # match and the averages of the intervals up to two away (their transitions reach into it) - NOT the
                    # largest value of the whole series: a burst elsewhere must not hide an interval that lost its average
                    pre = steps[im - 1]["state"]["y"] if "state" in steps[im - 1] else []
                    near = [abs(v) for v in ry[max(0, q - 2):q + 4]]
                    sc = (sum(max(abs(seg_y[j]), abs(seg_y[j + 1])) * (seg_x[j + 1] - seg_x[j]) for j in range(n)) + abs(want)
                          + max(near + [abs(v) for v in pre[q * n:(q + 1) * n + 1]] + [0.0]) * (rx[q + 1] - rx[q])) or 1e-300
                    if abs(got - want) > 1e-7 * sc:
                        return (f"after the history, recreate + match does not reproduce the transformed average of "
                                f"interval {q}: integral {got!r} vs {want!r}")
    return None


def tags(c, io, mo):
    if isinstance(c, dict) and "scenario" in c:
        return ["scenario=" + c["scenario"]]
    t = [f"len={min(len(c['ops']), 9)}"]
    for o in c["ops"]:
        t.append(f"op={o['op']}")
    for st in io["steps"]:
        if "err" in st:
            t.append(f"error={st['err']}")
    return t


def nontrivial_key(c, io, mo):
    if isinstance(c, dict) and "scenario" in c:
        return c
    nd = sum(1 for o in c["ops"] if o["op"] in W.DOMAIN)
    if nd >= 2 and not any("err" in s for s in io["steps"]):
        return {"x": c["x"], "y": c["y"], "ops": [{k: v for k, v in o.items() if not k.startswith("_")} for o in c["ops"]]}
    return None


def matches_known(k, rec):
    return False
