"""C01 - integral matching reproduces every reference interval integral.

Also the shared generator / runner for C03 (same input space)."""
from __future__ import annotations

from fractions import Fraction

import numpy as np

from .. import shapes as S

from ..core import fmt_list, fmt_ints, fmt_opt, parse_rats, frac, err_kind, close, vclose, pw_field, floats
from .c10 import spec as search_spec

ID = "C01"
THREADS = True       # part of the cases run concurrently in threads of one interpreter (the schedule dimension)
MODULES = ["TWV.Tie.Search", "TWV.Properties.C01", "TWV.Tie.Vector", "TWV.Tie.MatchFlow", "TWV.Tie.WeaverStep", "TWV.Tie.SmoothGlue"]
TRANSLATORS = ["t5_search", "t3_vector", "t11_match", "t9_weaver", "t15_smoothglue"]
RULE = ("random structured cases of integral_matching_reference_stretch: n in 3..60 (thorough ..400), uniform / lattice-random "
        "spacing, fixed samples chosen first and reference positions placed on-grid or off-grid inside the cell that the "
        "requested search strategy maps to them, 2x2 integration rules, alpha in {1,2,3} (computed by the model) and "
        "{0.3,0.5,1.5,2.5} (power table), three fixed-point modes, extra reference points, plus degenerate-but-legal cases "
        "(two-point windows, coinciding fixed points) and a malformed stream. Non-trivial: >= 2 windows with an interior "
        "sample and a non-zero displacement; distinct by full input.")
ASSUMPTIONS = ["computed values are compared with |impl-model| <= 1e-9*max(1,|model|) on dyadic-lattice inputs"]
TRUSTED = ["the fixed-point selection (np.unique / np.isin / take / where) is modelled concretely in TWV.Model.Match.fixedPoints"]

ALPHAS_INT = [1, 2, 3]
ALPHAS_TAB = [0.3, 0.5, 1.5, 2.5]
RULES = ["trapezoid", "rectangle"]


def gen_valid(rng, maxn):
    n = rng.randint(3, maxn)
    x = rng.increasing(n)
    y = rng.values(n)
    degenerate = rng.random() < 0.12
    # fixed sample indices
    F = []
    i = rng.choice([0, 0, 0, 1, 2]) if n > 4 else 0
    while i < n:
        F.append(i)
        gap = rng.randint(2, max(2, min(12, n // 2)))
        if degenerate and rng.random() < 0.4:
            gap = 1
        i += gap
    if rng.random() < 0.6 and F[-1] != n - 1 and (n - 1 - F[-1] >= 2 or degenerate):
        F.append(n - 1)
    if len(F) < 2:
        F = [0, n - 1]
    mode = rng.choice(["default", "default", "values", "indices"])
    strategy = rng.choice(["closest", "lower", "higher"])
    offgrid = rng.random() < 0.5
    xref = []
    for f in F:
        p = x[f]
        if offgrid and rng.random() < 0.7:
            gl = (x[f] - x[f - 1]) if f > 0 else Fraction(4)
            gr = (x[f + 1] - x[f]) if f + 1 < n else Fraction(4)
            s = strategy if mode == "default" else "closest"
            if s == "closest":
                d = min(gl, gr) * Fraction(rng.randint(-3, 3), 8)
            elif s == "lower":
                d = gr * Fraction(rng.randint(0, 7), 8)
            else:
                d = -gl * Fraction(rng.randint(0, 7), 8)
            p = p + d
        xref.append(p)
    if mode == "default" and rng.random() < 0.25:
        # a reference that is wider than the series (the enclosing readings were kept): its outermost positions lie
        # outside [x[0], x[-1]] and select the first / last sample whatever the strategy
        if F[0] == 0 and strategy in ("lower", "closest"):
            xref[0] = x[0] - rng.choice([Fraction(1, 2), 1, 3])
        if F[-1] == n - 1 and strategy in ("higher", "closest"):
            xref[-1] = x[-1] + rng.choice([Fraction(1, 2), 1, 3])
    if degenerate and rng.random() < 0.5 and len(xref) >= 2 and mode == "default":
        # two reference positions selecting the same sample
        j = rng.randrange(1, len(xref))
        xref[j] = xref[j - 1] + (xref[j] - xref[j - 1]) * Fraction(1, 64) if strategy != "higher" else xref[j]
    # keep the reference strictly increasing
    xr2 = [xref[0]]
    for p in xref[1:]:
        if p > xr2[-1]:
            xr2.append(p)
    xref = xr2
    fpx = fpi = None
    if mode == "values":
        fpx = [x[f] for f in F]
        r_ = rng.random()
        if r_ < 0.3:
            rng.shuffle(fpx)
        elif r_ < 0.45:
            j = rng.randrange(len(fpx))
            fpx.insert(j, fpx[j])
        if rng.random() < 0.2:
            fpx.append(fpx[0])
        if rng.random() < 0.3 and len(xref) >= 2:
            # an extra reference point in between: its interval is summed with the neighbour
            j = rng.randrange(1, len(xref))
            mid = (xref[j - 1] + xref[j]) / 2
            if all(min(abs(v - xref[j - 1]), abs(v - xref[j])) < abs(v - mid) for v in fpx):
                xref.insert(j, mid)
    elif mode == "indices":
        fpi = list(F)
        r_ = rng.random()
        if r_ < 0.3:
            rng.shuffle(fpi)
        elif r_ < 0.5:
            # in increasing order, one or two fixed points named twice (a list merged from two sources)
            for _ in range(rng.randint(1, 2)):
                j = rng.randrange(len(fpi))
                fpi.insert(j, fpi[j])
        if rng.random() < 0.2:
            fpi.append(fpi[0])
        if rng.random() < 0.25 and len(F) >= 3:
            # both designations given, naming different sample sets: the indices are documented to win
            # ("If set, fixed_points_in_x is set according to that points")
            fpx = [x[f] for f in F if f in (F[0], F[-1]) or rng.random() < 0.4]
            if len(fpx) == len(F):
                fpx = [x[F[0]], x[F[-1]]]
    yref = rng.values(len(xref))
    alpha = rng.choice(ALPHAS_INT) if rng.random() < 0.6 else rng.choice(ALPHAS_TAB)
    if rng.random() < 0.15:
        # small units: values (and sometimes abscissae) of tiny magnitude, exactly representable; an absolute tolerance
        # somewhere in the computation would treat the integral deficits as zero
        sy = Fraction(1, 2 ** rng.choice([20, 30, 40]))
        y = [v * sy for v in y]
        yref = [v * sy for v in yref]
        if rng.random() < 0.5:
            sx = Fraction(1, 2 ** rng.choice([6, 10]))
            x = [v * sx for v in x]
            xref = [v * sx for v in xref]
            if fpx is not None:
                fpx = [v * sx for v in fpx]
    return {"argrep": S.pick_argrep(rng, 0.7),
            "x": [str(v) for v in x], "y": [str(v) for v in y], "xref": [str(v) for v in xref],
            "yref": [str(v) for v in yref],
            "fpx": None if fpx is None else [str(v) for v in fpx], "fpi": fpi,
            "strategy": strategy, "target": rng.choice(RULES), "ref": rng.choice(RULES), "alpha": alpha,
            "kind": "degenerate" if degenerate else "valid"}


def gen_malformed(rng):
    c = gen_valid(rng, 12)
    kind = rng.choice(["too_many_values", "too_many_indices", "not_in_x", "bad_target", "bad_ref", "bad_strategy"])
    n = len(c["x"])
    if kind == "too_many_values":
        c["fpx"] = [c["x"][i % n] for i in range(n + 1 + rng.randint(0, 2))]
        c["fpi"] = None
    elif kind == "too_many_indices":
        c["fpi"] = [i % n for i in range(n + 1 + rng.randint(0, 2))]
    elif kind == "not_in_x":
        xs = [Fraction(v) for v in c["x"]]
        c["fpx"] = [str(xs[0]), str((xs[0] + xs[1]) / 2), str(xs[-1])]
        c["fpi"] = None
    elif kind == "bad_target":
        c["target"] = rng.choice(["trapz", "simpson", "Trapezoid", "rect"])
    elif kind == "bad_ref":
        c["ref"] = rng.choice(["trapz", "simpson", "Rectangle", "rect"])
    else:
        c["strategy"] = rng.choice(["nearest", "floor", "Closest"])
        c["fpx"] = None
        c["fpi"] = None
    c["kind"] = kind
    return c


def gen_interval(rng):
    """the interval loop called directly: explicit fixed indices and target integrals"""
    n = rng.randint(3, 40)
    x = rng.increasing(n)
    y = rng.values(n)
    F = [0]
    while F[-1] < n - 1:
        F.append(min(n - 1, F[-1] + rng.choice([1, 2, 2, 3, 4, 7])))
    if rng.random() < 0.4:
        F = F[rng.randint(0, 1):len(F) - rng.randint(0, 1)] or [0, n - 1]
    k = len(F) - 1
    Is = [rng.dyadic() for _ in range(max(0, k + rng.choice([0, 0, 0, -1, 1])))]
    return {"kind": "interval", "x": [str(v) for v in x], "y": [str(v) for v in y], "F": F, "Is": [str(v) for v in Is],
            "target": rng.choice(RULES), "alpha": rng.choice(ALPHAS_INT), "argrep": S.pick_argrep(rng, 0.7)}


def gen_long(rng, matchref=False):
    """long series (hundreds of intervals) whose fixed points follow a repeating pattern of interval lengths - regular
    sampling with a periodic irregularity (every k-th sample on average, not every k-th sample)"""
    k = rng.randint(2, 5)
    d = rng.randint(1, k - 1)
    pat = rng.choice([[k, k - d, k + d, k], [k, k - d, k + d, k], [k - d, k + d], [k, k], [k, k + d, k - d, k, k],
                      [rng.randint(1, 5) for _ in range(rng.randint(2, 4))]])
    reps = rng.choice([128, 130, 160, 256, 300]) // len(pat) + 1
    lens = (pat * reps)
    F = [0]
    for g in lens:
        F.append(F[-1] + g)
    n = F[-1] + 1
    x = rng.increasing(n) if rng.random() < 0.5 else [Fraction(i, 4) for i in range(n)]
    y = rng.values(n)
    if not matchref:
        Is = [rng.dyadic() for _ in range(len(F) - 1)]
        return {"kind": "interval", "x": [str(v) for v in x], "y": [str(v) for v in y], "F": F, "Is": [str(v) for v in Is],
                "target": rng.choice(RULES), "alpha": rng.choice(ALPHAS_INT), "long": True}
    mode = rng.choice(["default", "values", "indices"])
    xref = [x[f] for f in F]
    return {"x": [str(v) for v in x], "y": [str(v) for v in y], "xref": [str(v) for v in xref],
            "yref": [str(v) for v in rng.values(len(xref))],
            "fpx": [str(v) for v in xref] if mode == "values" else None, "fpi": list(F) if mode == "indices" else None,
            "strategy": rng.choice(["closest", "lower", "higher"]), "target": rng.choice(RULES), "ref": rng.choice(RULES),
            "alpha": rng.choice(ALPHAS_INT), "kind": "valid", "long": True}


WINDOW_SIZES = [4097, 8193, 12289, 16385, 24577, 32769, 49153, 65537]         # 2**k + 1 and 3 * 2**k + 1 samples


def gen_long_window(rng, L=None):
    """one very long interval between two fixed points (tens of thousands of samples), short neighbours on both sides"""
    L = L or rng.choice(WINDOW_SIZES)
    pre, post = rng.randint(2, 6), rng.randint(2, 6)
    n = pre + L + post
    x = [Fraction(i, 4) for i in range(n)] if rng.random() < 0.5 else rng.increasing(n)
    y = [Fraction((i * 7919) % 17 - 8, 8) for i in range(n)]
    F = [0, pre, pre + L - 1, n - 1]
    return {"kind": "interval", "x": [str(v) for v in x], "y": [str(v) for v in y], "F": F,
            "Is": [str(rng.dyadic()) for _ in range(3)], "target": rng.choice(RULES), "alpha": rng.choice(ALPHAS_INT),
            "long": True, "layout": "contig,contig,contig", "hist": "none"}


def gen_longrefs(rng):
    """a long series matched against a long reference (tens of thousands of reference intervals, every second sample a
    fixed point), ordinary values - and sometimes one reference value many orders of magnitude larger than the rest:
    every interval's integral is a local quantity"""
    return {"kind": "longrefs", "nref": rng.choice([16385, 16500, 20001]), "outlier": rng.random() < 0.6,
            "y": [str(v) for v in rng.values(7)], "yref": [str(abs(v) + 1) for v in rng.values(5)], "x": ["0", "1"],
            "target": rng.choice(RULES), "ref": rng.choice(RULES), "alpha": rng.choice(ALPHAS_INT),
            "strategy": rng.choice(["closest", "lower", "higher"]), "layout": "contig,contig,contig", "hist": "none"}


def run_longrefs(c):
    from traffic_weaver.match import integral_matching_reference_stretch
    m = c["nref"]
    n = 2 * (m - 1) + 1
    x = np.arange(n, dtype=float) * 0.5
    y = np.resize(np.array(floats([Fraction(v) for v in c["y"]])), n)
    xref = x[::2].copy()
    yref = np.resize(np.array(floats([Fraction(v) for v in c["yref"]])), m)
    if c["outlier"]:
        yref[0] = 1e25
    import warnings
    try:
        with warnings.catch_warnings():
            warnings.simplefilter("ignore")
            z = np.asarray(integral_matching_reference_stretch(x, y, xref, yref, fixed_points_finding_strategy=c["strategy"],
                                                               target_function_integral_method=c["target"],
                                                               reference_function_integral_method=c["ref"], alpha=c["alpha"]),
                           dtype=float)
    except Exception as e:  # noqa
        return {"err": err_kind(e)}
    if len(z) != n:
        return {"bad": [[-1, float(len(z)), float(n)]], "n_bad": 1}
    dx = 0.5
    if c["target"] == "trapezoid":
        got = (z[0:-2:2] + z[1:-1:2]) / 2 * dx + (z[1:-1:2] + z[2::2]) / 2 * dx
        sc = (np.abs(z[0:-2:2]) + 2 * np.abs(z[1:-1:2]) + np.abs(z[2::2])) / 2 * dx
    else:
        got = z[0:-2:2] * dx + z[1:-1:2] * dx
        sc = (np.abs(z[0:-2:2]) + np.abs(z[1:-1:2])) * dx
    want = (yref[:-1] + yref[1:]) / 2 * 1.0 if c["ref"] == "trapezoid" else yref[:-1] * 1.0
    scr = (np.abs(yref[:-1]) + np.abs(yref[1:])) / 2 if c["ref"] == "trapezoid" else np.abs(yref[:-1])
    bad = np.nonzero(~(np.abs(got - want) <= 1e-8 * np.maximum(sc, scr)))[0]
    return {"bad": [[int(k), float(got[k]), float(want[k])] for k in bad[:3]], "n_bad": int(len(bad)), "intervals": int(m - 1)}


# (dtype, one more than the largest value used); 64-bit: values up to 2**40 only - the case travels as doubles and sums of abscissae must stay far from the 53 bits of a double
XDTYPES = [("uint16", 2 ** 16), ("uint32", 2 ** 32), ("uint64", 2 ** 40), ("int32", 2 ** 31), ("int16", 2 ** 15), ("uint8", 2 ** 8),
           ("int64", 2 ** 40)]


def integer_abscissae(c, rng):
    """the same case on integer abscissae held in a narrow / unsigned NumPy dtype (tick counters, sample numbers in
    uint16, epoch seconds in int32 / uint32): the abscissae of the series, of the reference and the designated fixed
    points go through one affine map that makes them whole numbers of the dtype - half of the time at the bottom of its
    range, half of the time at the top (every sample fits; the sum of two samples does not: epoch seconds of today in
    int32).  The numbers the model sees are the mapped ones; only the container differs.  Integer arithmetic in NumPy
    wraps around silently, so an expression that is equal to the documented one over the reals need not be equal on
    such input."""
    from math import lcm
    keys = [k for k in ("x", "xref", "fpx") if c.get(k)]
    allv = [Fraction(v) for k in keys for v in c[k]]
    if not allv:
        return c
    m = 1
    for v in allv:
        m = lcm(m, v.denominator)
    lo = min(allv)
    top = (max(allv) - lo) * m
    fits = [(n, cap) for n, cap in XDTYPES if top + 20 < cap]
    if m > 2 ** 12 or not fits:
        return c
    name, cap = rng.choice(fits)
    off = rng.choice([0, 0, 1, 3, 17]) if rng.random() < 0.5 else cap - 1 - int(top) - rng.choice([0, 0, 1, 5])
    c = dict(c)
    for k in keys:
        c[k] = [str((Fraction(v) - lo) * m + off) for v in c[k]]
    c["xdtype"] = name
    return c


YDTYPES = [("uint8", 2 ** 8), ("uint16", 2 ** 16), ("uint32", 2 ** 32), ("int16", 2 ** 15), ("int32", 2 ** 31)]


def integer_reference_values(c, rng):
    """the same request with reference values that are whole numbers held in a narrow / unsigned NumPy dtype (32-bit
    octet counters, 16-bit gauges) - half of the time at the top of the dtype's range, where every reading fits and the
    sum of two neighbouring readings does not.  The reference integrals are defined on the numbers."""
    from math import lcm
    vals_ = [Fraction(v) for v in c["yref"]]
    m = 1
    for v in vals_:
        m = lcm(m, v.denominator)
    lo = min(vals_)
    top = (max(vals_) - lo) * m
    fits = [(n, cap) for n, cap in YDTYPES if top + 20 < cap]
    if m > 2 ** 12 or not fits:
        return c
    name, cap = rng.choice(fits)
    off = rng.choice([0, 1, 5]) if rng.random() < 0.4 else cap - 1 - int(top) - rng.choice([0, 0, 1, 5])
    c = dict(c)
    c["yref"] = [str((v - lo) * m + off) for v in vals_]
    c["yrefdtype"] = name
    return c


def cases(rng, tier):
    for c in _cases(rng, tier):
        if c.get("kind") in ("valid", "degenerate") and not c.get("long") and "yrefdtype" not in c and rng.random() < 0.08:
            c = integer_reference_values(c, rng)
        if (c.get("kind") in ("valid", "degenerate", "interval") and not c.get("long") and "xdtype" not in c
                and rng.random() < 0.12):
            c = integer_abscissae(c, rng)
        yield c


def _cases(rng, tier):
    for i in range({"quick": 2, "thorough": 6}.get(tier, 1)):
        c = gen_longrefs(rng)
        c["outlier"] = i % 2 == 0
        yield c
    if tier == "thorough":
        for L in WINDOW_SIZES:
            yield gen_long_window(rng, L)
    elif tier == "quick":
        yield gen_long_window(rng, 49153)
        yield gen_long_window(rng)
    for i in range({"quick": 8, "thorough": 60}.get(tier, 3)):
        yield gen_long(rng, matchref=i % 2 == 1)
    for _ in range({"quick": 150, "thorough": 2000}.get(tier, 100)):
        yield gen_interval(rng)
    if tier == "quick":
        nv, nm, maxn = 400, 60, 60
    elif tier == "thorough":
        nv, nm, maxn = 6000, 600, 120
    else:
        nv, nm, maxn = 300, 40, 30
    for i in range(nv):
        yield gen_valid(rng, maxn if i % 20 else min(400, maxn * 4))
    for _ in range(nm):
        yield gen_malformed(rng)


def vals(c):
    g = lambda k: [Fraction(v) for v in c[k]]
    return g("x"), g("y"), g("xref"), g("yref")


def expected_fixed(c):
    """fixed sample indices F and reference indices R by an independent exact computation"""
    x, y, xref, yref = vals(c)
    if c["fpi"] is not None:
        F = sorted(set(c["fpi"]))
        fp = [x[i] for i in F]
        ri = [search_spec(xref, t, "closest", True) for t in fp]
        R = sorted(set(ri))
    elif c["fpx"] is None:
        sel = [search_spec(x, t, c["strategy"], True) for t in xref]
        F = sorted(set(sel))
        R = list(range(len(xref)))
    else:
        fp = sorted(set(Fraction(v) for v in c["fpx"]))
        F = [i for i, v in enumerate(x) if v in fp]
        ri = [search_spec(xref, t, "closest", True) for t in fp]
        R = sorted(set(ri))
        if len(F) != len(fp):
            return None
    return F, R


def pw_points(c):
    x, _, _, _ = vals(c)
    fr = expected_fixed(c)
    ts = []
    if fr is None:
        return ts
    F, _ = fr
    for s, e in zip(F[:-1], F[1:]):
        if e - s < 2:
            continue
        ctr = (x[e] + x[s]) / 2
        for i in range(s, e + 1):
            ts.append(2 * abs(ctr - x[i]) / (x[e] - x[s]))
    return ts


def request(c):
    if c["kind"] == "longrefs":
        return []
    if c["kind"] == "interval":
        x = [Fraction(v) for v in c["x"]]
        y = [Fraction(v) for v in c["y"]]
        return (f"loop {c['target']} {c['alpha']} {fmt_list(x)} {fmt_list(y)} {fmt_ints(c['F'])} "
                f"{fmt_list([Fraction(v) for v in c['Is']])}")
    x, y, xref, yref = vals(c)
    a = c["alpha"]
    pw = pw_field(a, pw_points(c) if not float(a).is_integer() else ())
    fpx = None if c["fpx"] is None else [Fraction(v) for v in c["fpx"]]
    return (f"matchref {pw} {fmt_list(x)} {fmt_list(y)} {fmt_list(xref)} {fmt_list(yref)} {fmt_opt(fpx)} "
            f"{fmt_opt(c['fpi'], fmt_ints)} {c['strategy']} {c['target']} {c['ref']}")


def run_impl(c):
    from traffic_weaver.match import integral_matching_reference_stretch
    if c["kind"] == "longrefs":
        return run_longrefs(c)
    if c["kind"] == "interval":
        from traffic_weaver.match import _interval_integral_matching_stretch
        x = [Fraction(v) for v in c["x"]]
        y = [Fraction(v) for v in c["y"]]
        try:
            r = _interval_integral_matching_stretch(S.arr(floats(x), dtype=c.get("xdtype")), S.arr(floats(y)),
                                                    integral_values=[float(Fraction(v)) for v in c["Is"]],
                                                    fixed_points_indices_in_x=np.array(c["F"]),
                                                    integral_method=S.text(c["target"], c.get("argrep", "plain")),
                                                    alpha=c["alpha"])
            return {"ok": [float(v) for v in r], "type": type(r).__name__}
        except Exception as e:  # noqa
            return {"err": err_kind(e)}
    x, y, xref, yref = vals(c)
    rep = c.get("argrep", "plain")     # names as the literals or as equal strings that are not the interned literals
    kw = {}
    if c["fpx"] is not None:
        kw["fixed_points_in_x"] = [float(Fraction(v)) for v in c["fpx"]]
    if c["fpi"] is not None:
        kw["fixed_points_indices_in_x"] = list(c["fpi"])
    import warnings
    try:
        with warnings.catch_warnings():
            warnings.simplefilter("ignore")
            r = integral_matching_reference_stretch(
                S.arr(floats(x), dtype=c.get("xdtype")), S.arr(floats(y)), S.arr(floats(xref), dtype=c.get("xdtype")), S.arr(floats(yref), dtype=c.get("yrefdtype")),
                fixed_points_finding_strategy=S.text(c["strategy"], rep), target_function_integral_method=S.text(c["target"], rep),
                reference_function_integral_method=S.text(c["ref"], rep), alpha=c["alpha"], **kw)
        return {"ok": [float(v) for v in r], "type": type(r).__name__}
    except Exception as e:  # noqa
        return {"err": err_kind(e)}


def compare(c, io, mo):
    if c["kind"] == "longrefs":
        return None
    m = mo[0]
    if "err" in io:
        return None if m == f"ERR {io['err']}" else f"impl raised {io['err']}, model says {m}"
    if m == "nan":
        return None if not all(np.isfinite(io["ok"])) else f"model has a zero denominator, impl returned finite values"
    if not m.startswith("ok "):
        return f"impl returned values, model says {m}"
    mv = parse_rats(m[3:])
    if not vclose(io["ok"], mv, 1e-9, ref=[Fraction(v) for v in c["y"]]):
        diffs = [(i, a, float(b)) for i, (a, b) in enumerate(zip(io["ok"], mv)) if abs(a - float(b)) > 1e-9 * abs(float(b))]
        return f"values differ (first {diffs[:3]}, len impl {len(io['ok'])} model {len(mv)})"
    return None


def integ_scale(x, y, s, e):
    """magnitude of the quantities an interval integral is made of: sum |y| * dx"""
    return float(sum(max(abs(y[i]), abs(y[min(i + 1, len(y) - 1)])) * (x[i + 1] - x[i]) for i in range(s, e))) or 1e-300


def integ(rule, x, y, s, e):
    tot = Fraction(0)
    for i in range(s, e):
        if rule == "trapezoid":
            tot += (y[i] + y[i + 1]) / 2 * (x[i + 1] - x[i])
        else:
            tot += y[i] * (x[i + 1] - x[i])
    return tot


def preconditions(c):
    """the property's quantifier: distinct fixed points, an interior sample per interval"""
    if c["kind"] == "interval":
        return None
    if c["kind"] not in ("valid", "degenerate"):
        return None
    # a list of designated fixed points longer than the series is refused by the library (documented): not a valid request
    if (c.get("fpi") is not None and len(c["fpi"]) > len(c["x"])) or (c.get("fpx") is not None and len(c["fpx"]) > len(c["x"])):
        return None
    fr = expected_fixed(c)
    if fr is None:
        return None
    F, R = fr
    if len(F) != len(R) or len(F) < 2:
        return None
    if any(b - a < 2 for a, b in zip(F[:-1], F[1:])):
        return None
    return F, R


def oracle(c, io):
    if c["kind"] == "longrefs":
        if "err" in io:
            return f"valid matching request raised {io['err']}"
        if io["n_bad"]:
            k, got, want = io["bad"][0]
            return (f"long reference ({c['nref']} positions{', one value of 1e25' if c['outlier'] else ''}): interval {k}: "
                    f"{c['target']} integral of the result is {got!r}, {c['ref']} integral of the reference is {want!r} "
                    f"({io['n_bad']} of {io.get('intervals')} intervals)")
        return None
    if c["kind"] == "interval":
        if "err" in io:
            return None if not c["Is"] else f"interval matching raised {io['err']}"
        x = [Fraction(v) for v in c["x"]]
        F = c["F"]
        z = [frac(v) for v in io["ok"]]
        if any(b - a < 2 for a, b in zip(F[:-1], F[1:])):
            return None
        for k, (Ik, s_, e_) in enumerate(zip(c["Is"], F[:-1], F[1:])):
            got = integ(c["target"], x, z, s_, e_)
            if abs(float(got - Fraction(Ik))) > 1e-8 * max(integ_scale(x, z, s_, e_), abs(float(Fraction(Ik)))):
                return f"interval {k} ({s_}..{e_}): {c['target']} integral {float(got)!r} != target {float(Fraction(Ik))!r}"
        return None
    x, y, xref, yref = vals(c)
    if c["kind"] not in ("valid", "degenerate"):
        if c["kind"] in ("bad_target",):
            fr = expected_fixed(c)
            if fr is None or len(fr[0]) < 2:
                return None
        return None if io.get("err") == "ValueError" else f"invalid request ({c['kind']}) not rejected with ValueError: {str(io)[:120]}"
    pre = preconditions(c)
    if pre is None:
        return None
    F, R = pre
    if "err" in io:
        return f"valid matching request raised {io['err']}"
    z = [frac(v) for v in io["ok"]]
    if len(z) != len(x) or not all(np.isfinite(io["ok"])):
        return f"result has length {len(z)} / non-finite values for {len(x)} samples"
    for k in range(len(F) - 1):
        got = integ(c["target"], x, z, F[k], F[k + 1])
        want = integ(c["ref"], xref, yref, R[k], R[k + 1])
        sc = max(integ_scale(x, z, F[k], F[k + 1]), integ_scale(xref, yref, R[k], R[k + 1]))
        if abs(float(got - want)) > 1e-8 * sc:
            return (f"interval {k} between fixed samples {F[k]}..{F[k+1]}: {c['target']} integral of the result is "
                    f"{float(got)!r}, {c['ref']} integral of the reference is {float(want)!r}")
    got = integ(c["target"], x, z, F[0], F[-1])
    want = integ(c["ref"], xref, yref, R[0], R[-1])
    if abs(float(got - want)) > 1e-8 * max(integ_scale(x, z, F[0], F[-1]), integ_scale(xref, yref, R[0], R[-1])):
        return f"total between first and last fixed point {float(got)!r} != reference total {float(want)!r}"
    return None


def tags(c, io, mo):
    if c["kind"] == "longrefs":
        return ["kind=longrefs", "outlier" if c["outlier"] else "ordinary"]
    if c["kind"] == "interval":
        return ["kind=interval", f"rules={c['target']}", f"alpha={c['alpha']}"]
    mode = "both" if (c["fpi"] is not None and c["fpx"] is not None) else "indices" if c["fpi"] is not None else ("values" if c["fpx"] is not None else "default")
    t = [f"kind={c['kind']}", f"mode={mode}", f"rules={c['target']}/{c['ref']}", f"alpha={c['alpha']}",
         f"strategy={c['strategy']}", f"n~{min(len(c['x']) // 20 * 20, 100)}"]
    if "err" in io:
        t.append(f"error={io['err']}")
    if mo and mo[0] == "nan":
        t.append("model-undefined")
    return t


def nontrivial_key(c, io, mo):
    if c["kind"] == "longrefs":
        return c if "err" not in io else None
    pre = preconditions(c)
    if pre is None or "err" in io:
        return None
    y = [float(Fraction(v)) for v in c["y"]]
    if len(pre[0]) >= 3 and any(abs(a - b) > 1e-12 for a, b in zip(io["ok"], y)):
        return {k: c[k] for k in ("x", "y", "xref", "yref", "fpx", "fpi", "strategy", "target", "ref", "alpha")}
    return None


def matches_known(k, rec):
    return False
