"""C05 - window strategies never overshoot and keep a plateau at the average."""
from __future__ import annotations

from fractions import Fraction

import numpy as np

from .. import rfa_common as R
from ..core import frac, floats

ID = "C05"
THREADS = True       # part of the cases run concurrently in threads of one interpreter (the schedule dimension)
MODULES = ["TWV.Properties.RfaImp", "TWV.Tie.RfaLoops", "TWV.Properties.C05", "TWV.Properties.C05Run", "TWV.Tie.Funfit", "TWV.Tie.RfaParams"]
TRANSLATORS = ["t4_rfaloops", "t1_funfit", "t12_rfaparams"]
RULE = ("random cases over the four window strategies (70%) and pc / cubic (30%): series with many ties between neighbouring "
        "averages (values from a small alphabet) and constant series, uniform / non-uniform, integer / float x, n in 2..24 "
        "(thorough ..64), alpha dyadic in (0,1] or explicit a in 0..n, beta in [0,1], exp in {1,2,3} exact and "
        "{0.25,0.5,1.5,4} via the power table, adaptive smoothing in {1,2,3} exact and {0.5} via a table; compared in three "
        "steps: parameters, adaptive windows (exact, +-1 only where int() is applied to an exact integer), values. "
        "Non-trivial: a window strategy with at least one non-zero jump; distinct by full input.")
ASSUMPTIONS = ["CubicSpline values are external (only 'passes through the original points' is checked on the real code)",
               "monotonicity of the exp strategies is proved for exponents >= 1 only; for exponents < 1 it is the known finding D12"]
PARTIAL = ("monotonic clause for Exp*RFA with exponent < 1: proved for pw t <= t (exponent >= 1), false of the code for "
           "exponent < ~0.133 (known finding D12), open in between")

STRATS = R.WINDOW * 3 + ["pc", "cubic"]


def cases(rng, tier):
    if tier == "quick":
        n_, mm, mn = 800, 16, 24
    elif tier == "thorough":
        n_, mm, mn = 10000, 30, 64
    else:
        n_, mm, mn = 500, 10, 16
    for _ in range(n_):
        yield R.gen_case(rng, strategies=STRATS, max_m=mm, max_n=mn)


def run_impl(c):
    return R.run_impl(c)


def request(c):
    io = R.run_impl(c)
    lines, kinds = R.requests(c, io)
    c["_kinds"] = kinds
    return lines


def compare(c, io, mo):
    return R.compare(c, io, mo, c["_kinds"])


def between(v, a, b, tol):
    lo, hi = min(a, b), max(a, b)
    return lo - tol <= v <= hi + tol


def monotone(seq, tol):
    up = all(b - a >= -tol for a, b in zip(seq[:-1], seq[1:]))
    down = all(b - a <= tol for a, b in zip(seq[:-1], seq[1:]))
    return up or down


def oracle(c, io):
    if "err" in io:
        return f"valid request raised {io['err']}"
    x, y = R.series(c)
    yf = floats(y)
    m, n = len(x), c["n"]
    s = c["strategy"]
    ys = io["ys"]
    if len(ys) != (m - 1) * n + 1:
        return f"length {len(ys)}"
    scale = max(1.0, max(abs(v) for v in yf))
    tol = 1e-9 * scale
    if len(set(yf)) == 1 and any(abs(v - yf[0]) > tol for v in ys):
        return f"{s}: a constant series is not recreated as a constant"
    if s == "pc":
        want = [yf[j // n] for j in range(len(ys))]
        return None if ys == want else "piecewise-constant strategy does not reproduce each average exactly"
    if s == "cubic":
        if any(abs(a - b) > 1e-8 * scale for a, b in zip(ys[::n], yf)):
            return "cubic spline does not pass through every original point"
        return None
    if s == "function":
        return None
    aL, aR, a = io["aL"], io["aR"], io["a"]
    for q in range(m - 1):
        k = q + 1
        prev_, cur, nxt = yf[max(q - 1, 0)], yf[q], yf[min(q + 1, m - 1)]
        seg = ys[q * n:(q + 1) * n + 1]          # samples 0..n (n = border to the next interval / final sample)
        al, ar = aL[k], aR[k]
        off = 0
        for i in range(n):
            v = seg[i]
            if i < al:
                if not between(v, prev_, cur, tol):
                    return (f"{s}: overshoot on the left of interval {q}: sample {i} = {v!r} not between the averages "
                            f"{prev_!r} and {cur!r}")
            elif i > n - ar or (s.startswith("exp") and i >= n - ar and ar > 0):
                if not between(v, cur, nxt, tol):
                    return (f"{s}: overshoot on the right of interval {q}: sample {i} = {v!r} not between the averages "
                            f"{cur!r} and {nxt!r}")
            else:
                if v != cur:
                    return f"{s}: plateau sample {i} of interval {q} is {v!r}, the average is {cur!r}"
            if abs(v - cur) > tol:
                off += 1
        if off > max(a - 1, 0):
            return f"{s}: {off} samples of interval {q} differ from its average, more than a-1 = {a - 1}"
        if not between(seg[n], cur, nxt, tol):
            return f"{s}: border value after interval {q} not between the neighbouring averages"
        left = seg[0:al + 1]
        right = seg[n - ar:n + 1]
        if not monotone(left, tol):
            return f"{s}: values on the left of interval {q} are not monotonic from the border to the plateau: {left}"
        if not monotone(right, tol):
            return f"{s}: values on the right of interval {q} are not monotonic from the plateau to the border: {right}"
    return None


def tags(c, io, mo):
    t = [f"strategy={c['strategy']}"]
    if c["strategy"] in R.WINDOW:
        t.append("a=explicit" if c.get("a") is not None else f"alpha")
        if "exp" in c:
            t.append(f"exp={c['exp']}")
        if "smooth" in c:
            t.append(f"smooth={c['smooth']}")
        if "aL" in io and c["strategy"].endswith("adaptive"):
            ks = range(1, len(c["x"]))
            for k in ks:
                if io["aL"][k] == 0 and io["aR"][k] == 0:
                    t.append("tie:both")
                    break
            for k in ks:
                if (io["aL"][k] == 0) != (io["aR"][k] == 0):
                    t.append("tie:one-side")
                    break
    if R.unmodelled(mo):
        t.append("unmodelled")
    elif R.closed_form_unmodelled(mo):
        t.append("overlapping-windows:imperative-model-only")
    if "err" in io:
        t.append(f"error={io['err']}")
    return t


def nontrivial_key(c, io, mo):
    if "err" in io or c["strategy"] not in R.WINDOW:
        return None
    if len(set(c["y"])) > 1:
        return {k: v for k, v in c.items() if not k.startswith("_")}
    return None


def matches_known(k, rec):
    if k.get("id") == "D12":
        c = rec["case"]
        return (c.get("strategy", "").startswith("exp") and float(c.get("exp", 2)) < 1
                and "not monotonic" in rec.get("violation", ""))
    return False
