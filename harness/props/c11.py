"""C11 - truncation and slicing select exactly the requested range."""
from __future__ import annotations

import math
from fractions import Fraction

import numpy as np

from .. import shapes as S

from .. import weaver_common as W
from ..core import fmt, fmt_list, parse_rats, frac, err_kind, exact, floats

ID = "C11"
THREADS = True       # part of the cases run concurrently in threads of one interpreter (the schedule dimension)
MODULES = ["TWV.Tie.Search", "TWV.Properties.C11", "TWV.Tie.ProcessFns", "TWV.Tie.WeaverStep", "TWV.Tie.WeaverIO"]
TRANSLATORS = ["t5_search", "t10_process", "t9_weaver", "t14_weaverio"]
RULE = ("boundary-heavy cases: (a) process.truncate on lattice series of 1..14 points with bounds inside, exactly on samples, "
        "equal to the first / last abscissa, outside, inverted, absolute or as ratios 0, 1, in between; (b) Weaver sessions "
        "(after a short valid history incl. recreate, so that the reference differs from the working series) with "
        "truncate_by_value / truncate_by_index and the read-only slice_by_index (all start/stop/step for the lengths at hand, "
        "negative / omitted stops) and slice_by_value (start/stop samples given symbolically, omitted, absent). Non-trivial: "
        "a cut that removes something; distinct by full input.")
ASSUMPTIONS = ["process.truncate is compared on dyadic inputs (exact); in sessions sample-valued bounds are sent as references "
               "to the sample (@i) so that both sides compare their own value"]


def gen_trunc(rng):
    n = rng.randint(1, 14)
    x = rng.increasing(n)
    y = rng.values(n)
    lr, rr = rng.random() < 0.35, rng.random() < 0.35

    def pick(ratio):
        k = rng.choice(["mid", "on", "first", "last", "below", "above"])
        if ratio:
            return rng.choice([Fraction(0), Fraction(1), Fraction(rng.randint(0, 16), 16), Fraction(-1, 4), Fraction(5, 4)])
        i = rng.randrange(n)
        if k == "on":
            return x[i]
        if k == "first":
            return x[0]
        if k == "last":
            return x[-1]
        if k == "below":
            return x[0] - rng.choice([Fraction(1, 2), 3])
        if k == "above":
            return x[-1] + rng.choice([Fraction(1, 2), 3])
        return (x[i] + x[min(i + 1, n - 1)]) / 2 if n > 1 else x[0] + Fraction(1, 2)
    l, r = pick(lr), pick(rr)
    if rng.random() < 0.75 and not (lr or rr) and l > r:
        l, r = r, l
    return {"kind": "truncate", "x": [str(v) for v in x], "y": [str(v) for v in y], "l": str(l), "r": str(r), "lr": lr, "rr": rr}


def gen_burst(rng):
    """readings every 4096 s for days plus a burst of readings 2^-10 s apart; ratio bounds that fall strictly between
    two burst samples (closer to a sample than 1e-9 of the span, and never on it).  Everything is a binary fraction with
    few bits, so the ratio -> position conversion is exact in floating point and the cut is decided, not rounded."""
    k = rng.randint(6, 12)
    span = Fraction(2 ** k * 4096)
    base = [Fraction(4096 * i) for i in range(2 ** k + 1)]
    keep = sorted(set([0, 2 ** k] + [rng.randrange(2 ** k + 1) for _ in range(rng.randint(2, 8))]))
    p = Fraction(4096 * rng.randrange(1, 2 ** k)) + rng.choice([0, 1024, 2048])
    burst = [p + Fraction(j, 1024) for j in range(rng.randint(3, 6))]
    x = sorted(set([base[i] for i in keep] + burst))
    n = len(x)

    def between():
        j = rng.randrange(len(burst) - 1)
        return (burst[j] + rng.choice([Fraction(1, 4096), Fraction(1, 2048), Fraction(3, 4096)])) / span
    lr, rr = rng.choice([(True, True), (True, False), (False, True)])
    l = between() if lr else rng.choice([x[0], burst[0] - Fraction(1, 2)])
    r = between() if rr else rng.choice([x[-1], burst[-1] + Fraction(1, 2)])
    if lr and rr and l >= r:
        l, r = Fraction(0), r
    return {"kind": "truncate", "x": [str(v) for v in x], "y": [str(v) for v in rng.values(n)], "l": str(l), "r": str(r),
            "lr": lr, "rr": rr, "burst": True}


def gen_bigint(rng):
    """integer time stamps beyond 2**53 (nanoseconds since the epoch) closer together than float64 can tell apart; one
    bound is an exact sample (a Python int), the other a float far outside ("to the end" / "from the start")"""
    n = rng.randint(4, 40)
    x = [1_800_000_000_000_000_000 + rng.randint(0, 10 ** 6)]
    for _ in range(n - 1):
        x.append(x[-1] + rng.randint(3, 60))
    i = rng.randrange(n)
    if rng.random() < 0.5:
        l, r, lf, rf = x[i], 2 * 10 ** 18, False, True
    else:
        l, r, lf, rf = 10 ** 18, x[i], True, False
    if rng.random() < 0.2:
        j = rng.randrange(n)
        l, r, lf, rf = min(x[i], x[j]), max(x[i], x[j]) + (1 if i == j else 0), False, False
    return {"kind": "truncate", "x": [str(v) for v in x], "y": [str(v) for v in rng.values(n)], "l": str(l), "r": str(r),
            "lr": False, "rr": False, "bigint": True, "lf": lf, "rf": rf}


def gen_longtrunc(rng, nb=36):
    """a long series (a few hundred thousand samples) cut at right bounds that fall BETWEEN two samples, at positions
    where a block-wise search would change blocks (n / B for B = 2 .. 64, rounded either way) and at random positions"""
    n = rng.choice([2 ** 18 + 1, 2 ** 18 + 977, 300000, 2 ** 19 + 3])
    pos = set()
    for B in (2, 4, 8, 16, 32, 64):
        for blk in {n // B, n // B + 1, -(-n // B)}:
            for j in range(1, B):
                if 1 <= j * blk < n - 1:
                    pos.add(j * blk)
    pos = rng.sample(sorted(pos), min(nb - 6, len(pos))) + [rng.randint(2, n - 3) for _ in range(6)]
    return {"kind": "longtrunc", "n": n, "steps": [str(rng.dyadic(1, 9, 2)) for _ in range(7)], "gaps": sorted(pos),
            "x": ["0", "1"], "y": ["0", "1"], "layout": "contig,contig,contig", "hist": "none"}


def run_longtrunc(c):
    from traffic_weaver.process import truncate
    n = c["n"]
    steps = np.array([float(Fraction(v)) for v in c["steps"]])
    x = np.concatenate([[2.5], 2.5 + np.cumsum(np.resize(steps, n - 1))])
    y = np.arange(n, dtype=float) % 11
    out = []
    for g in c["gaps"]:
        # right bound strictly between samples g-1 and g: the smallest covering run ends AT sample g
        r = (x[g - 1] + x[g]) / 2
        try:
            rx, ry = truncate(x, y, float(x[3]), float(r))
            ok = (len(rx) == g - 3 + 1 and len(ry) == len(rx) and rx[0] == x[3] and rx[-1] == x[g] and ry[-1] == y[g])
            out.append([int(g), bool(ok), int(len(rx)), float(rx[-1]) if len(rx) else None, float(x[g])])
        except Exception as e:  # noqa
            out.append([int(g), False, -1, err_kind(e), float(x[g])])
    return {"long": out}


def gen_datetime(rng):
    """calendar abscissae (numpy datetime64 in days / hours) cut at bounds given in a finer unit, between two samples"""
    n = rng.randint(3, 14)
    unit, fine, k = rng.choice([("D", "h", 24), ("h", "m", 60), ("s", "ms", 1000)])
    x0 = rng.randint(19000, 19800)
    x = [x0]
    for _ in range(n - 1):
        x.append(x[-1] + rng.choice([1, 1, 1, 2, 3]))

    def bound(i):
        r = rng.random()
        if r < 0.6:
            return x[i] * k + rng.randint(1, k - 1)          # strictly inside a gap (or beyond the last sample)
        if r < 0.8:
            return x[i] * k                                  # exactly on a sample
        return (x[0] - 2) * k + 7 if rng.random() < 0.5 else (x[-1] + 2) * k + 5
    i, j = sorted([rng.randrange(n), rng.randrange(n)])
    lf, rf = bound(i), bound(j)
    if lf >= rf:
        lf, rf = x[0] * k, x[-1] * k + 1
    return {"kind": "truncate", "x": [str(v) for v in x], "y": [str(v) for v in rng.values(n)], "l": str(Fraction(lf, k)),
            "r": str(Fraction(rf, k)), "lr": False, "rr": False, "dt": [unit, fine, k], "lf": lf, "rf": rf,
            "layout": "contig,contig,contig", "hist": "none"}


def gen_session(rng):
    c = W.gen_init(rng, 4, 10)
    c["kind"] = "session"
    c["x_none"] = False
    zero_at = None
    if rng.random() < 0.3:
        # an abscissa that is exactly 0 in the interior (0 is falsy in Python)
        xs = [Fraction(v) for v in c["x"]]
        zero_at = rng.randrange(1, len(xs) - 1)
        c["x"] = [str(v - xs[zero_at]) for v in xs]
    ops = []
    for _ in range(rng.randint(0, 2)):
        ops.append(W.gen_domain_op(rng, ["shift_x", "scale_x", "repeat", "append"]))
    if rng.random() < 0.4:
        st = rng.choice(["pc", "linfixed"])
        rec = {"op": "recreate", "strategy": st, "n": 2}
        if st == "linfixed":
            rec["alpha"] = str(Fraction(rng.randint(4, 16), 16))
        ops.append(rec)
    if rng.random() < 0.4:
        # a resampling that leaves working and reference grids not nested in each other
        ops.append({"op": "interp", "method": rng.choice(["linear", "constant"]), "n": rng.randint(3, 17)})
    ops.append(W.gen_domain_op(rng, ["trunc_v", "trunc_v", "trunc_i"]))
    if rng.random() < 0.3:
        ops.append(W.gen_domain_op(rng, ["trunc_v", "trunc_i"]))
    c["ops"] = ops
    qs = []
    if zero_at is not None and all(o["op"] in ("trunc_i",) for o in ops) is False:
        pass
    if zero_at is not None:
        c["ops"] = []          # keep the zero sample where it is
        qs.append({"q": "slice_v", "start": f"@{zero_at}", "stop": None, "step": 1})
        qs.append({"q": "slice_v", "start": None, "stop": f"@{zero_at}", "step": 1})
    for _ in range(rng.randint(1, 4)):
        if rng.random() < 0.5:
            qs.append({"q": "slice_i", "start": rng.randint(-1, 6), "stop": rng.choice([None, rng.randint(-3, 14)]),
                       "step": rng.randint(1, 3)})
        else:
            a = rng.choice([None, "@0", "@1", "@2", "1398101/4194304", "~1:1", "~2:-2", "~0:3"])
            b2 = rng.choice([None, "@-1", "@2", "@3", "9786709/4194304", "~3:1", "~2:4", "~-1:-1"])
            qs.append({"q": "slice_v", "start": a, "stop": b2, "step": rng.choice([1, 1, 2])})
    c["queries"] = qs
    if rng.random() < 0.35:
        # the same requests before and after the caller edits, in place, the arrays get() handed out
        # (same array objects, other contents): a slice is a function of the series as it is NOW
        vq = [q for q in qs if q["q"] == "slice_v" or rng.random() < 0.5][:3]
        pre = [{"op": "query", "query": dict(q)} for q in vq]
        poke = W.gen_poke_op(rng)
        # literal bounds are only comparable where every abscissa is exact in floating point (no computed grid)
        exact_hist = all(o["op"] in ("shift_x", "scale_x", "repeat", "append", "trunc_i") for o in c["ops"])
        if rng.random() < 0.5:
            # a shift by a whole number of steps of a uniform series: the old bounds are samples again, elsewhere
            xs = [Fraction(v) for v in c["x"]]
            poke = {"op": "poke_x", "v": str((xs[1] - xs[0]) * rng.choice([-2, -1, 1, 2, 3]))}
        c["ops"] = c["ops"] + pre + [poke] + [{"op": "query", "query": dict(q, again=exact_hist and rng.random() < 0.7)} for q in vq]
    return c


def cases(rng, tier):
    na, nb = {"quick": (500, 300), "thorough": (6000, 4000)}.get(tier, (300, 150))
    if tier == "thorough":
        for _ in range(4):
            yield gen_longtrunc(rng, 150)
    else:
        yield gen_longtrunc(rng)
    for _ in range(max(20, na // 10)):
        yield gen_bigint(rng)
    for _ in range(max(20, na // 10)):
        yield gen_datetime(rng)
    for _ in range(max(20, na // 10)):
        yield gen_burst(rng)
    for _ in range(na):
        yield gen_trunc(rng)
    for _ in range(nb):
        yield gen_session(rng)


def V(c):
    return [Fraction(v) for v in c["x"]], [Fraction(v) for v in c["y"]]


def run_impl(c):
    if c["kind"] == "longtrunc":
        return run_longtrunc(c)
    if c["kind"] == "truncate":
        from traffic_weaver.process import truncate
        x, y = V(c)
        try:
            if c.get("dt"):
                unit, fine, k = c["dt"]
                xd = np.array([int(v) for v in x], dtype=f"datetime64[{unit}]")
                rx, ry = truncate(xd, S.arr(floats(y)), np.datetime64(c["lf"], fine), np.datetime64(c["rf"], fine), False, False)
                return {"ok": [[float(v) for v in np.asarray(rx).astype(f"datetime64[{unit}]").astype(np.int64)],
                               [float(v) for v in ry]]}
            if c.get("bigint"):
                xi = S.arr([int(v) for v in x], dtype=np.int64)
                lb = float(Fraction(c["l"])) if c["lf"] else int(Fraction(c["l"]))
                rb = float(Fraction(c["r"])) if c["rf"] else int(Fraction(c["r"]))
                rx, ry = truncate(xi, S.arr(floats(y)), lb, rb, c["lr"], c["rr"])
                return {"ok": [[str(int(v)) for v in rx], [float(v) for v in ry]], "exact_ints": True}
            rx, ry = truncate(S.arr(floats(x)), S.arr(floats(y)), float(Fraction(c["l"])), float(Fraction(c["r"])),
                              c["lr"], c["rr"])
            return {"ok": [[float(v) for v in rx], [float(v) for v in ry]]}
        except Exception as e:  # noqa
            return {"err": err_kind(e)}
    # tolerate out-of-range symbolic samples in the queries
    io = None
    try:
        io = W.run_program(c)
    except IndexError:
        c["queries"] = []
        io = W.run_program(c)
    c["_lines"] = io["lines"]
    return io


def request(c):
    if c["kind"] == "longtrunc":
        return []
    if c["kind"] == "truncate":
        x, y = V(c)
        return (f"truncate {fmt(Fraction(c['l']))} {fmt(Fraction(c['r']))} {1 if c['lr'] else 0} {1 if c['rr'] else 0} "
                f"{fmt_list(x)} {fmt_list(y)}")
    return c["_lines"]


def compare(c, io, mo):
    if c["kind"] == "longtrunc":
        return None
    if c["kind"] == "truncate":
        m = mo[0]
        if "err" in io:
            return None if m == f"ERR {io['err']}" else f"impl raised {io['err']}, model says {m[:60]}"
        if not m.startswith("ok "):
            return f"impl returned a cut, model says {m[:60]}"
        f = m[3:].split(" ")
        mx, my = parse_rats(f[2]), parse_rats(f[3])
        if io.get("exact_ints"):
            ok = [Fraction(v) for v in io["ok"][0]] == list(mx) and exact(io["ok"][1], my)
            return None if ok else f"cut differs: impl x {io['ok'][0][:3]}..{io['ok'][0][-1:]} ({len(io['ok'][0])}) model {[str(v) for v in mx[:3]]} ({len(mx)})"
        return None if exact(io["ok"][0], mx) and exact(io["ok"][1], my) else f"cut differs: impl {io['ok'][0]} model {[float(v) for v in mx]}"
    return W.compare_program(c, io, mo)


def expected_cut(xf, l, r):
    le = [i for i, v in enumerate(xf) if v <= l]
    ge = [i for i, v in enumerate(xf) if v >= r]
    a = le[-1] if le else 0
    b = ge[0] if ge else len(xf) - 1
    return a, b


def oracle(c, io):
    if c["kind"] == "longtrunc":
        bad = [r for r in io["long"] if not r[1]]
        if bad:
            g, _, ln, last, want = bad[0]
            return (f"truncate of a series of {c['n']} samples to a right bound between samples {g - 1} and {g}: the result has "
                    f"{ln} samples and ends at {last!r}; the smallest covering run ends at x[{g}] = {want!r} "
                    f"({len(bad)} of {len(io['long'])} bounds wrong)")
        return None
    if c["kind"] == "truncate" and c.get("bigint"):
        x, y = V(c)
        l, r = Fraction(c["l"]), Fraction(c["r"])
        if "err" in io:
            return f"valid truncation raised {io['err']}"
        a, b = expected_cut(x, l, r)
        if [Fraction(v) for v in io["ok"][0]] != x[a:b + 1] or io["ok"][1] != floats(y)[a:b + 1]:
            return (f"truncate of integer time stamps to [{c['l']}, {c['r']}] kept {len(io['ok'][0])} samples starting at "
                    f"{io['ok'][0][:1]}; the smallest covering run is x[{a}:{b + 1}] ({b + 1 - a} samples starting at {x[a]})")
        return None
    if c["kind"] == "truncate":
        x, y = V(c)
        xf, yf = floats(x), floats(y)
        l, r = float(Fraction(c["l"])), float(Fraction(c["r"]))
        if c["lr"]:
            l = l * (xf[-1] - xf[0]) + xf[0]
        if c["rr"]:
            r = r * (xf[-1] - xf[0]) + xf[0]
        if l >= r:
            return None if io.get("err") == "ValueError" else f"empty / inverted range [{l}, {r}] not rejected with ValueError: {io}"
        if "err" in io:
            return f"valid truncation raised {io['err']}"
        a, b = expected_cut(xf, l, r)
        if io["ok"][0] != xf[a:b + 1] or io["ok"][1] != yf[a:b + 1]:
            return (f"truncate to [{l}, {r}] kept x={io['ok'][0]}; the smallest covering run is x[{a}:{b+1}]={xf[a:b+1]} "
                    f"(x and y must be cut identically)")
        return None
    steps = io["steps"]
    nops = len(c["ops"])
    if any("err" in st for st in steps):
        bad = [st["err"] for st in steps if "err" in st][0]
        return None if bad == "ValueError" else f"session step raised {bad}"
    # Weaver truncations: working and reference are cut with the same bounds
    for i, op in enumerate(c["ops"]):
        st = steps[i + 1] if i + 1 < len(steps) else None
        prev = steps[i].get("state") if i < len(steps) else None
        if st is None or prev is None or "state" not in st:
            break
        if "err" in st:
            break
        s = st["state"]
        if op["op"] == "trunc_v":
            l, r = op["_args"]
            for (kx, ky) in (("x", "y"), ("rx", "ry")):
                px, py = prev[kx], prev[ky]
                ll = l * (px[-1] - px[0]) + px[0] if op["lr"] else l
                rr = r * (px[-1] - px[0]) + px[0] if op["rr"] else r
                a, b = expected_cut(px, ll, rr)
                if s[kx] != px[a:b + 1] or s[ky] != py[a:b + 1]:
                    near = any(abs(v - ll) < 1e-9 * max(1, abs(v)) or abs(v - rr) < 1e-9 * max(1, abs(v)) for v in px)
                    if near:
                        continue    # a bound within rounding distance of a computed sample: not judged
                    return f"truncate_by_value: {kx} cut to {s[kx][:4]}..., expected x[{a}:{b+1}]"
        elif op["op"] == "trunc_i":
            f = op["_line"].split(" ")
            a = int(f[2])
            b = len(prev["x"]) if f[3] == "none" else int(f[3])     # an omitted stop is the length of the WORKING series
            for k in W.KEYS[:4]:
                if s[k] != prev[k][a:b]:
                    return f"truncate_by_index({a}, {b}): {k} is not the Python slice"
    # every slice request is judged against the series as it is at that moment (in-program requests included)
    cur = None
    reqs = [o.get("query") if o["op"] == "query" else None for o in c["ops"]] + list(c.get("queries", []))
    for st, q in zip(steps[1:], reqs):
        if "state" in st:
            cur = st["state"]
    cur = steps[0].get("state")
    for st, q in zip(steps[1:], reqs):
        if "state" in st:
            cur = st["state"]
            continue
        if q is None or cur is None:
            continue
        r = judge_query(q, st, cur["x"], cur["y"])
        if r:
            return r
    return None


def judge_query(q, st, xf, yf):
    if q["q"] == "slice_i":
        bad = q["start"] < 0 or (q["stop"] is not None and q["stop"] > len(xf))
        if bad:
            if st.get("query_err") != "ValueError":
                return f"slice_by_index({q['start']}, {q['stop']}) out of range not rejected with ValueError: {st}"
        elif "query" in st:
            if st["query"][0] != xf[q["start"]:q["stop"]:q["step"]] or st["query"][1] != yf[q["start"]:q["stop"]:q["step"]]:
                return f"slice_by_index({q['start']}, {q['stop']}, {q['step']}) differs from the Python slice"
        else:
            return f"valid slice_by_index raised {st.get('query_err')}"
        return None

    def val(v):
        if v is None:
            return None
        if isinstance(v, str) and v.startswith("~"):
            i, k_ = (int(t) for t in v[1:].split(":"))
            if not xf:
                return 0.5
            t = xf[i % len(xf)]
            for _ in range(abs(k_)):
                t = math.nextafter(t, math.inf if k_ > 0 else -math.inf)      # the same rule as the runner's
            return t
        if isinstance(v, str) and v.startswith("@"):
            i = int(v[1:])
            if not xf:
                return 0.0
            return xf[i] if -len(xf) <= i < len(xf) else xf[-1]      # the same rule as the runner's
        return float(Fraction(v))
    a, b = val(q["start"]), val(q["stop"])
    if "_lit" in q:
        a, b = q["_lit"]
    absent = (a is not None and a not in xf) or (b is not None and b not in xf)
    if absent:
        if st.get("query_err") != "ValueError":
            return f"slice_by_value with a value that is not a sample not rejected with ValueError: {st}"
    elif "query" in st:
        lo = xf[0] if a is None else a
        hi = xf[-1] if b is None else b
        keep = [i for i, v in enumerate(xf) if lo <= v <= hi][::q["step"]]
        if st["query"][0] != [xf[i] for i in keep] or st["query"][1] != [yf[i] for i in keep]:
            return (f"slice_by_value({q['start']}, {q['stop']}) returned {st['query'][0]}, the samples with "
                    f"start <= x <= stop are {[xf[i] for i in keep]}")
    else:
        return f"valid slice_by_value({q['start']}, {q['stop']}) raised {st.get('query_err')}"
    return None


def tags(c, io, mo):
    if c["kind"] == "longtrunc":
        return ["kind=longtrunc"]
    if c["kind"] == "truncate":
        return ["kind=truncate", "ratio" if c["lr"] or c["rr"] else "absolute"] + ([f"error={io['err']}"] if "err" in io else [])
    t = ["kind=session"]
    for st in io["steps"]:
        if "query_err" in st:
            t.append(f"query-error={st['query_err']}")
        if "query" in st:
            t.append("query-ok")
        if "err" in st:
            t.append(f"error={st['err']}")
    return t


def nontrivial_key(c, io, mo):
    if c["kind"] == "longtrunc":
        return c
    if c["kind"] == "truncate":
        return c if "ok" in io and len(io["ok"][0]) < len(c["x"]) else None
    return {"x": c["x"], "ops": [{k: v for k, v in o.items() if not k.startswith("_")} for o in c["ops"]],
            "queries": c.get("queries")}


def matches_known(k, rec):
    return False
